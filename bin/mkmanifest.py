#!/usr/bin/env python3
"""Regenerates MANIFEST.json from the table below (kept in one place so the
manifest stays valid while checks are added)."""
import json, os, sys
HERE = os.path.dirname(os.path.dirname(os.path.abspath(__file__)))
props = [json.loads(l) for l in open(os.path.join(HERE, "properties.jsonl"))]
ids = [p["id"] for p in props]

# id -> (level category, technique, level text, level note, design ref)
CHECKS = {
 "C12": ("exploration", "reference-order monitor over exhaustive pool pairs/triples + random pairs",
         "Every ordered pair and triple of a fixed pool of boundary values is run through the real bsonkit.Compare and judged for reflexivity, antisymmetry, transitivity, congruence and agreement with an exact big-rational reference order; random nested pairs and driver-level sorted Find/Distinct add reach. Held-on-what-was-observed, exhaustive relative to the pool.",
         "Trusted: ref.Compare (exact arithmetic, DESIGN.md 8.1). Values outside the pool/generator are not covered.", "9/C12"),
}
NOT_YET = "check not built yet in this session; will be decided by runtime monitoring as described in DESIGN.md section 9"

extra = {}
p = os.path.join(HERE, "bin", "manifest_extra.json")
if os.path.exists(p):
    extra = json.load(open(p))
CHECKS.update({k: tuple(v) for k, v in extra.items()})

checks = []
for i in ids:
    if i not in CHECKS: continue
    cat, tech, text, note, ref = CHECKS[i]
    checks.append({
        "property_id": i,
        "quick_cmd": f"bin/check {i} quick",
        "thorough_cmd": f"bin/check {i} thorough",
        "evidence_file": f"/verif/evidence/{i}.json",
        "replay_cmd_template": f"bin/check {i} --replay {{path}}",
        "engine": "verifharness",
        "level_claimed": {"category": cat, "text": text, "design_ref": "DESIGN.md section " + ref},
        "level_note": note,
        "technique": tech,
    })
m = {
 "version": 1,
 "setup_cmd": "bin/setup",
 "hooks": {
   "guard": "verif",
   "enable": "go build -tags verif (the harness module replaces github.com/256dpi/lungo with /repo; bin/check rebuilds from the working tree on every run)",
   "baseline_off_cmd": "cd /repo && GOFLAGS=-mod=mod GOPROXY=off go test -vet=off -count=1 -timeout 25m ./bsonkit/... ./dbkit/...",
   "source_commits": [l.strip() for l in open(os.path.join(HERE, "bin", "hook_commits.txt")) if l.strip()],
   "add_only": True,
 },
 "engines": [{"name": "verifharness", "path": "/verif/harness", "serves_properties": [c["property_id"] for c in checks],
              "kind_free_text": "Go harness: seeded generators, independent reference semantics, invariant/alias/oplog monitors, hook controller, porcupine, strace-driven crash and fault sweeps; one binary (plain and -race), parent/worker processes"}],
 "checks": checks,
 "notes": "Runtime monitoring and sanitizers only. exit 0 held / 1 violation (VIOLATION line) / 3 inconclusive. KNOWN_FINDINGS.txt lists recorded and fixed defects.",
 "not_applicable": [{"property_id": i, "reason": NOT_YET} for i in ids if i not in CHECKS],
}
json.dump(m, open(os.path.join(HERE, "MANIFEST.json"), "w"), indent=1)
print("checks:", [c["property_id"] for c in checks])
