# sourced by bin/check and setup: offline Go environment
export GOFLAGS=-mod=mod
export GOPROXY=off
export GOTOOLCHAIN=auto
unset GOSUMDB
export VERIF_DIR="${VERIF_DIR:-/verif}"
