package mon

import (
	"fmt"
	"sort"

	"github.com/256dpi/lungo"
	"github.com/256dpi/lungo/bsonkit"
	"github.com/256dpi/lungo/mongokit"
	"go.mongodb.org/mongo-driver/bson"
	"go.mongodb.org/mongo-driver/bson/primitive"

	"verifharness/gen"
	"verifharness/ref"
)

// Problem is one violated structural invariant.
type Problem struct {
	// Kind is a stable signature of the invariant (not of the data).
	Kind string
	NS   string
	Desc string
}

func (p Problem) String() string { return p.Kind + " @" + p.NS + ": " + p.Desc }

// InvStats counts how often each assertion was actually evaluated.
type InvStats struct {
	Collections     int64
	Indexes         int64
	MembershipDocs  int64
	OrderPairs      int64
	Rebuilds        int64
	EntriesCompared int64
	UniquePairs     int64
	PartialFiltered int64
	MultikeyDocs    int64
	OutOfDomain     int64
}

// partialMatch decides membership under a partial filter with the reference
// evaluator; outside its domain the index is not judged (ok=false).
func partialMatch(d bson.D, partial *bson.D) (member bool, ok bool) {
	if partial == nil {
		return true, true
	}
	info := &ref.MatchInfo{}
	m, err := ref.Match(d, *partial, info)
	if err != nil || info.OutOfDomain {
		return false, false
	}
	return m, true
}

// CheckCatalog evaluates the structural invariants of DESIGN.md section 6 on
// every namespace of the catalog. uniqueOnly restricts the index checks to the
// uniqueness part (C07); otherwise everything is checked (C15).
func CheckCatalog(cat *lungo.Catalog, st *InvStats) []Problem {
	var out []Problem
	handles := make([]lungo.Handle, 0, len(cat.Namespaces))
	for h := range cat.Namespaces {
		handles = append(handles, h)
	}
	sort.Slice(handles, func(i, j int) bool { return handles[i].String() < handles[j].String() })
	if cat.Namespaces[lungo.Oplog] == nil {
		out = append(out, Problem{"oplog-missing", "local.oplog", "catalog has no change log namespace"})
	}
	for _, h := range handles {
		ns := cat.Namespaces[h]
		out = append(out, CheckCollection(h.String(), ns, h[0] != lungo.Local, st)...)
		if h == lungo.Oplog {
			out = append(out, checkOplogOrder(ns)...)
		}
	}
	return out
}

func checkOplogOrder(ns *mongokit.Collection) []Problem {
	var prev primitive.Timestamp
	for i, d := range ns.Documents.List {
		ts, ok := ref.GetPath(*d, "_id.ts").(primitive.Timestamp)
		if !ok {
			return []Problem{{"oplog-event-without-ts", "local.oplog", fmt.Sprintf("event %d has no _id.ts timestamp: %s", i, gen.JSON(*d))}}
		}
		if i > 0 && !(ts.T > prev.T || (ts.T == prev.T && ts.I > prev.I)) {
			return []Problem{{"oplog-ids-not-increasing", "local.oplog", fmt.Sprintf("event %d has id %v after %v", i, ts, prev)}}
		}
		prev = ts
	}
	return nil
}

// CheckCollection evaluates the invariants of one collection.
func CheckCollection(name string, ns *mongokit.Collection, needID bool, st *InvStats) []Problem {
	var out []Problem
	add := func(kind, format string, a ...interface{}) {
		if len(out) < 20 {
			out = append(out, Problem{kind, name, fmt.Sprintf(format, a...)})
		}
	}
	if st != nil {
		st.Collections++
	}
	set := ns.Documents
	// set / list / map agreement
	if len(set.Index) != len(set.List) {
		add("set-size", "document list has %d entries but the position map %d", len(set.List), len(set.Index))
	}
	pos := make(map[bsonkit.Doc]int, len(set.List))
	for i, d := range set.List {
		if d == nil {
			add("set-nil-doc", "nil document at position %d", i)
			continue
		}
		if _, dup := pos[d]; dup {
			add("set-duplicate-pointer", "document at position %d listed twice", i)
		}
		pos[d] = i
		if p, ok := set.Index[d]; !ok || p != i {
			add("set-position", "document at position %d is mapped to %d (present=%v)", i, p, ok)
		}
	}
	if needID {
		if _, ok := ns.Indexes["_id_"]; !ok {
			add("id-index-missing", "collection has no _id_ index")
		}
	}
	docs := make([]bson.D, len(set.List))
	for i, d := range set.List {
		if d != nil {
			docs[i] = *d
		}
	}
	names := make([]string, 0, len(ns.Indexes))
	for n := range ns.Indexes {
		names = append(names, n)
	}
	sort.Strings(names)
	for _, n := range names {
		idx := ns.Indexes[n]
		cfg := idx.Config()
		if st != nil {
			st.Indexes++
		}
		if n == "_id_" {
			if !cfg.Unique || len(*cfg.Key) != 1 || (*cfg.Key)[0].Key != "_id" || cfg.Partial != nil {
				add("id-index-definition", "_id_ index has definition key=%s unique=%v partial=%v", gen.JSON(*cfg.Key), cfg.Unique, cfg.Partial != nil)
			}
		}
		cols := ref.KeyCols(*cfg.Key)
		// expected membership
		expect := map[bsonkit.Doc]bool{}
		judged := true
		tuples := make([][][]interface{}, len(docs))
		ood := false
		for i, d := range set.List {
			m, ok := partialMatch(docs[i], cfg.Partial)
			if !ok {
				judged = false
				break
			}
			if cfg.Partial != nil && st != nil && !m {
				st.PartialFiltered++
			}
			if m {
				expect[d] = true
				ts, o := ref.IndexTuples(docs[i], cols)
				tuples[i] = ts
				if o {
					ood = true
				}
				if len(ts) > 1 && st != nil {
					st.MultikeyDocs++
				}
			}
		}
		if !judged {
			if st != nil {
				st.OutOfDomain++
			}
			continue
		}
		list := idx.List()
		seen := map[bsonkit.Doc]bool{}
		for _, d := range list {
			if seen[d] {
				add("index-duplicate-member", "index %q lists a document twice: %s", n, gen.JSON(*d))
			}
			seen[d] = true
			if _, ok := pos[d]; !ok {
				add("index-stale-member", "index %q holds a document that is not (or no longer) in the collection: %s", n, gen.JSON(*d))
			} else if !expect[d] {
				add("index-unexpected-member", "index %q holds a document that does not match its partial filter: %s", n, gen.JSON(*d))
			}
		}
		for d := range expect {
			if st != nil {
				st.MembershipDocs++
			}
			if !seen[d] {
				add("index-missing-member", "index %q does not hold document %s", n, gen.JSON(*d))
			}
		}
		// rebuild differential (same pointers, so ties by address agree)
		fresh, err := mongokit.CreateIndex(cfg)
		if err == nil {
			ok, berr := fresh.Build(set.List)
			if st != nil {
				st.Rebuilds++
			}
			if berr != nil || !ok {
				add("index-rebuild-fails", "an index rebuilt from scratch with the definition of %q over the current documents fails (duplicate=%v err=%v)", n, !ok, berr)
			} else {
				fl := fresh.List()
				same := len(fl) == len(list)
				for i := 0; same && i < len(fl); i++ {
					if fl[i] != list[i] {
						same = false
					}
				}
				if !same {
					add("index-differs-from-rebuild", "index %q lists %v but an index rebuilt from scratch lists %v (positions in the collection)", n, positions(list, pos), positions(fl, pos))
				}
				// entry level (hook VerifEntries): the tree holds exactly the
				// entries a rebuild produces - one per key tuple of each member,
				// no entry for a key a document no longer has, in the same order
				k1, d1 := idx.VerifEntries()
				k2, d2 := fresh.VerifEntries()
				if st != nil {
					st.EntriesCompared += int64(len(k2))
				}
				if len(k1) != len(k2) {
					add("index-entries-differ-from-rebuild", "index %q has %d tree entries, an index rebuilt from scratch over the current documents %d (stale or missing multikey entries)", n, len(k1), len(k2))
				} else {
					for i := range k1 {
						same := d1[i] == d2[i] && len(k1[i]) == len(k2[i])
						for j := 0; same && j < len(k1[i]); j++ {
							if bsonkit.Compare(k1[i][j], k2[i][j]) != 0 {
								same = false
							}
						}
						if !same {
							add("index-entries-differ-from-rebuild", "index %q: tree entry %d differs from the one of an index rebuilt from scratch (document %s)", n, i, gen.JSON(*d1[i]))
							break
						}
					}
				}
				// Has answers
				for _, d := range set.List {
					h1, e1 := idx.Has(d)
					h2, e2 := fresh.Has(d)
					if h1 != h2 || (e1 == nil) != (e2 == nil) {
						add("index-has-differs-from-rebuild", "index %q answers Has=%v, a rebuilt one %v for %s", n, h1, h2, gen.JSON(*d))
						break
					}
				}
			}
		} else {
			add("index-config-invalid", "definition of index %q cannot be re-created: %v", n, err)
		}
		if ood {
			if st != nil {
				st.OutOfDomain++
			}
			continue
		}
		// key order under the reference extractor and comparator
		var prev []interface{}
		for i, d := range list {
			p, ok := pos[d]
			if !ok || tuples[p] == nil {
				prev = nil
				continue
			}
			mt := ref.MinTuple(tuples[p], cols)
			if i > 0 && prev != nil {
				if st != nil {
					st.OrderPairs++
				}
				if ref.CompareTuples(prev, mt, cols) > 0 {
					add("index-order", "index %q lists a document with key %s after one with key %s", n, gen.JSON(bson.A(mt)), gen.JSON(bson.A(prev)))
				}
			}
			prev = mt
		}
		// uniqueness
		if cfg.Unique {
			out = append(out, uniquePairs(name, n, set.List, docs, tuples, st)...)
		}
	}
	return out
}

func uniquePairs(ns, index string, list bsonkit.List, docs []bson.D, tuples [][][]interface{}, st *InvStats) []Problem {
	var out []Problem
	for i := range list {
		if tuples[i] == nil {
			continue
		}
		for j := i + 1; j < len(list); j++ {
			if tuples[j] == nil {
				continue
			}
			if st != nil {
				st.UniquePairs++
			}
			if ref.TuplesShare(tuples[i], tuples[j]) {
				out = append(out, Problem{"unique-violated", ns, fmt.Sprintf("unique index %q: documents %s and %s share a key", index, gen.JSON(docs[i]), gen.JSON(docs[j]))})
				if len(out) > 3 {
					return out
				}
			}
		}
	}
	return out
}

func positions(l bsonkit.List, pos map[bsonkit.Doc]int) []int {
	out := make([]int, len(l))
	for i, d := range l {
		p, ok := pos[d]
		if !ok {
			p = -1
		}
		out[i] = p
	}
	return out
}

// Conflicts tells, with the reference extractor and comparator, whether
// document d would share a key with any document of others under a unique
// index with the given key and partial filter. ok=false: outside the domain.
func Conflicts(d bson.D, others []bson.D, key bson.D, partial *bson.D) (conflict bool, ok bool) {
	cols := ref.KeyCols(key)
	m, pok := partialMatch(d, partial)
	if !pok {
		return false, false
	}
	if !m {
		return false, true
	}
	dt, ood := ref.IndexTuples(d, cols)
	if ood {
		return false, false
	}
	for _, o := range others {
		om, pok := partialMatch(o, partial)
		if !pok {
			return false, false
		}
		if !om {
			continue
		}
		ot, ood := ref.IndexTuples(o, cols)
		if ood {
			return false, false
		}
		if ref.TuplesShare(dt, ot) {
			return true, true
		}
	}
	return false, true
}
