package mon

import (
	"fmt"
	"reflect"
	"sort"
	"unsafe"

	"github.com/256dpi/lungo"
)

// Region is a piece of mutable memory: the backing array of a slice or a map.
type Region struct {
	Base uintptr
	Len  uintptr // bytes (1 for maps: identity only)
	What string  // where it was found
}

// Reach collects the mutable memory reachable from v: the backing array of
// every slice (bson.D, bson.A, []byte, []interface{}, ...), every map and every
// pointer target it meets. Strings are immutable and skipped.
func Reach(v interface{}, what string) []Region {
	var out []Region
	seen := map[uintptr]bool{}
	var walk func(rv reflect.Value, path string, depth int)
	walk = func(rv reflect.Value, path string, depth int) {
		if depth > 80 || !rv.IsValid() {
			return
		}
		switch rv.Kind() {
		case reflect.Interface:
			if !rv.IsNil() {
				walk(rv.Elem(), path, depth+1)
			}
		case reflect.Ptr:
			if rv.IsNil() {
				return
			}
			p := rv.Pointer()
			if seen[p] {
				return
			}
			seen[p] = true
			sz := rv.Type().Elem().Size()
			if sz > 0 {
				out = append(out, Region{Base: p, Len: sz, What: path + "(*)"})
			}
			walk(rv.Elem(), path, depth+1)
		case reflect.Slice:
			if rv.IsNil() || rv.Cap() == 0 {
				return
			}
			p := rv.Pointer()
			esz := rv.Type().Elem().Size()
			// only the visible part [0:len) belongs to the value
			if rv.Len() > 0 && esz > 0 {
				out = append(out, Region{Base: p, Len: uintptr(rv.Len()) * esz, What: path + "[]"})
			}
			if rv.Type().Elem().Kind() == reflect.Uint8 {
				return
			}
			for i := 0; i < rv.Len(); i++ {
				walk(rv.Index(i), fmt.Sprintf("%s[%d]", path, i), depth+1)
			}
		case reflect.Array:
			if rv.Type().Elem().Kind() == reflect.Uint8 {
				return
			}
			for i := 0; i < rv.Len(); i++ {
				walk(rv.Index(i), fmt.Sprintf("%s[%d]", path, i), depth+1)
			}
		case reflect.Map:
			if rv.IsNil() {
				return
			}
			p := rv.Pointer()
			if seen[p] {
				return
			}
			seen[p] = true
			out = append(out, Region{Base: p, Len: 1, What: path + "{map}"})
			it := rv.MapRange()
			for it.Next() {
				walk(it.Value(), path+"."+fmt.Sprint(it.Key()), depth+1)
			}
		case reflect.Struct:
			for i := 0; i < rv.NumField(); i++ {
				f := rv.Field(i)
				if !f.CanInterface() {
					// unexported: read-only access through unsafe
					if f.CanAddr() {
						f = reflect.NewAt(f.Type(), unsafe.Pointer(f.UnsafeAddr())).Elem()
					} else {
						continue
					}
				}
				walk(f, path+"."+rv.Type().Field(i).Name, depth+1)
			}
		}
	}
	walk(reflect.ValueOf(v), what, 0)
	return out
}

// EngineReach collects the mutable memory of everything stored in a catalog:
// documents of all namespaces incl. the change log, and index definitions.
func EngineReach(cat *lungo.Catalog) []Region {
	var out []Region
	for h, ns := range cat.Namespaces {
		for i, d := range ns.Documents.List {
			out = append(out, Reach(d, fmt.Sprintf("%s#%d", h.String(), i))...)
		}
		for n, idx := range ns.Indexes {
			// Config() returns clones; reach the index itself for its private config
			out = append(out, Reach(idx, h.String()+"/"+n)...)
		}
	}
	return out
}

// Overlap returns a description of the first pair of overlapping regions
// ("" if the two sets are disjoint).
func Overlap(a, b []Region) string {
	if len(a) == 0 || len(b) == 0 {
		return ""
	}
	sb := append([]Region{}, b...)
	sort.Slice(sb, func(i, j int) bool { return sb[i].Base < sb[j].Base })
	// prefix maximum of the region ends (monotone, so it can be searched)
	pm := make([]uintptr, len(sb))
	var m uintptr
	for i, r := range sb {
		if e := r.Base + r.Len; e > m {
			m = e
		}
		pm[i] = m
	}
	for _, x := range a {
		// first position up to which some region ends after x.Base
		i := sort.Search(len(sb), func(i int) bool { return pm[i] > x.Base })
		for j := i; j < len(sb) && sb[j].Base < x.Base+x.Len; j++ {
			if sb[j].Base+sb[j].Len > x.Base {
				return fmt.Sprintf("%s shares memory with %s", x.What, sb[j].What)
			}
		}
	}
	return ""
}

// Scribble overwrites every mutable position reachable from v in place: bytes
// of byte slices are flipped, interface-typed elements of slices, maps and
// struct fields are replaced by the string "scribbled" (after their own
// contents have been scribbled), string keys of bson.E-like structs get a
// prefix. It only writes through memory the value itself refers to.
func Scribble(v interface{}) { scribble(v, true) }

// ScribbleKeepBytes is Scribble without touching byte slices (binary payloads).
func ScribbleKeepBytes(v interface{}) { scribble(v, false) }

func scribble(v interface{}, flipBytes bool) {
	var walk func(rv reflect.Value, depth int)
	walk = func(rv reflect.Value, depth int) {
		if depth > 80 || !rv.IsValid() {
			return
		}
		switch rv.Kind() {
		case reflect.Interface, reflect.Ptr:
			if !rv.IsNil() {
				walk(rv.Elem(), depth+1)
			}
		case reflect.Slice, reflect.Array:
			if rv.Kind() == reflect.Slice && rv.IsNil() {
				return
			}
			if rv.Type().Elem().Kind() == reflect.Uint8 {
				for i := 0; flipBytes && i < rv.Len(); i++ {
					e := rv.Index(i)
					if e.CanSet() {
						e.SetUint(e.Uint() ^ 0xff)
					}
				}
				return
			}
			for i := 0; i < rv.Len(); i++ {
				e := rv.Index(i)
				walk(e, depth+1)
				if e.Kind() == reflect.Interface && e.CanSet() {
					e.Set(reflect.ValueOf("scribbled"))
				}
			}
		case reflect.Map:
			if rv.IsNil() {
				return
			}
			for _, k := range rv.MapKeys() {
				walk(rv.MapIndex(k), depth+1)
				if rv.Type().Elem().Kind() == reflect.Interface {
					rv.SetMapIndex(k, reflect.ValueOf("scribbled"))
				}
			}
		case reflect.Struct:
			for i := 0; i < rv.NumField(); i++ {
				f := rv.Field(i)
				if !f.CanInterface() {
					continue
				}
				walk(f, depth+1)
				if !f.CanSet() {
					continue
				}
				switch f.Kind() {
				case reflect.Interface:
					f.Set(reflect.ValueOf("scribbled"))
				case reflect.String:
					f.SetString("k" + f.String())
				}
			}
		}
	}
	walk(reflect.ValueOf(v), 0)
}
