// Package mon holds the monitors shared by the checks: canonical dumps of a
// catalog, structural invariants of collections and indexes, the oplog
// replayer, the alias walker and the API-level dump.
package mon

import (
	"fmt"
	"sort"
	"strings"

	"github.com/256dpi/lungo"
	"github.com/256dpi/lungo/bsonkit"
	"go.mongodb.org/mongo-driver/bson"

	"verifharness/gen"
)

// CatDump is the canonical dump of a catalog: one string per namespace (keyed
// by "db.coll"). Two catalogs hold the same data iff their dumps are equal.
type CatDump map[string]string

// DumpOpts selects what a dump contains.
type DumpOpts struct {
	// Oplog includes local.oplog (exact bytes).
	Oplog bool
	// NoIndexOrder leaves out the positions of the index lists (used when two
	// different engines are compared whose document addresses differ: ties in
	// a non-unique index are ordered by address).
	NoIndexOrder bool
}

// Dump renders the catalog.
func Dump(cat *lungo.Catalog, o DumpOpts) CatDump {
	out := CatDump{}
	for h, ns := range cat.Namespaces {
		if h == lungo.Oplog && !o.Oplog {
			continue
		}
		var sb strings.Builder
		pos := make(map[bsonkit.Doc]int, len(ns.Documents.List))
		fmt.Fprintf(&sb, "docs=%d\n", len(ns.Documents.List))
		for i, d := range ns.Documents.List {
			pos[d] = i
			b, err := bson.Marshal(d)
			if err != nil {
				fmt.Fprintf(&sb, "!marshal:%v\n", err)
				continue
			}
			fmt.Fprintf(&sb, "%x\n", b)
		}
		names := make([]string, 0, len(ns.Indexes))
		for n := range ns.Indexes {
			names = append(names, n)
		}
		sort.Strings(names)
		for _, n := range names {
			idx := ns.Indexes[n]
			cfg := idx.Config()
			part := "-"
			if cfg.Partial != nil {
				part = gen.JSON(*cfg.Partial)
			}
			fmt.Fprintf(&sb, "index %q key=%s unique=%v partial=%s expiry=%d", n, gen.JSON(*cfg.Key), cfg.Unique, part, int64(cfg.Expiry))
			if !o.NoIndexOrder {
				sb.WriteString(" list=")
				for _, d := range idx.List() {
					p, ok := pos[d]
					if !ok {
						p = -1
					}
					fmt.Fprintf(&sb, "%d,", p)
				}
			} else {
				fmt.Fprintf(&sb, " members=%d", len(idx.List()))
			}
			sb.WriteString("\n")
		}
		out[h.String()] = sb.String()
	}
	return out
}

// Equal reports whether two dumps are identical.
func (a CatDump) Equal(b CatDump) bool { return a.Diff(b) == "" }

// Diff describes the first difference between two dumps ("" if none).
func (a CatDump) Diff(b CatDump) string {
	keys := map[string]bool{}
	for k := range a {
		keys[k] = true
	}
	for k := range b {
		keys[k] = true
	}
	ks := make([]string, 0, len(keys))
	for k := range keys {
		ks = append(ks, k)
	}
	sort.Strings(ks)
	for _, k := range ks {
		x, okx := a[k]
		y, oky := b[k]
		if !okx {
			return fmt.Sprintf("namespace %s only in second dump", k)
		}
		if !oky {
			return fmt.Sprintf("namespace %s only in first dump", k)
		}
		if x != y {
			lx, ly := strings.Split(x, "\n"), strings.Split(y, "\n")
			for i := 0; i < len(lx) || i < len(ly); i++ {
				var l1, l2 string
				if i < len(lx) {
					l1 = lx[i]
				}
				if i < len(ly) {
					l2 = ly[i]
				}
				if l1 != l2 {
					return fmt.Sprintf("namespace %s line %d: %s  !=  %s", k, i, decodeLine(l1), decodeLine(l2))
				}
			}
		}
	}
	return ""
}

func decodeLine(l string) string {
	if len(l) > 8 && !strings.ContainsAny(l, " =") {
		// hex encoded document
		b := make([]byte, len(l)/2)
		if _, err := fmt.Sscanf(l, "%x", &b); err == nil {
			var d bson.D
			if bson.Unmarshal(b, &d) == nil {
				s := gen.JSON(d)
				if len(s) > 600 {
					s = s[:600] + "…"
				}
				return s
			}
		}
	}
	if len(l) > 600 {
		l = l[:600] + "…"
	}
	return l
}

// String renders the whole dump (for witnesses), documents decoded.
func (a CatDump) String() string {
	ks := make([]string, 0, len(a))
	for k := range a {
		ks = append(ks, k)
	}
	sort.Strings(ks)
	var sb strings.Builder
	for _, k := range ks {
		fmt.Fprintf(&sb, "[%s]\n", k)
		for _, l := range strings.Split(a[k], "\n") {
			if l != "" {
				sb.WriteString("  " + decodeLine(l) + "\n")
			}
		}
	}
	s := sb.String()
	if len(s) > 20000 {
		s = s[:20000] + "…"
	}
	return s
}

// Docs returns the documents of a namespace as bson.D copies (natural order).
func Docs(cat *lungo.Catalog, h lungo.Handle) []bson.D {
	ns := cat.Namespaces[h]
	if ns == nil {
		return nil
	}
	out := make([]bson.D, 0, len(ns.Documents.List))
	for _, d := range ns.Documents.List {
		out = append(out, gen.CloneDoc(*d))
	}
	return out
}

// OplogLen returns the number of events in the catalog's change log.
func OplogLen(cat *lungo.Catalog) int {
	ns := cat.Namespaces[lungo.Oplog]
	if ns == nil {
		return 0
	}
	return len(ns.Documents.List)
}
