package drv

import (
	"strings"

	"go.mongodb.org/mongo-driver/bson"
	"go.mongodb.org/mongo-driver/bson/primitive"

	"verifharness/fw"
	"verifharness/gen"
)

// HistOpts configures history generation.
type HistOpts struct {
	// Profile biases the operation mix: "mixed", "failure", "index", "crud".
	Profile string
	DBs     []string
	Colls   []string
	// ExplicitIDs makes every document that can be created carry an explicit
	// _id (twin engines then agree without id normalisation).
	ExplicitIDs bool
	// Deterministic leaves out $currentDate.
	Deterministic bool
	NoDrops       bool
	NoIndexOps    bool
	NoReads       bool
	// RichDocs mixes in nested generated documents next to the flat
	// collision-rich ones.
	RichDocs bool
	// Pool for rich documents and update operands.
	Pool gen.Pool
	// TTL allows expireAfterSeconds on generated indexes.
	TTL bool
}

// HistGen generates driver calls aimed at the current contents.
type HistGen struct {
	R *fw.Rand
	O HistOpts
	// Peek returns (copies of) the current documents of a collection.
	Peek func(db, coll string) []bson.D
	// IndexNames returns the current index names of a collection.
	IndexNames func(db, coll string) []string
	nextID     int32
}

// flat collision-rich field values (equal numbers of different types, arrays
// sharing elements, null, empty array, embedded documents)
var flatVals = []interface{}{
	int32(1), int64(1), float64(1), gen.D128("1"), int32(2), float64(2), int64(2), int32(3), gen.D128("3.0"), float64(2.5),
	"a", "b", "", nil, true,
	bson.A{int32(1), int32(2)}, bson.A{int32(2), int32(3)}, bson.A{float64(1)}, bson.A{}, bson.A{"a", int64(3)},
	bson.D{{Key: "x", Value: int32(1)}}, bson.D{{Key: "x", Value: float64(1)}}, bson.D{{Key: "x", Value: int32(2)}}, bson.D{{Key: "x", Value: bson.A{int32(1), int32(2)}}},
	primitive.DateTime(1000), primitive.DateTime(4102444800000),
	bson.A{bson.D{{Key: "x", Value: int32(1)}, {Key: "q", Value: int32(5)}}, bson.D{{Key: "x", Value: int32(2)}, {Key: "q", Value: int32(6)}}},
	// a double and the decimal with the same shortest rendering (two numbers);
	// a double and the decimal that is exactly its value (one number)
	float64(0.1), gen.D128("0.1"), float64(1.0 / (1 << 30)), gen.D128("9.31322574615478515625E-10"),
}

var poisonVals = []interface{}{int32(1), int32(7), "str", bson.A{int32(1)}, int64(5), nil, bson.D{{Key: "q", Value: int32(1)}}}

func (g *HistGen) flatVal() interface{} { return gen.CloneValue(fw.Pick(g.R, flatVals)) }

func (g *HistGen) id() interface{} {
	r := g.R
	if r.Chance(3, 5) {
		return gen.CloneValue(fw.Pick(r, gen.IDPool))
	}
	g.nextID++
	return int32(100 + g.nextID)
}

// Doc draws a document for insertion.
func (g *HistGen) Doc() bson.D {
	r := g.R
	var d bson.D
	if g.O.ExplicitIDs || r.Chance(4, 5) {
		d = append(d, bson.E{Key: "_id", Value: g.id()})
	}
	if g.O.RichDocs && r.Chance(1, 3) {
		return append(d, gen.SubDoc(r, gen.DefaultOpts(g.O.Pool), 0)...)
	}
	for _, k := range []string{"a", "b", "c"} {
		if r.Chance(3, 4) {
			d = append(d, bson.E{Key: k, Value: g.flatVal()})
		}
	}
	if r.Chance(2, 3) {
		d = append(d, bson.E{Key: "p", Value: gen.CloneValue(fw.Pick(r, poisonVals))})
	}
	if r.Chance(1, 4) {
		d = append(d, bson.E{Key: "t", Value: fw.Pick(r, []interface{}{primitive.DateTime(1000), primitive.DateTime(4102444800000), "nodate", bson.A{primitive.DateTime(1000)}})})
	}
	return d
}

func (g *HistGen) where() (string, string) {
	return fw.Pick(g.R, g.O.DBs), fw.Pick(g.R, g.O.Colls)
}

func (g *HistGen) peek(db, coll string) []bson.D {
	if g.Peek == nil {
		return nil
	}
	return g.Peek(db, coll)
}

// Filter draws a filter aimed at the current documents.
func (g *HistGen) Filter(docs []bson.D) bson.D {
	r := g.R
	switch r.Intn(10) {
	case 0:
		return bson.D{}
	case 1, 2, 3:
		if len(docs) > 0 && r.Chance(3, 4) {
			d := fw.Pick(r, docs)
			if len(d) > 0 && d[0].Key == "_id" {
				return bson.D{{Key: "_id", Value: gen.CloneValue(d[0].Value)}}
			}
		}
		return bson.D{{Key: "_id", Value: g.id()}}
	case 4, 5:
		k := fw.Pick(r, []string{"a", "b", "c", "p", "c.x"})
		return bson.D{{Key: k, Value: g.flatVal()}}
	case 6:
		k := fw.Pick(r, []string{"a", "b", "p"})
		op := fw.Pick(r, []string{"$gt", "$gte", "$lt", "$lte", "$ne"})
		return bson.D{{Key: k, Value: bson.D{{Key: op, Value: fw.Pick(r, []interface{}{int32(1), int32(2), float64(1.5), "a"})}}}}
	case 7:
		k := fw.Pick(r, []string{"a", "b", "p", "zz"})
		return bson.D{{Key: k, Value: bson.D{{Key: "$exists", Value: r.Bool()}}}}
	default:
		if len(docs) == 0 {
			return bson.D{}
		}
		fg := gen.NewFilterGen(r, gen.FilterOpts{Pool: gen.Core, MaxDepth: 2, NoSchema: true}, docs...)
		return fg.Filter(1)
	}
}

func hasOp(u bson.D, name string) bool {
	for _, e := range u {
		if e.Key == name {
			return true
		}
	}
	return false
}

// Update draws an update document (and array filters) aimed at a document.
func (g *HistGen) Update(docs []bson.D) (bson.D, []bson.D) {
	r := g.R
	failure := g.O.Profile == "failure"
	if len(docs) > 0 && r.Chance(1, 3) {
		ug := &gen.UpdateGen{R: r, Pool: g.O.Pool, Mismatch: 2}
		for try := 0; try < 4; try++ {
			u := ug.Gen(fw.Pick(r, docs))
			if g.O.Deterministic && hasOp(u.Doc, "$currentDate") {
				continue
			}
			return u.Doc, u.ArrayFilters
		}
	}
	k := fw.Pick(r, []string{"a", "b", "c", "p", "c.x", "n"})
	if r.Chance(1, 16) {
		// the trim / re-sort idiom: nothing is pushed but the array changes
		mod := bson.D{{Key: "$each", Value: bson.A{}}}
		if r.Bool() {
			mod = append(mod, bson.E{Key: "$slice", Value: fw.Pick(r, []interface{}{int32(-1), int32(1), int32(0)})})
		} else {
			mod = append(mod, bson.E{Key: "$sort", Value: fw.Pick(r, []interface{}{int32(-1), int32(1)})})
		}
		return bson.D{{Key: "$push", Value: bson.D{{Key: fw.Pick(r, []string{"a", "b", "c"}), Value: mod}}}}, nil
	}
	if r.Chance(1, 10) {
		// write into an element of an array of sub-documents through a dotted path
		p := fw.Pick(r, []string{"a", "b", "c"}) + "." + fw.Pick(r, []string{"0", "1"}) + "." + fw.Pick(r, []string{"q", "x"})
		if r.Bool() {
			return bson.D{{Key: "$inc", Value: bson.D{{Key: p, Value: int32(1)}}}}, nil
		}
		return bson.D{{Key: "$set", Value: bson.D{{Key: p, Value: g.flatVal()}}}}, nil
	}
	switch r.Intn(12) {
	case 0, 1, 2:
		return bson.D{{Key: "$set", Value: bson.D{{Key: k, Value: g.flatVal()}}}}, nil
	case 3:
		return bson.D{{Key: "$inc", Value: bson.D{{Key: fw.Pick(r, []string{"p", "n", "a"}), Value: fw.Pick(r, []interface{}{int32(1), int64(2), float64(0.5), int32(0)})}}}}, nil
	case 4:
		return bson.D{{Key: "$unset", Value: bson.D{{Key: k, Value: ""}}}}, nil
	case 5:
		return bson.D{{Key: "$push", Value: bson.D{{Key: fw.Pick(r, []string{"p", "a", "b"}), Value: g.flatVal()}}}}, nil
	case 6:
		return bson.D{{Key: "$addToSet", Value: bson.D{{Key: fw.Pick(r, []string{"a", "b"}), Value: fw.Pick(r, []interface{}{int32(1), int32(2), int32(3), "a"})}}}}, nil
	case 7:
		return bson.D{{Key: "$rename", Value: bson.D{{Key: fw.Pick(r, []string{"a", "b", "p"}), Value: fw.Pick(r, []string{"a", "b", "c", "n"})}}}}, nil
	case 8:
		if failure || r.Chance(1, 3) {
			// poison: changing _id, unknown operator, conflicting paths
			switch r.Intn(4) {
			case 0:
				return bson.D{{Key: "$set", Value: bson.D{{Key: "_id", Value: g.id()}}}}, nil
			case 1:
				return bson.D{{Key: "$set", Value: bson.D{{Key: "a", Value: int32(1)}}}, {Key: "$frob", Value: bson.D{{Key: "a", Value: int32(1)}}}}, nil
			case 2:
				return bson.D{{Key: "$set", Value: bson.D{{Key: "a", Value: int32(1)}}}, {Key: "$inc", Value: bson.D{{Key: "a.b", Value: int32(1)}}}}, nil
			default:
				return bson.D{{Key: "$set", Value: bson.D{{Key: "a.$[q]", Value: int32(1)}}}}, nil
			}
		}
		return bson.D{{Key: "$mul", Value: bson.D{{Key: "n", Value: int32(2)}}}}, nil
	case 9:
		return bson.D{{Key: "$set", Value: bson.D{{Key: "a.$[e]", Value: g.flatVal()}}}}, []bson.D{{{Key: "e", Value: bson.D{{Key: "$gte", Value: int32(2)}}}}}
	case 10:
		return bson.D{{Key: "$pull", Value: bson.D{{Key: fw.Pick(r, []string{"a", "b"}), Value: fw.Pick(r, []interface{}{int32(1), int32(2), "a"})}}}}, nil
	default:
		return bson.D{{Key: "$set", Value: bson.D{{Key: "a", Value: g.flatVal()}, {Key: "b", Value: g.flatVal()}}}, {Key: "$inc", Value: bson.D{{Key: "n", Value: int32(1)}}}}, nil
	}
}

// Replacement draws a replacement document; sometimes with a (possibly
// different) _id.
func (g *HistGen) Replacement(target bson.D) bson.D {
	d := g.Doc()
	if len(d) > 0 && d[0].Key == "_id" {
		switch g.R.Intn(4) {
		case 0: // keep generated id (likely mismatch -> immutable error)
		case 1:
			if len(target) > 0 && target[0].Key == "_id" {
				d[0].Value = gen.CloneValue(target[0].Value)
			}
		default:
			d = d[1:]
		}
	}
	return d
}

var idxKeys = []bson.D{
	{{Key: "a", Value: int32(1)}}, {{Key: "a", Value: int32(-1)}}, {{Key: "b", Value: int32(1)}}, {{Key: "p", Value: int32(1)}},
	{{Key: "a", Value: int32(1)}, {Key: "b", Value: int32(1)}}, {{Key: "a", Value: int32(1)}, {Key: "b", Value: int32(-1)}}, {{Key: "b", Value: int32(1)}, {Key: "a", Value: int32(1)}},
	{{Key: "c.x", Value: int32(1)}}, {{Key: "t", Value: int32(1)}}, {{Key: "n", Value: int64(1)}},
}

var idxPartials = []bson.D{
	{{Key: "a", Value: bson.D{{Key: "$gt", Value: int32(1)}}}},
	{{Key: "b", Value: bson.D{{Key: "$exists", Value: true}}}},
	{{Key: "$and", Value: bson.A{bson.D{{Key: "a", Value: bson.D{{Key: "$gte", Value: int32(1)}}}}, bson.D{{Key: "b", Value: bson.D{{Key: "$lt", Value: int32(3)}}}}}}},
	{{Key: "p", Value: bson.D{{Key: "$type", Value: "string"}}}},
}

// IndexSpec draws an index definition.
func (g *HistGen) IndexSpec() IndexSpec {
	r := g.R
	s := IndexSpec{Keys: gen.CloneDoc(fw.Pick(r, idxKeys))}
	s.Unique = r.Chance(1, 2)
	if r.Chance(1, 3) {
		s.Partial = gen.CloneDoc(fw.Pick(r, idxPartials))
	}
	if g.O.TTL && len(s.Keys) == 1 && r.Chance(1, 5) {
		v := fw.Pick(r, []int32{0, 3600})
		s.Expire = &v
	}
	if r.Chance(1, 4) {
		s.Name = fw.Pick(r, []string{"ix1", "ix2"})
	}
	return s
}

func (g *HistGen) sortDoc() bson.D {
	r := g.R
	if r.Chance(1, 2) {
		return nil
	}
	k := fw.Pick(r, []string{"a", "b", "_id", "p"})
	dir := int32(1)
	if r.Bool() {
		dir = -1
	}
	return bson.D{{Key: k, Value: dir}}
}

func (g *HistGen) upsertFilter(docs []bson.D) bson.D {
	f := g.Filter(docs)
	if !g.O.ExplicitIDs {
		return f
	}
	for _, e := range f {
		if e.Key == "_id" {
			if _, isDoc := e.Value.(bson.D); !isDoc {
				return f
			}
		}
	}
	// make sure an upsert carries an explicit id
	if len(f) > 0 && strings.HasPrefix(f[0].Key, "$") {
		return bson.D{{Key: "_id", Value: g.id()}}
	}
	// the id equality is given in one of the forms MongoDB takes the upsert's
	// _id from: a literal, an explicit $eq, or inside $and
	switch g.R.Intn(8) {
	case 0, 1:
		return append(bson.D{{Key: "_id", Value: bson.D{{Key: "$eq", Value: g.id()}}}}, f...)
	case 2:
		if len(f) > 0 {
			return bson.D{{Key: "$and", Value: bson.A{bson.D{{Key: "_id", Value: g.id()}}, f}}}
		}
	}
	return append(bson.D{{Key: "_id", Value: g.id()}}, f...)
}

func (g *HistGen) writeModel(db, coll string, docs []bson.D) Op {
	r := g.R
	switch r.Intn(8) {
	case 0, 1, 2:
		return Op{Kind: InsertOne, DB: db, Coll: coll, Docs: []bson.D{g.Doc()}}
	case 3:
		up := r.Chance(1, 3)
		f := g.Filter(docs)
		if up {
			f = g.upsertFilter(docs)
		}
		var tgt bson.D
		if len(docs) > 0 {
			tgt = fw.Pick(r, docs)
		}
		return Op{Kind: ReplaceOne, DB: db, Coll: coll, Filter: f, Update: g.Replacement(tgt), Upsert: up}
	case 4, 5:
		up := r.Chance(1, 4)
		f := g.Filter(docs)
		if up {
			f = g.upsertFilter(docs)
		}
		u, af := g.Update(docs)
		k := UpdateOne
		if r.Bool() {
			k = UpdateMany
		}
		return Op{Kind: k, DB: db, Coll: coll, Filter: f, Update: u, ArrayFilters: af, Upsert: up}
	case 6:
		return Op{Kind: DeleteOne, DB: db, Coll: coll, Filter: g.Filter(docs)}
	default:
		return Op{Kind: DeleteMany, DB: db, Coll: coll, Filter: g.Filter(docs)}
	}
}

// Next draws the next call.
// projection: reads and find-one-and-modify calls carry a projection in one
// of three calls: mostly valid ones aimed at an existing document, parent
// paths overlapping nested ones (inclusion plus operator overlay), and
// projections that must be rejected before anything happens.
func (g *HistGen) projection(tgt bson.D) bson.D {
	r := g.R
	if !r.Chance(1, 3) {
		return nil
	}
	if len(tgt) == 0 {
		tgt = g.Doc()
	}
	switch {
	case g.O.Profile == "failure" && r.Chance(1, 2), r.Chance(1, 12):
		return gen.Projection(r, tgt, gen.ProjOpts{Invalid: true})
	case r.Chance(1, 3):
		return gen.Projection(r, tgt, gen.ProjOpts{NoInvalid: true, Overlap: true})
	}
	return gen.Projection(r, tgt, gen.ProjOpts{NoInvalid: true})
}

func (g *HistGen) Next() Op {
	r := g.R
	db, coll := g.where()
	docs := g.peek(db, coll)
	type w struct {
		kind string
		n    int
	}
	var mix []w
	switch g.O.Profile {
	case "index":
		mix = []w{{InsertOne, 8}, {InsertMany, 4}, {UpdateOne, 6}, {UpdateMany, 6}, {ReplaceOne, 4}, {DeleteOne, 2}, {DeleteMany, 1}, {BulkWrite, 3},
			{FindOneAndUpdate, 2}, {FindOneAndReplace, 1}, {FindOneAndDelete, 1}, {CreateIndex, 8}, {CreateIndexes, 2}, {DropIndex, 3}, {DropIndexKey, 2}, {DropAllIndexes, 1},
			{ListIndexes, 1}, {DropCollection, 1}, {Find, 3}, {FindOne, 2}, {UpdateByID, 1}}
	case "failure":
		mix = []w{{InsertOne, 5}, {InsertMany, 6}, {UpdateOne, 6}, {UpdateMany, 10}, {ReplaceOne, 5}, {DeleteOne, 1}, {DeleteMany, 1}, {BulkWrite, 8},
			{FindOneAndUpdate, 3}, {FindOneAndReplace, 2}, {FindOneAndDelete, 1}, {CreateIndex, 5}, {CreateIndexes, 1}, {DropIndex, 2}, {DropIndexKey, 1}, {DropAllIndexes, 1}, {UpdateByID, 2},
			{CreateCollection, 1}}
	case "crud":
		mix = []w{{InsertOne, 8}, {InsertMany, 4}, {UpdateOne, 6}, {UpdateMany, 5}, {ReplaceOne, 4}, {DeleteOne, 3}, {DeleteMany, 2}, {BulkWrite, 3},
			{FindOneAndUpdate, 2}, {FindOneAndReplace, 1}, {FindOneAndDelete, 1}, {Find, 3}, {FindOne, 1}, {Count, 1}, {UpdateByID, 1}}
	default:
		mix = []w{{InsertOne, 8}, {InsertMany, 4}, {UpdateOne, 6}, {UpdateMany, 5}, {ReplaceOne, 4}, {DeleteOne, 3}, {DeleteMany, 2}, {BulkWrite, 3},
			{FindOneAndUpdate, 2}, {FindOneAndReplace, 2}, {FindOneAndDelete, 2}, {Find, 3}, {FindOne, 2}, {Count, 1}, {Estimated, 1}, {Distinct, 1}, {UpdateByID, 1},
			{CreateIndex, 3}, {CreateIndexes, 1}, {DropIndex, 1}, {DropIndexKey, 1}, {DropAllIndexes, 1}, {ListIndexes, 1},
			{CreateCollection, 1}, {DropCollection, 1}, {DropDatabase, 1}, {ListCollections, 1}, {ListDatabases, 1}}
	}
	total := 0
	var usable []w
	for _, m := range mix {
		if g.O.NoDrops && (m.kind == DropCollection || m.kind == DropDatabase) {
			continue
		}
		if g.O.NoIndexOps && IsIndexOp(m.kind) {
			continue
		}
		if g.O.NoReads && !IsWrite(m.kind) {
			continue
		}
		usable = append(usable, m)
		total += m.n
	}
	x := r.Intn(total)
	kind := usable[0].kind
	for _, m := range usable {
		if x < m.n {
			kind = m.kind
			break
		}
		x -= m.n
	}
	op := Op{Kind: kind, DB: db, Coll: coll}
	var tgt bson.D
	if len(docs) > 0 {
		tgt = fw.Pick(r, docs)
	}
	switch kind {
	case InsertOne:
		op.Docs = []bson.D{g.Doc()}
	case InsertMany:
		n := r.Range(1, 6)
		for i := 0; i < n; i++ {
			op.Docs = append(op.Docs, g.Doc())
		}
		op.Ordered = r.Bool()
	case Find:
		op.Filter = g.Filter(docs)
		op.Sort = g.sortDoc()
		op.Skip, op.Limit = int64(r.Intn(3)), int64(r.Intn(4))
		op.Projection = g.projection(tgt)
	case FindOne:
		op.Filter = g.Filter(docs)
		op.Sort = g.sortDoc()
		op.Projection = g.projection(tgt)
	case Count:
		op.Filter = g.Filter(docs)
	case Distinct:
		op.Filter = g.Filter(docs)
		op.Field = fw.Pick(r, []string{"a", "b", "p", "c.x"})
	case UpdateOne, UpdateMany:
		op.Upsert = r.Chance(1, 4)
		if op.Upsert {
			op.Filter = g.upsertFilter(docs)
		} else {
			op.Filter = g.Filter(docs)
		}
		op.Update, op.ArrayFilters = g.Update(docs)
	case UpdateByID:
		if tgt != nil && len(tgt) > 0 && tgt[0].Key == "_id" && tgt[0].Value != nil && r.Chance(3, 4) {
			op.ID = gen.CloneValue(tgt[0].Value)
		} else {
			op.ID = g.id() // (a nil id is rejected by the driver API itself)
		}
		op.Upsert = r.Chance(1, 4)
		op.Update, op.ArrayFilters = g.Update(docs)
	case ReplaceOne:
		op.Upsert = r.Chance(1, 3)
		if op.Upsert {
			op.Filter = g.upsertFilter(docs)
		} else {
			op.Filter = g.Filter(docs)
		}
		op.Update = g.Replacement(tgt)
	case DeleteOne, DeleteMany:
		op.Filter = g.Filter(docs)
	case FindOneAndUpdate:
		op.Upsert = r.Chance(1, 5)
		if op.Upsert {
			op.Filter = g.upsertFilter(docs)
		} else {
			op.Filter = g.Filter(docs)
		}
		op.Update, op.ArrayFilters = g.Update(docs)
		op.Sort = g.sortDoc()
		op.ReturnAfter = r.Bool()
		op.Projection = g.projection(tgt)
	case FindOneAndReplace:
		op.Upsert = r.Chance(1, 5)
		if op.Upsert {
			op.Filter = g.upsertFilter(docs)
		} else {
			op.Filter = g.Filter(docs)
		}
		op.Update = g.Replacement(tgt)
		op.Sort = g.sortDoc()
		op.ReturnAfter = r.Bool()
		op.Projection = g.projection(tgt)
	case FindOneAndDelete:
		op.Filter = g.Filter(docs)
		op.Sort = g.sortDoc()
		op.Projection = g.projection(tgt)
	case BulkWrite:
		n := r.Range(1, 6)
		for i := 0; i < n; i++ {
			op.Models = append(op.Models, g.writeModel(db, coll, docs))
		}
		op.Ordered = r.Bool()
		if r.Chance(1, 6) {
			// neighbouring update models: the first brings array filters, the
			// second uses the same identifier without any (it must be rejected
			// on its own, whatever its neighbour brought)
			id := fw.Pick(r, []string{"e", "g"})
			upd := bson.D{{Key: "$set", Value: bson.D{{Key: "a.$[" + id + "]", Value: int32(9)}}}}
			with := Op{Kind: UpdateMany, DB: db, Coll: coll, Filter: bson.D{}, Update: upd, ArrayFilters: []bson.D{{{Key: id, Value: bson.D{{Key: "$gte", Value: int32(2)}}}}}}
			without := Op{Kind: UpdateMany, DB: db, Coll: coll, Filter: bson.D{}, Update: gen.CloneDoc(upd)}
			op.Models = append(op.Models, with, without) // (at the end: an ordered bulk stops at the rejected model)
		}
	case CreateIndex:
		op.Index = g.IndexSpec()
	case CreateIndexes:
		n := r.Range(1, 3)
		for i := 0; i < n; i++ {
			op.Indexes = append(op.Indexes, g.IndexSpec())
		}
	case DropIndex:
		var names []string
		if g.IndexNames != nil {
			names = g.IndexNames(db, coll)
		}
		if len(names) > 0 && r.Chance(4, 5) {
			op.Name = fw.Pick(r, names)
		} else {
			op.Name = fw.Pick(r, []string{"a_1", "ix1", "nope", "_id_"})
		}
	case DropIndexKey:
		if r.Chance(1, 8) {
			op.Index.Keys = bson.D{{Key: "_id", Value: int32(1)}}
		} else {
			op.Index.Keys = gen.CloneDoc(fw.Pick(r, idxKeys))
		}
	}
	return op
}
