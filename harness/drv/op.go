// Package drv describes driver-level calls as data (Op), executes them against
// a lungo client (Exec) and normalises what they return (Res), so that
// histories can be generated, recorded, replayed on a twin engine and compared
// with a model.
package drv

import (
	"context"
	"errors"
	"fmt"
	"sort"
	"strings"

	"github.com/256dpi/lungo"
	"go.mongodb.org/mongo-driver/bson"
	"go.mongodb.org/mongo-driver/mongo"
	"go.mongodb.org/mongo-driver/mongo/options"

	"verifharness/gen"
)

// IndexSpec is an index definition.
type IndexSpec struct {
	Keys    bson.D
	Unique  bool
	Partial bson.D // nil = none
	Expire  *int32 // nil = none
	Name    string // "" = generated
}

// Op is one driver call.
type Op struct {
	Kind string
	DB   string
	Coll string

	Docs         []bson.D // insert documents
	Filter       bson.D
	Update       bson.D // update document or replacement
	Sort         bson.D
	Projection   bson.D
	Skip, Limit  int64
	Upsert       bool
	Ordered      bool
	ReturnAfter  bool
	ArrayFilters []bson.D
	Field        string      // distinct
	ID           interface{} // updateByID
	Index        IndexSpec
	Indexes      []IndexSpec
	Name         string // index name to drop
	Models       []Op   // bulk write items (Kind: insertOne, replaceOne, updateOne, updateMany, deleteOne, deleteMany)
}

// Kinds.
const (
	InsertOne         = "insertOne"
	InsertMany        = "insertMany"
	Find              = "find"
	FindOne           = "findOne"
	Count             = "count"
	Estimated         = "estimatedCount"
	Distinct          = "distinct"
	UpdateOne         = "updateOne"
	UpdateMany        = "updateMany"
	UpdateByID        = "updateByID"
	ReplaceOne        = "replaceOne"
	DeleteOne         = "deleteOne"
	DeleteMany        = "deleteMany"
	FindOneAndUpdate  = "findOneAndUpdate"
	FindOneAndReplace = "findOneAndReplace"
	FindOneAndDelete  = "findOneAndDelete"
	BulkWrite         = "bulkWrite"
	CreateIndex       = "createIndex"
	CreateIndexes     = "createIndexes"
	DropIndex         = "dropIndex"
	DropIndexKey      = "dropIndexWithKey"
	DropAllIndexes    = "dropAllIndexes"
	ListIndexes       = "listIndexes"
	CreateCollection  = "createCollection"
	DropCollection    = "dropCollection"
	DropDatabase      = "dropDatabase"
	ListCollections   = "listCollectionNames"
	ListDatabases     = "listDatabaseNames"
)

// IsWrite tells whether the kind can change the database.
func IsWrite(kind string) bool {
	switch kind {
	case Find, FindOne, Count, Estimated, Distinct, ListIndexes, ListCollections, ListDatabases:
		return false
	}
	return true
}

// IsIndexOp tells whether the call goes through the index view (these calls
// open their own engine transaction and cannot run inside a session
// transaction).
func IsIndexOp(kind string) bool {
	switch kind {
	case CreateIndex, CreateIndexes, DropIndex, DropIndexKey, DropAllIndexes:
		return true
	}
	return false
}

// Res is the normalised outcome of a call.
type Res struct {
	Err       string        // "" on success
	Unique    bool          // lungo.IsUniquenessError(err) (bulk: of any item's write error)
	UniqueAll bool          // bulk: lungo.IsUniquenessError of the error the call returned as a whole
	NoDocs    bool          // ErrNoDocuments
	Matched   int64         // matched / deleted / count
	Modified  int64         // modified
	Upserted  int64         // upserted count
	Inserted  int64         // inserted count
	Deleted   int64         // bulk: deleted count
	IDs       []interface{} // inserted ids / upserted ids (bulk: by model index order)
	UpsertIdx []int64       // bulk: model indexes of the upserted ids
	Docs      []bson.D      // returned documents
	Values    []interface{} // distinct values
	Names     []string      // names (indexes created, collections, databases)
	WriteErrs []int         // bulk: failing model indexes
	Panic     string        // recovered panic (never expected)
}

func (s IndexSpec) model() mongo.IndexModel {
	o := options.Index()
	if s.Unique {
		o.SetUnique(true)
	}
	if s.Partial != nil {
		o.SetPartialFilterExpression(s.Partial)
	}
	if s.Expire != nil {
		o.SetExpireAfterSeconds(*s.Expire)
	}
	if s.Name != "" {
		o.SetName(s.Name)
	}
	return mongo.IndexModel{Keys: s.Keys, Options: o}
}

func filters(a []bson.D) options.ArrayFilters {
	fs := make([]interface{}, len(a))
	for i, f := range a {
		fs[i] = f
	}
	return options.ArrayFilters{Filters: fs}
}

func setErr(r *Res, err error) {
	if err == nil {
		return
	}
	r.Err = err.Error()
	if r.Err == "" {
		r.Err = "error"
	}
	r.Unique = lungo.IsUniquenessError(err)
	r.NoDocs = errors.Is(err, lungo.ErrNoDocuments)
}

// CatchPanics makes Exec convert a panic of the call into Res.Panic (default).
// The panic check switches it off so that the stack reaches its own recover.
var CatchPanics = true

// Exec runs one call. ctx may be a session context.
func Exec(ctx context.Context, client lungo.IClient, op *Op) (res Res) {
	defer func() {
		if !CatchPanics {
			return
		}
		if p := recover(); p != nil {
			res.Panic = fmt.Sprint(p)
			res.Err = "panic: " + res.Panic
		}
	}()
	db := client.Database(op.DB)
	coll := db.Collection(op.Coll)
	filter := op.Filter
	if filter == nil {
		filter = bson.D{}
	}
	switch op.Kind {
	case InsertOne:
		r, err := coll.InsertOne(ctx, op.Docs[0])
		setErr(&res, err)
		if r != nil {
			res.IDs = []interface{}{r.InsertedID}
			res.Inserted = 1
		}
	case InsertMany:
		docs := make([]interface{}, len(op.Docs))
		for i, d := range op.Docs {
			docs[i] = d
		}
		r, err := coll.InsertMany(ctx, docs, options.InsertMany().SetOrdered(op.Ordered))
		setErr(&res, err)
		if r != nil {
			res.IDs = r.InsertedIDs
			res.Inserted = int64(len(r.InsertedIDs))
		}
	case Find:
		o := options.Find()
		if op.Sort != nil {
			o.SetSort(op.Sort)
		}
		if op.Projection != nil {
			o.SetProjection(op.Projection)
		}
		if op.Skip > 0 {
			o.SetSkip(op.Skip)
		}
		if op.Limit > 0 {
			o.SetLimit(op.Limit)
		}
		cur, err := coll.Find(ctx, filter, o)
		setErr(&res, err)
		if err == nil {
			res.Docs = []bson.D{}
			setErr(&res, cur.All(ctx, &res.Docs))
		}
	case FindOne:
		o := options.FindOne()
		if op.Sort != nil {
			o.SetSort(op.Sort)
		}
		if op.Projection != nil {
			o.SetProjection(op.Projection)
		}
		if op.Skip > 0 {
			o.SetSkip(op.Skip)
		}
		var d bson.D
		err := coll.FindOne(ctx, filter, o).Decode(&d)
		setErr(&res, err)
		if err == nil {
			res.Docs = []bson.D{d}
		}
	case Count:
		o := options.Count()
		if op.Skip > 0 {
			o.SetSkip(op.Skip)
		}
		if op.Limit > 0 {
			o.SetLimit(op.Limit)
		}
		n, err := coll.CountDocuments(ctx, filter, o)
		setErr(&res, err)
		res.Matched = n
	case Estimated:
		n, err := coll.EstimatedDocumentCount(ctx)
		setErr(&res, err)
		res.Matched = n
	case Distinct:
		v, err := coll.Distinct(ctx, op.Field, filter)
		setErr(&res, err)
		res.Values = v
	case UpdateOne, UpdateMany, UpdateByID:
		o := options.Update().SetUpsert(op.Upsert)
		if op.ArrayFilters != nil {
			o.SetArrayFilters(filters(op.ArrayFilters))
		}
		var r *mongo.UpdateResult
		var err error
		switch op.Kind {
		case UpdateOne:
			r, err = coll.UpdateOne(ctx, filter, op.Update, o)
		case UpdateMany:
			r, err = coll.UpdateMany(ctx, filter, op.Update, o)
		default:
			r, err = coll.UpdateByID(ctx, op.ID, op.Update, o)
		}
		setErr(&res, err)
		updRes(&res, r)
	case ReplaceOne:
		r, err := coll.ReplaceOne(ctx, filter, op.Update, options.Replace().SetUpsert(op.Upsert))
		setErr(&res, err)
		updRes(&res, r)
	case DeleteOne:
		r, err := coll.DeleteOne(ctx, filter)
		setErr(&res, err)
		if r != nil {
			res.Matched = r.DeletedCount
		}
	case DeleteMany:
		r, err := coll.DeleteMany(ctx, filter)
		setErr(&res, err)
		if r != nil {
			res.Matched = r.DeletedCount
		}
	case FindOneAndUpdate:
		o := options.FindOneAndUpdate().SetUpsert(op.Upsert)
		if op.Sort != nil {
			o.SetSort(op.Sort)
		}
		if op.Projection != nil {
			o.SetProjection(op.Projection)
		}
		if op.ReturnAfter {
			o.SetReturnDocument(options.After)
		}
		if op.ArrayFilters != nil {
			o.SetArrayFilters(filters(op.ArrayFilters))
		}
		var d bson.D
		err := coll.FindOneAndUpdate(ctx, filter, op.Update, o).Decode(&d)
		setErr(&res, err)
		if err == nil {
			res.Docs = []bson.D{d}
		}
	case FindOneAndReplace:
		o := options.FindOneAndReplace().SetUpsert(op.Upsert)
		if op.Sort != nil {
			o.SetSort(op.Sort)
		}
		if op.Projection != nil {
			o.SetProjection(op.Projection)
		}
		if op.ReturnAfter {
			o.SetReturnDocument(options.After)
		}
		var d bson.D
		err := coll.FindOneAndReplace(ctx, filter, op.Update, o).Decode(&d)
		setErr(&res, err)
		if err == nil {
			res.Docs = []bson.D{d}
		}
	case FindOneAndDelete:
		o := options.FindOneAndDelete()
		if op.Sort != nil {
			o.SetSort(op.Sort)
		}
		if op.Projection != nil {
			o.SetProjection(op.Projection)
		}
		var d bson.D
		err := coll.FindOneAndDelete(ctx, filter, o).Decode(&d)
		setErr(&res, err)
		if err == nil {
			res.Docs = []bson.D{d}
		}
	case BulkWrite:
		models := make([]mongo.WriteModel, 0, len(op.Models))
		for i := range op.Models {
			models = append(models, op.Models[i].writeModel())
		}
		r, err := coll.BulkWrite(ctx, models, options.BulkWrite().SetOrdered(op.Ordered))
		if err != nil {
			var we mongo.WriteErrors
			res.UniqueAll = lungo.IsUniquenessError(err)
			if errors.As(err, &we) {
				for _, e := range we {
					res.WriteErrs = append(res.WriteErrs, e.Index)
					if lungo.IsUniquenessError(e) {
						res.Unique = true
					}
				}
				res.Err = "write errors"
			} else {
				setErr(&res, err)
			}
		}
		if r != nil {
			res.Inserted = r.InsertedCount
			res.Matched = r.MatchedCount
			res.Modified = r.ModifiedCount
			res.Upserted = r.UpsertedCount
			res.Deleted = r.DeletedCount
			idx := make([]int64, 0, len(r.UpsertedIDs))
			for k := range r.UpsertedIDs {
				idx = append(idx, k)
			}
			sort.Slice(idx, func(i, j int) bool { return idx[i] < idx[j] })
			for _, k := range idx {
				res.UpsertIdx = append(res.UpsertIdx, k)
				res.IDs = append(res.IDs, r.UpsertedIDs[k])
			}
		}
	case CreateIndex:
		n, err := coll.Indexes().CreateOne(ctx, op.Index.model())
		setErr(&res, err)
		if err == nil {
			res.Names = []string{n}
		}
	case CreateIndexes:
		ms := make([]mongo.IndexModel, len(op.Indexes))
		for i, s := range op.Indexes {
			ms[i] = s.model()
		}
		n, err := coll.Indexes().CreateMany(ctx, ms)
		setErr(&res, err)
		res.Names = n
	case DropIndex:
		_, err := coll.Indexes().DropOne(ctx, op.Name)
		setErr(&res, err)
	case DropIndexKey:
		_, err := coll.Indexes().DropOneWithKey(ctx, op.Index.Keys)
		setErr(&res, err)
	case DropAllIndexes:
		_, err := coll.Indexes().DropAll(ctx)
		setErr(&res, err)
	case ListIndexes:
		cur, err := coll.Indexes().List(ctx)
		setErr(&res, err)
		if err == nil {
			res.Docs = []bson.D{}
			setErr(&res, cur.All(ctx, &res.Docs))
		}
	case CreateCollection:
		setErr(&res, db.CreateCollection(ctx, op.Coll))
	case DropCollection:
		setErr(&res, coll.Drop(ctx))
	case DropDatabase:
		setErr(&res, db.Drop(ctx))
	case ListCollections:
		n, err := db.ListCollectionNames(ctx, bson.D{})
		setErr(&res, err)
		sort.Strings(n)
		res.Names = n
	case ListDatabases:
		n, err := client.ListDatabaseNames(ctx, bson.D{})
		setErr(&res, err)
		sort.Strings(n)
		res.Names = n
	default:
		res.Err = "harness: unknown op kind " + op.Kind
	}
	return res
}

func updRes(res *Res, r *mongo.UpdateResult) {
	if r == nil {
		return
	}
	res.Matched = r.MatchedCount
	res.Modified = r.ModifiedCount
	res.Upserted = r.UpsertedCount
	if r.UpsertedCount > 0 {
		res.IDs = []interface{}{r.UpsertedID}
	}
}

func (op *Op) writeModel() mongo.WriteModel {
	filter := op.Filter
	if filter == nil {
		filter = bson.D{}
	}
	switch op.Kind {
	case InsertOne:
		return mongo.NewInsertOneModel().SetDocument(op.Docs[0])
	case ReplaceOne:
		return mongo.NewReplaceOneModel().SetFilter(filter).SetReplacement(op.Update).SetUpsert(op.Upsert)
	case UpdateOne:
		m := mongo.NewUpdateOneModel().SetFilter(filter).SetUpdate(op.Update).SetUpsert(op.Upsert)
		if op.ArrayFilters != nil {
			m.SetArrayFilters(filters(op.ArrayFilters))
		}
		return m
	case UpdateMany:
		m := mongo.NewUpdateManyModel().SetFilter(filter).SetUpdate(op.Update).SetUpsert(op.Upsert)
		if op.ArrayFilters != nil {
			m.SetArrayFilters(filters(op.ArrayFilters))
		}
		return m
	case DeleteOne:
		return mongo.NewDeleteOneModel().SetFilter(filter)
	default:
		return mongo.NewDeleteManyModel().SetFilter(filter)
	}
}

// Clone deep-copies an op (so that a twin execution cannot share memory).
func (op Op) Clone() Op {
	c := op
	c.Docs = nil
	for _, d := range op.Docs {
		c.Docs = append(c.Docs, gen.CloneDoc(d))
	}
	cd := func(d bson.D) bson.D {
		if d == nil {
			return nil
		}
		return gen.CloneDoc(d)
	}
	c.Filter, c.Update, c.Sort, c.Projection = cd(op.Filter), cd(op.Update), cd(op.Sort), cd(op.Projection)
	c.ArrayFilters = nil
	for _, d := range op.ArrayFilters {
		c.ArrayFilters = append(c.ArrayFilters, gen.CloneDoc(d))
	}
	if op.ArrayFilters != nil && c.ArrayFilters == nil {
		c.ArrayFilters = []bson.D{}
	}
	c.ID = gen.CloneValue(op.ID)
	c.Index = op.Index.clone()
	c.Indexes = nil
	for _, s := range op.Indexes {
		c.Indexes = append(c.Indexes, s.clone())
	}
	c.Models = nil
	for _, m := range op.Models {
		c.Models = append(c.Models, m.Clone())
	}
	return c
}

func (s IndexSpec) clone() IndexSpec {
	c := s
	if s.Keys != nil {
		c.Keys = gen.CloneDoc(s.Keys)
	}
	if s.Partial != nil {
		c.Partial = gen.CloneDoc(s.Partial)
	}
	if s.Expire != nil {
		v := *s.Expire
		c.Expire = &v
	}
	return c
}

// String renders an op compactly for witnesses.
func (op Op) String() string {
	var sb strings.Builder
	fmt.Fprintf(&sb, "%s %s.%s", op.Kind, op.DB, op.Coll)
	j := func(name string, d bson.D) {
		if d != nil {
			fmt.Fprintf(&sb, " %s=%s", name, gen.JSON(d))
		}
	}
	if len(op.Docs) > 0 {
		sb.WriteString(" docs=[")
		for i, d := range op.Docs {
			if i > 0 {
				sb.WriteString(", ")
			}
			sb.WriteString(gen.JSON(d))
		}
		sb.WriteString("]")
	}
	j("filter", op.Filter)
	j("update", op.Update)
	j("sort", op.Sort)
	j("projection", op.Projection)
	if op.Skip > 0 {
		fmt.Fprintf(&sb, " skip=%d", op.Skip)
	}
	if op.Limit > 0 {
		fmt.Fprintf(&sb, " limit=%d", op.Limit)
	}
	if op.Upsert {
		sb.WriteString(" upsert")
	}
	if op.Kind == InsertMany || op.Kind == BulkWrite {
		fmt.Fprintf(&sb, " ordered=%v", op.Ordered)
	}
	if op.ReturnAfter {
		sb.WriteString(" returnAfter")
	}
	for _, f := range op.ArrayFilters {
		fmt.Fprintf(&sb, " arrayFilter=%s", gen.JSON(f))
	}
	if op.Field != "" {
		fmt.Fprintf(&sb, " field=%s", op.Field)
	}
	if op.ID != nil {
		fmt.Fprintf(&sb, " id=%s", gen.JSON(op.ID))
	}
	is := func(s IndexSpec) string {
		t := "{keys=" + gen.JSON(s.Keys)
		if s.Unique {
			t += " unique"
		}
		if s.Partial != nil {
			t += " partial=" + gen.JSON(s.Partial)
		}
		if s.Expire != nil {
			t += fmt.Sprintf(" expire=%d", *s.Expire)
		}
		if s.Name != "" {
			t += " name=" + s.Name
		}
		return t + "}"
	}
	if op.Index.Keys != nil {
		sb.WriteString(" index=" + is(op.Index))
	}
	for _, s := range op.Indexes {
		sb.WriteString(" index=" + is(s))
	}
	if op.Name != "" {
		fmt.Fprintf(&sb, " name=%s", op.Name)
	}
	if len(op.Models) > 0 {
		sb.WriteString(" models=[")
		for i, m := range op.Models {
			if i > 0 {
				sb.WriteString("; ")
			}
			sb.WriteString(m.String())
		}
		sb.WriteString("]")
	}
	return sb.String()
}

// String renders a result compactly.
func (r Res) String() string {
	var sb strings.Builder
	if r.Err != "" {
		fmt.Fprintf(&sb, "err=%q ", r.Err)
	}
	fmt.Fprintf(&sb, "matched=%d modified=%d upserted=%d inserted=%d deleted=%d", r.Matched, r.Modified, r.Upserted, r.Inserted, r.Deleted)
	if len(r.IDs) > 0 {
		fmt.Fprintf(&sb, " ids=%s", gen.JSON(bson.A(r.IDs)))
	}
	if r.Docs != nil {
		sb.WriteString(" docs=[")
		for i, d := range r.Docs {
			if i > 0 {
				sb.WriteString(", ")
			}
			sb.WriteString(gen.JSON(d))
		}
		sb.WriteString("]")
	}
	if r.Values != nil {
		fmt.Fprintf(&sb, " values=%s", gen.JSON(bson.A(r.Values)))
	}
	if r.Names != nil {
		fmt.Fprintf(&sb, " names=%v", r.Names)
	}
	if r.WriteErrs != nil {
		fmt.Fprintf(&sb, " writeErrors=%v", r.WriteErrs)
	}
	s := sb.String()
	if len(s) > 3000 {
		s = s[:3000] + "…"
	}
	return s
}

// Same compares two results for exact equality (error-or-success, counts,
// ids, documents bytewise, values, names, failing indexes). Error texts are
// not compared, only presence and the uniqueness class.
func (r Res) Same(o Res) bool { return r.Diff(o) == "" }

// Diff describes the first difference between two results.
func (r Res) Diff(o Res) string {
	if (r.Err == "") != (o.Err == "") {
		return fmt.Sprintf("error-or-success differs: %q vs %q", r.Err, o.Err)
	}
	if r.Panic != "" || o.Panic != "" {
		if r.Panic != o.Panic {
			return fmt.Sprintf("panic differs: %q vs %q", r.Panic, o.Panic)
		}
	}
	if r.Unique != o.Unique {
		return fmt.Sprintf("uniqueness-error class differs: %v (%q) vs %v (%q)", r.Unique, r.Err, o.Unique, o.Err)
	}
	if r.NoDocs != o.NoDocs {
		return "no-documents outcome differs"
	}
	if r.Matched != o.Matched || r.Modified != o.Modified || r.Upserted != o.Upserted || r.Inserted != o.Inserted || r.Deleted != o.Deleted {
		return fmt.Sprintf("counts differ: matched %d/%d modified %d/%d upserted %d/%d inserted %d/%d", r.Matched, o.Matched, r.Modified, o.Modified, r.Upserted, o.Upserted, r.Inserted, o.Inserted)
	}
	if len(r.IDs)+len(o.IDs) > 0 && string(gen.ValueBytes(bson.A(r.IDs))) != string(gen.ValueBytes(bson.A(o.IDs))) {
		return fmt.Sprintf("ids differ: %s vs %s", gen.JSON(bson.A(r.IDs)), gen.JSON(bson.A(o.IDs)))
	}
	if fmt.Sprint(r.UpsertIdx) != fmt.Sprint(o.UpsertIdx) {
		return fmt.Sprintf("upserted model indexes differ: %v vs %v", r.UpsertIdx, o.UpsertIdx)
	}
	if (r.Docs == nil) != (o.Docs == nil) || len(r.Docs) != len(o.Docs) {
		return fmt.Sprintf("number of returned documents differs: %d vs %d", len(r.Docs), len(o.Docs))
	}
	for i := range r.Docs {
		if string(gen.Bytes(r.Docs[i])) != string(gen.Bytes(o.Docs[i])) {
			return fmt.Sprintf("returned document %d differs: %s vs %s", i, gen.JSON(r.Docs[i]), gen.JSON(o.Docs[i]))
		}
	}
	if len(r.Values)+len(o.Values) > 0 && string(gen.ValueBytes(bson.A(r.Values))) != string(gen.ValueBytes(bson.A(o.Values))) {
		return fmt.Sprintf("values differ: %s vs %s", gen.JSON(bson.A(r.Values)), gen.JSON(bson.A(o.Values)))
	}
	if fmt.Sprint(r.Names) != fmt.Sprint(o.Names) {
		return fmt.Sprintf("names differ: %v vs %v", r.Names, o.Names)
	}
	if fmt.Sprint(r.WriteErrs) != fmt.Sprint(o.WriteErrs) {
		return fmt.Sprintf("failing bulk indexes differ: %v vs %v", r.WriteErrs, o.WriteErrs)
	}
	return ""
}
