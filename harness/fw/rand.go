package fw

import "hash/fnv"

// Rand is a small deterministic PRNG (splitmix64). It is a pure function of
// its seed so that case i of a run can be regenerated in isolation.
type Rand struct{ s uint64 }

func NewRand(seed uint64) *Rand { return &Rand{s: seed} }

// CaseRand derives the PRNG of case i of property id under the run seed.
func CaseRand(seed uint64, id string, i int) *Rand {
	h := fnv.New64a()
	h.Write([]byte(id))
	x := h.Sum64() ^ (seed * 0x9E3779B97F4A7C15) ^ (uint64(i)+1)*0xBF58476D1CE4E5B9
	r := &Rand{s: x}
	r.U64()
	r.U64()
	return r
}

func (r *Rand) U64() uint64 {
	r.s += 0x9E3779B97F4A7C15
	z := r.s
	z = (z ^ (z >> 30)) * 0xBF58476D1CE4E5B9
	z = (z ^ (z >> 27)) * 0x94D049BB133111EB
	return z ^ (z >> 31)
}

// State returns the current PRNG state (recorded in witnesses).
func (r *Rand) State() uint64 { return r.s }

func (r *Rand) Intn(n int) int {
	if n <= 0 {
		return 0
	}
	return int(r.U64() % uint64(n))
}

// Range returns an int in [lo, hi].
func (r *Rand) Range(lo, hi int) int { return lo + r.Intn(hi-lo+1) }

func (r *Rand) Bool() bool { return r.U64()&1 == 1 }

// Chance returns true with probability num/den.
func (r *Rand) Chance(num, den int) bool { return r.Intn(den) < num }

func (r *Rand) Float() float64 { return float64(r.U64()>>11) / (1 << 53) }

// Fork returns an independent generator derived from this one.
func (r *Rand) Fork() *Rand { return &Rand{s: r.U64()} }

func Pick[T any](r *Rand, xs []T) T { return xs[r.Intn(len(xs))] }

// Hash64 hashes a byte string (used for distinctness accounting).
func Hash64(b []byte) uint64 {
	h := fnv.New64a()
	h.Write(b)
	return h.Sum64()
}
