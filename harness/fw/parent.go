package fw

import (
	"bufio"
	"bytes"
	"encoding/json"
	"fmt"
	"os"
	"os/exec"
	"path/filepath"
	"regexp"
	"sort"
	"strconv"
	"strings"
	"sync"
	"syscall"
	"time"
)

// VerifDir is the root of the machinery (evidence, replays, known findings).
func VerifDir() string {
	if d := os.Getenv("VERIF_DIR"); d != "" {
		return d
	}
	return "/verif"
}

// Known is one line of KNOWN_FINDINGS.txt.
type Known struct {
	Kind     string // "known" or "fixed"
	Property string
	Key      string
	Text     string
}

// LoadKnown parses KNOWN_FINDINGS.txt. The file is never written at run time.
func LoadKnown() []Known {
	f, err := os.Open(filepath.Join(VerifDir(), "KNOWN_FINDINGS.txt"))
	if err != nil {
		return nil
	}
	defer f.Close()
	var out []Known
	sc := bufio.NewScanner(f)
	sc.Buffer(make([]byte, 1<<20), 1<<20)
	for sc.Scan() {
		line := strings.TrimSpace(sc.Text())
		if line == "" || strings.HasPrefix(line, "#") {
			continue
		}
		var k Known
		switch {
		case strings.HasPrefix(line, "known:"):
			k.Kind = "known"
			line = strings.TrimSpace(line[len("known:"):])
		case strings.HasPrefix(line, "fixed:"):
			k.Kind = "fixed"
			line = strings.TrimSpace(line[len("fixed:"):])
		default:
			continue
		}
		fields := strings.Fields(line)
		rest := []string{}
		for _, fld := range fields {
			if strings.HasPrefix(fld, "property=") && k.Property == "" {
				k.Property = fld[len("property="):]
			} else if strings.HasPrefix(fld, "key=") && k.Key == "" {
				k.Key = fld[len("key="):]
			} else {
				rest = append(rest, fld)
			}
		}
		k.Text = strings.Join(rest, " ")
		out = append(out, k)
	}
	return out
}

// ParentCtx is available to ParentPost.
type ParentCtx struct {
	ID       string
	Tier     string
	Seed     uint64
	Scratch  string
	Self     string
	SelfRace string
	Counters map[string]int64

	mu           sync.Mutex
	Violations   []Violation
	Inconclusive []string
	Samples      []interface{}
	Hashes       map[uint64]struct{}
	Evaluations  int64
}

func (p *ParentCtx) Violate(key, desc string, witness interface{}) {
	p.mu.Lock()
	defer p.mu.Unlock()
	p.Violations = append(p.Violations, Violation{Property: p.ID, Key: key, Desc: desc, Witness: witness, Batch: -1, Seed: p.Seed, Tier: p.Tier})
}
func (p *ParentCtx) Count(name string, n int64) {
	p.mu.Lock()
	p.Counters[name] += n
	p.mu.Unlock()
}
func (p *ParentCtx) Eval(n int64) {
	p.mu.Lock()
	p.Evaluations += n
	p.mu.Unlock()
}
func (p *ParentCtx) Nontrivial(h uint64) {
	p.mu.Lock()
	p.Hashes[h] = struct{}{}
	p.mu.Unlock()
}
func (p *ParentCtx) Sample(v interface{}) {
	p.mu.Lock()
	if len(p.Samples) < 5 {
		p.Samples = append(p.Samples, v)
	}
	p.mu.Unlock()
}
func (p *ParentCtx) Inconcl(reason string) {
	p.mu.Lock()
	p.Inconclusive = append(p.Inconclusive, reason)
	p.mu.Unlock()
}

var raceHeader = regexp.MustCompile(`WARNING: DATA RACE`)

// parseRaceLogs returns de-duplicated race reports found in dir.
func parseRaceLogs(dir string) (reports []map[string]string) {
	files, _ := filepath.Glob(filepath.Join(dir, "race.*"))
	seen := map[string]bool{}
	for _, f := range files {
		b, err := os.ReadFile(f)
		if err != nil {
			continue
		}
		blocks := strings.Split(string(b), "==================")
		for _, blk := range blocks {
			if !raceHeader.MatchString(blk) {
				continue
			}
			sig := raceSignature(blk)
			if seen[sig] {
				continue
			}
			seen[sig] = true
			if len(blk) > 6000 {
				blk = blk[:6000]
			}
			reports = append(reports, map[string]string{"signature": sig, "report": blk})
		}
	}
	return
}

// raceSignature reduces a report to the innermost lungo frames of its stacks
// (line numbers stripped).
func raceSignature(blk string) string {
	var frames []string
	sections := regexp.MustCompile(`(?m)^(Write|Read|Previous write|Previous read|Goroutine)[^\n]*:$`).Split(blk, -1)
	for _, sec := range sections[1:] {
		found := ""
		for _, l := range strings.Split(sec, "\n") {
			l = strings.TrimSpace(l)
			if strings.HasPrefix(l, "github.com/256dpi/lungo") || strings.HasPrefix(l, "verifharness") {
				if i := strings.Index(l, "("); i > 0 {
					l = l[:i]
				}
				found = l
				break
			}
		}
		if found != "" {
			frames = append(frames, found)
		}
		if len(frames) >= 2 {
			break
		}
	}
	sort.Strings(frames)
	return strings.Join(frames, " | ")
}

// RunParent plans, runs and judges a check. It returns the process exit code.
func RunParent(id, tier string, seed uint64, self, selfRace string, replay *Violation) int {
	start := time.Now()
	chk := Lookup(id)
	if chk == nil {
		fmt.Fprintf(os.Stderr, "unknown check %s (have %v)\n", id, IDs())
		return 2
	}
	scratch, err := os.MkdirTemp("", "verif-"+id+"-")
	if err != nil {
		fmt.Fprintln(os.Stderr, err)
		return 2
	}
	defer os.RemoveAll(scratch)

	bin := self
	if chk.Race {
		bin = selfRace
		if bin == "" {
			fmt.Fprintf(os.Stderr, "check %s needs the race binary\n", id)
			return 2
		}
	}
	nb := 1
	if chk.Batches != nil {
		nb = chk.Batches(tier)
	}
	par := NumCPU()
	if chk.Parallel != nil {
		if p := chk.Parallel(tier); p > 0 {
			par = p
		}
	}
	timeout := 1500
	if tier == "thorough" {
		timeout = 5400
	}
	if chk.WorkerTimeoutSec != nil {
		if t := chk.WorkerTimeoutSec(tier); t > 0 {
			timeout = t
		}
	}

	p := &ParentCtx{ID: id, Tier: tier, Seed: seed, Scratch: scratch, Self: self, SelfRace: selfRace,
		Counters: map[string]int64{}, Hashes: map[uint64]struct{}{}}

	type job struct{ batch, only int }
	var jobs []job
	if replay != nil {
		if replay.Batch >= 0 {
			jobs = append(jobs, job{replay.Batch, replay.Case})
		}
	} else if chk.Run != nil {
		for b := 0; b < nb; b++ {
			jobs = append(jobs, job{b, -1})
		}
	}

	var wg sync.WaitGroup
	sem := make(chan struct{}, par)
	var mu sync.Mutex
	for _, j := range jobs {
		wg.Add(1)
		sem <- struct{}{}
		go func(j job) {
			defer wg.Done()
			defer func() { <-sem }()
			dir := filepath.Join(scratch, fmt.Sprintf("b%d", j.batch))
			os.MkdirAll(dir, 0755)
			out := filepath.Join(dir, "result.json")
			prog := filepath.Join(dir, "progress")
			args := []string{"worker", id, tier, "--seed", strconv.FormatUint(seed, 10), "--batch", strconv.Itoa(j.batch),
				"--nbatches", strconv.Itoa(nb), "--only", strconv.Itoa(j.only), "--out", out, "--progress", prog, "--scratch", dir}
			cmd := exec.Command(bin, args...)
			cmd.Env = append(os.Environ(),
				"GORACE=halt_on_error=0 log_path="+filepath.Join(dir, "race"),
				"GOTRACEBACK=all")
			stderrFile := filepath.Join(dir, "stderr")
			sf, _ := os.Create(stderrFile)
			cmd.Stdout = sf
			cmd.Stderr = sf
			cmd.SysProcAttr = &syscall.SysProcAttr{Setpgid: true}
			timedOut := false
			if err := cmd.Start(); err != nil {
				mu.Lock()
				p.Inconclusive = append(p.Inconclusive, fmt.Sprintf("batch %d: cannot start worker: %v", j.batch, err))
				mu.Unlock()
				return
			}
			done := make(chan error, 1)
			go func() { done <- cmd.Wait() }()
			var werr error
			select {
			case werr = <-done:
			case <-time.After(time.Duration(timeout) * time.Second):
				timedOut = true
				syscall.Kill(-cmd.Process.Pid, syscall.SIGQUIT)
				select {
				case werr = <-done:
				case <-time.After(10 * time.Second):
					syscall.Kill(-cmd.Process.Pid, syscall.SIGKILL)
					werr = <-done
				}
			}
			sf.Close()
			var res BatchResult
			b, rerr := os.ReadFile(out)
			ok := rerr == nil && json.Unmarshal(b, &res) == nil && res.Done
			mu.Lock()
			defer mu.Unlock()
			if ok {
				p.Evaluations += res.Evaluations
				for k, v := range res.Counters {
					if strings.HasPrefix(k, "max:") {
						if p.Counters[k] < v {
							p.Counters[k] = v
						}
					} else {
						p.Counters[k] += v
					}
				}
				for _, h := range res.Hashes {
					p.Hashes[h] = struct{}{}
				}
				for _, s := range res.Samples {
					if len(p.Samples) < 5 {
						p.Samples = append(p.Samples, s)
					}
				}
				p.Violations = append(p.Violations, res.Violations...)
				p.Inconclusive = append(p.Inconclusive, res.Inconclusive...)
			} else {
				tail := tailFile(stderrFile, 6000)
				pb, _ := os.ReadFile(prog)
				caseNo := -1
				detail := ""
				if len(pb) >= 32 {
					caseNo, _ = strconv.Atoi(strings.TrimSpace(string(pb[:31])))
					if len(pb) > 32 {
						d := pb[32:]
						if i := bytes.IndexByte(d, 0); i >= 0 {
							d = d[:i]
						}
						detail = string(d)
					}
				}
				if timedOut {
					p.Inconclusive = append(p.Inconclusive, fmt.Sprintf("batch %d: worker watchdog (%ds) fired at case %d; stderr tail: %s", j.batch, timeout, caseNo, lastLines(tail, 30)))
				} else {
					p.Violations = append(p.Violations, Violation{Property: id, Key: "worker-died", Batch: j.batch, Case: caseNo, Seed: seed, Tier: tier,
						Desc:    fmt.Sprintf("worker process died (%v) while executing case %d", werr, caseNo),
						Witness: map[string]interface{}{"case_detail": detail, "stderr_tail": tail}})
				}
			}
			if chk.Race {
				for _, r := range parseRaceLogs(dir) {
					key := "race:" + r["signature"]
					p.Violations = append(p.Violations, Violation{Property: id, Key: key, Batch: j.batch, Case: -1, Seed: seed, Tier: tier,
						Desc: "data race reported by the Go race detector: " + r["signature"], Witness: r["report"]})
					p.Counters["race_reports"]++
				}
			}
		}(j)
	}
	wg.Wait()

	if chk.ParentPost != nil && replay == nil {
		chk.ParentPost(p)
	}

	// minimum coverage
	if replay == nil && chk.Require != nil {
		for k, min := range chk.Require(tier) {
			if p.Counters[k] < min {
				p.Inconclusive = append(p.Inconclusive, fmt.Sprintf("counter %s=%d below required minimum %d (monitor observed too little)", k, p.Counters[k], min))
			}
		}
	}

	// judge violations against known findings
	known := LoadKnown()
	knownHit := map[string]int{}
	var real []Violation
	for _, v := range p.Violations {
		matched := false
		for _, k := range known {
			if k.Kind == "known" && k.Property == id && k.Key != "" && k.Key == v.Key {
				knownHit[k.Key]++
				matched = true
				break
			}
		}
		if !matched {
			real = append(real, v)
		}
	}
	for _, k := range known {
		if k.Kind == "known" && k.Property == id && knownHit[k.Key] > 0 {
			fmt.Printf("KNOWN-FINDING: property=%s key=%s %s (observed %d times in this run)\n", id, k.Key, k.Text, knownHit[k.Key])
		}
	}

	exit := 0
	if len(real) > 0 {
		exit = 1
		os.MkdirAll(filepath.Join(VerifDir(), "replays"), 0755)
		// de-duplicate by key for printing; all are in the file
		total := map[string]int{}
		for _, v := range real {
			total[v.Key]++
		}
		for k, n := range total {
			fmt.Printf("  violations with key %s: %d\n", k, n)
		}
		byKey := map[string]int{}
		for i, v := range real {
			byKey[v.Key]++
			if byKey[v.Key] > 3 {
				continue
			}
			path := filepath.Join(VerifDir(), "replays", fmt.Sprintf("%s-%s-seed%d-%d.json", id, tier, seed, i))
			b, _ := json.MarshalIndent(v, "", " ")
			os.WriteFile(path, b, 0644)
			fmt.Printf("VIOLATION property=%s replay=%s\n", id, path)
			fmt.Printf("  key=%s %s\n", v.Key, oneLine(v.Desc, 400))
		}
	} else if len(p.Inconclusive) > 0 {
		exit = 3
		for i, r := range p.Inconclusive {
			if i >= 10 {
				break
			}
			fmt.Printf("INCONCLUSIVE property=%s reason=%s\n", id, oneLine(r, 600))
		}
	}

	if replay == nil {
		writeEvidence(chk, p, tier, seed, time.Since(start).Seconds(), len(real), knownHit)
	}
	fmt.Printf("%s %s seed=%d evaluations=%d distinct_nontrivial=%d violations=%d known=%d inconclusive=%d wall=%.1fs\n",
		id, tier, seed, p.Evaluations, len(p.Hashes), len(real), len(knownHit), len(p.Inconclusive), time.Since(start).Seconds())
	return exit
}

func oneLine(s string, n int) string {
	s = strings.ReplaceAll(s, "\n", " ")
	if len(s) > n {
		s = s[:n] + "…"
	}
	return s
}

func tailFile(path string, n int) string {
	b, err := os.ReadFile(path)
	if err != nil {
		return ""
	}
	if len(b) > n {
		// keep the head (panic message) and the tail
		head := b[:n/2]
		tail := b[len(b)-n/2:]
		return string(head) + "\n...\n" + string(tail)
	}
	return string(b)
}

func lastLines(s string, n int) string {
	l := strings.Split(s, "\n")
	if len(l) > n {
		l = l[len(l)-n:]
	}
	return strings.Join(l, " / ")
}

func writeEvidence(chk *Check, p *ParentCtx, tier string, seed uint64, wall float64, violations int, knownHit map[string]int) {
	cov := map[string]interface{}{}
	for k, v := range p.Counters {
		cov[k] = v
	}
	cov["evaluations"] = p.Evaluations
	cov["distinct_nontrivial"] = len(p.Hashes)
	cov["rule"] = chk.Rule
	samples := p.Samples
	if samples == nil {
		samples = []interface{}{}
	}
	cov["samples"] = samples
	if chk.Exhaustive {
		cov["exhaustive"] = true
	}
	kh := []string{}
	for k := range knownHit {
		kh = append(kh, k)
	}
	sort.Strings(kh)
	cov["known_findings_hit"] = kh
	inc := p.Inconclusive
	if inc == nil {
		inc = []string{}
	}
	cov["inconclusive"] = inc
	ev := map[string]interface{}{
		"property_id": chk.ID,
		"tier":        tier,
		"seed":        seed,
		"level":       chk.Level,
		"coverage":    cov,
		"assumptions": chk.Assumptions,
		"wall_s":      wall,
		"violations":  violations,
	}
	if chk.Assumptions == nil {
		ev["assumptions"] = []string{}
	}
	os.MkdirAll(filepath.Join(VerifDir(), "evidence"), 0755)
	b, _ := json.MarshalIndent(ev, "", " ")
	os.WriteFile(filepath.Join(VerifDir(), "evidence", chk.ID+".json"), b, 0644)
}
