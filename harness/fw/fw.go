// Package fw is the run-time framework shared by all checks: case planning,
// worker processes, result merging, known-finding matching, evidence and
// replay files.
package fw

import (
	"encoding/json"
	"fmt"
	"os"
	"runtime"
	"runtime/debug"
	"sort"
	"strings"
	"sync"
	"time"
)

// Violation is one refuting observation.
type Violation struct {
	Property string `json:"property"`
	// Key is a signature over the *input / call site / history shape* of the
	// violating case (never over the outcome). Known findings are matched on it.
	Key     string      `json:"key"`
	Desc    string      `json:"desc"`
	Witness interface{} `json:"witness,omitempty"`
	Batch   int         `json:"batch"`
	Case    int         `json:"case"`
	Seed    uint64      `json:"seed"`
	Tier    string      `json:"tier"`
}

// BatchResult is what one worker process reports back.
type BatchResult struct {
	Batch        int              `json:"batch"`
	Evaluations  int64            `json:"evaluations"`
	Counters     map[string]int64 `json:"counters"`
	Hashes       []uint64         `json:"hashes"`
	Samples      []interface{}    `json:"samples"`
	Violations   []Violation      `json:"violations"`
	Inconclusive []string         `json:"inconclusive"`
	Done         bool             `json:"done"`
}

// Check describes one property check.
type Check struct {
	ID   string
	Race bool // workers run in the -race binary
	// Level is the evidence level ("exploration" or "fault_enumeration").
	Level string
	// Rule describes generation and the non-triviality/distinctness rule.
	Rule        string
	Assumptions []string
	// Batches returns how many worker batches the tier consists of.
	Batches func(tier string) int
	// Parallel limits concurrently running workers (0 = number of CPUs).
	Parallel func(tier string) int
	// Run executes batch c.Batch (of c.NBatches) in a worker process.
	Run func(c *Ctx)
	// Require lists counters that must reach a minimum over the whole run;
	// otherwise the run is inconclusive (a monitor that observed nothing).
	Require func(tier string) map[string]int64
	// Exhaustive marks runs that enumerate a finite space completely.
	Exhaustive bool
	// WorkerTimeoutSec is the watchdog per worker (0 = default).
	WorkerTimeoutSec func(tier string) int
	// ParentPost is run in the parent after all batches completed; it may add
	// counters, violations or inconclusive reasons (e.g. strace-driven checks).
	ParentPost func(p *ParentCtx)
}

var registry = map[string]*Check{}

// Register adds a check to the registry.
func Register(c *Check) {
	if c.Level == "" {
		c.Level = "exploration"
	}
	registry[c.ID] = c
}

// Lookup returns a registered check.
func Lookup(id string) *Check { return registry[id] }

// IDs lists the registered checks.
func IDs() []string {
	var ids []string
	for id := range registry {
		ids = append(ids, id)
	}
	sort.Strings(ids)
	return ids
}

// Ctx is handed to a worker batch.
type Ctx struct {
	ID       string
	Tier     string
	Seed     uint64
	Batch    int
	NBatches int
	Only     int // >=0: execute only this case index (replay)
	Scratch  string

	mu       sync.Mutex
	res      BatchResult
	hashSet  map[uint64]struct{}
	progress *os.File
	curCase  int
	out      string
}

// Thorough reports whether the tier is "thorough".
func (c *Ctx) Thorough() bool { return c.Tier == "thorough" }

// N picks a per-tier number.
func (c *Ctx) N(quick, thorough int) int {
	if c.Thorough() {
		return thorough
	}
	return quick
}

// Rand returns the PRNG of case i (global case numbering is up to the check;
// by convention i is unique within the whole run, not only the batch).
func (c *Ctx) Rand(i int) *Rand { return CaseRand(c.Seed, c.ID, i) }

// Count adds n to a named counter.
func (c *Ctx) Count(name string, n int64) {
	c.mu.Lock()
	c.res.Counters[name] += n
	c.mu.Unlock()
}

// Max raises a named counter to at least n.
func (c *Ctx) Max(name string, n int64) {
	c.mu.Lock()
	if c.res.Counters[name] < n {
		c.res.Counters[name] = n
	}
	c.mu.Unlock()
}

// Eval counts executed cases.
func (c *Ctx) Eval(n int64) {
	c.mu.Lock()
	c.res.Evaluations += n
	c.mu.Unlock()
}

// Nontrivial records the hash of a distinct non-trivial case.
func (c *Ctx) Nontrivial(h uint64) {
	c.mu.Lock()
	if _, ok := c.hashSet[h]; !ok && len(c.hashSet) < 400000 {
		c.hashSet[h] = struct{}{}
	}
	c.mu.Unlock()
}

// Sample keeps up to a few written-out cases for the evidence file.
func (c *Ctx) Sample(v interface{}) {
	c.mu.Lock()
	if len(c.res.Samples) < 3 {
		c.res.Samples = append(c.res.Samples, v)
	}
	c.mu.Unlock()
}

// WantSample tells whether another sample is still wanted.
func (c *Ctx) WantSample() bool {
	c.mu.Lock()
	defer c.mu.Unlock()
	return len(c.res.Samples) < 3
}

// Violate records a violation for the current case.
func (c *Ctx) Violate(key, desc string, witness interface{}) {
	c.mu.Lock()
	defer c.mu.Unlock()
	if len(c.res.Violations) >= 50 {
		return
	}
	c.res.Violations = append(c.res.Violations, Violation{
		Property: c.ID, Key: key, Desc: desc, Witness: witness,
		Batch: c.Batch, Case: c.curCase, Seed: c.Seed, Tier: c.Tier,
	})
}

// Violations returns how many violations were recorded so far.
func (c *Ctx) Violations() int {
	c.mu.Lock()
	defer c.mu.Unlock()
	return len(c.res.Violations)
}

// Inconclusive records a reason why (part of) the batch could not decide.
func (c *Ctx) Inconclusive(reason string) {
	c.mu.Lock()
	c.res.Inconclusive = append(c.res.Inconclusive, reason)
	c.mu.Unlock()
}

// Skip reports whether case i must be skipped (replay of a single case).
func (c *Ctx) Skip(i int) bool { return c.Only >= 0 && c.Only != i }

// PanicKey may be set by a check to classify recovered panics by input.
type PanicInfo struct {
	Value string
	Stack string
}

// Case runs fn as case i: logs the case number before executing (so that a
// dying worker leaves a witness) and converts a panic into a violation.
// describe (may be nil) renders the input for the witness; keyOf (may be nil)
// derives the known-finding key from the input.
func (c *Ctx) Case(i int, describe func() interface{}, keyOf func(p PanicInfo) string, fn func()) {
	if c.Skip(i) {
		return
	}
	c.mu.Lock()
	c.curCase = i
	c.mu.Unlock()
	if c.progress != nil {
		var buf [32]byte
		s := fmt.Sprintf("%-31d\n", i)
		copy(buf[:], s)
		c.progress.WriteAt(buf[:], 0)
	}
	defer func() {
		if r := recover(); r != nil {
			pi := PanicInfo{Value: fmt.Sprint(r), Stack: trimStack(string(debug.Stack()))}
			key := "panic"
			if keyOf != nil {
				if k := keyOf(pi); k != "" {
					key = k
				}
			}
			var in interface{}
			if describe != nil {
				func() {
					defer func() { recover() }()
					in = describe()
				}()
			}
			c.Violate(key, "panic: "+pi.Value, map[string]interface{}{"input": in, "stack": pi.Stack})
		}
	}()
	fn()
}

// HangWatch starts a per-call watchdog: if a single watched call (bracketed by
// CallBegin/CallEnd) has not returned after limit, the call is reported as a
// hang (with the logged detail as witness), the result file is written and
// the worker exits. It returns the functions that bracket a call.
func (c *Ctx) HangWatch(limit time.Duration, key string) (begin func(detail func() string), end func()) {
	var mu sync.Mutex
	var started time.Time
	var running bool
	var det func() string
	go func() {
		for {
			time.Sleep(500 * time.Millisecond)
			mu.Lock()
			if running && time.Since(started) > limit {
				d := ""
				if det != nil {
					func() {
						defer func() { recover() }()
						d = det()
					}()
				}
				mu.Unlock()
				buf := make([]byte, 1<<16)
				buf = buf[:runtime.Stack(buf, true)]
				c.Violate(key, fmt.Sprintf("a single call did not return within %s", limit), map[string]interface{}{"input": d, "goroutines": string(buf)})
				c.finish()
				os.Exit(0)
			}
			mu.Unlock()
		}
	}()
	begin = func(detail func() string) {
		mu.Lock()
		started, running, det = time.Now(), true, detail
		mu.Unlock()
	}
	end = func() {
		mu.Lock()
		running = false
		mu.Unlock()
	}
	return
}

// SetProgressDetail stores a longer description of what is about to run in
// the progress file (used by C20 where the process itself may die).
func (c *Ctx) SetProgressDetail(s string) {
	if c.progress == nil {
		return
	}
	if len(s) > 60000 {
		s = s[:60000]
	}
	b := []byte(s + "\n\x00")
	c.progress.WriteAt(b, 32)
}

func trimStack(s string) string {
	lines := strings.Split(s, "\n")
	var out []string
	for _, l := range lines {
		if strings.Contains(l, "runtime/debug.Stack") || strings.Contains(l, "runtime/debug/stack.go") {
			continue
		}
		out = append(out, l)
		if len(out) > 40 {
			break
		}
	}
	return strings.Join(out, "\n")
}

// TopLungoFrame extracts the innermost lungo frame from a stack (for
// reporting; not for known-finding keys).
func TopLungoFrame(stack string) string {
	for _, l := range strings.Split(stack, "\n") {
		l = strings.TrimSpace(l)
		if strings.HasPrefix(l, "github.com/256dpi/lungo") {
			// strip the argument list (the last parenthesis group)
			if i := strings.LastIndex(l, "("); i > 0 {
				return l[:i]
			}
			return l
		}
	}
	return ""
}

// RunWorker executes one batch and writes the result file.
func RunWorker(id, tier string, seed uint64, batch, nbatches, only int, out, progress, scratch string) int {
	chk := Lookup(id)
	if chk == nil {
		fmt.Fprintf(os.Stderr, "unknown check %s\n", id)
		return 2
	}
	c := &Ctx{ID: id, Tier: tier, Seed: seed, Batch: batch, NBatches: nbatches, Only: only, Scratch: scratch,
		hashSet: map[uint64]struct{}{}, out: out}
	c.res.Batch = batch
	c.res.Counters = map[string]int64{}
	if progress != "" {
		f, err := os.OpenFile(progress, os.O_CREATE|os.O_RDWR, 0644)
		if err == nil {
			c.progress = f
		}
	}
	func() {
		defer func() {
			if r := recover(); r != nil {
				c.Violate("harness-panic", fmt.Sprintf("panic outside a case: %v", r), trimStack(string(debug.Stack())))
			}
		}()
		chk.Run(c)
	}()
	return c.finish()
}

// finish writes the result file of the batch.
func (c *Ctx) finish() int {
	c.mu.Lock()
	defer c.mu.Unlock()
	c.res.Done = true
	c.res.Hashes = c.res.Hashes[:0]
	for h := range c.hashSet {
		c.res.Hashes = append(c.res.Hashes, h)
	}
	b, err := json.Marshal(&c.res)
	if err != nil {
		// a witness that cannot be marshalled must not hide the violation
		for i := range c.res.Violations {
			c.res.Violations[i].Witness = fmt.Sprintf("%+v", c.res.Violations[i].Witness)
		}
		c.res.Samples = nil
		b, err = json.Marshal(&c.res)
		if err != nil {
			fmt.Fprintf(os.Stderr, "marshal result: %v\n", err)
			return 2
		}
	}
	if err := os.WriteFile(c.out, b, 0644); err != nil {
		fmt.Fprintf(os.Stderr, "write result: %v\n", err)
		return 2
	}
	return 0
}

// NumCPU is the worker parallelism default.
func NumCPU() int {
	n := runtime.NumCPU()
	if n > 16 {
		n = 16
	}
	if n < 1 {
		n = 1
	}
	return n
}
