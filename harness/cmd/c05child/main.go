// c05child is the victim process of the crash-consistency check: it performs
// the commit steps on a file store, printing BEGIN/ACK/ERR markers (one write
// system call each) so that the parent and strace see the commit windows.
//
//	c05child <dir> <profile> [snap]
package main

import (
	"context"
	"fmt"
	"io"
	"os"
	"path/filepath"
	"runtime"

	"github.com/256dpi/lungo"

	"verifharness/c05lib"
)

func say(format string, a ...interface{}) {
	os.Stdout.Write([]byte(fmt.Sprintf(format, a...) + "\n"))
}

func init() {
	// the main goroutine stays on the main thread, so that every system call of
	// a commit is issued by the thread strace traces (no -f needed) and
	// injection ordinals count this thread's calls only
	runtime.LockOSThread()
}

func main() {
	dir, profile := os.Args[1], os.Args[2]
	snap := len(os.Args) > 3 && os.Args[3] == "snap"
	file := filepath.Join(dir, "db.bson")
	client, engine, err := lungo.Open(nil, lungo.Options{Store: lungo.NewFileStore(file, 0644), ExpireInterval: 1 << 40})
	if err != nil {
		say("OPENERR %v", err)
		os.Exit(3)
	}
	ctx := context.Background()
	say("OPENED %s", c05lib.Describe(engine.Catalog()))
	for i := 1; i <= c05lib.NSteps(profile); i++ {
		say("BEGIN %d", i)
		err := c05lib.Step(ctx, client, profile, i)
		if err != nil {
			say("ERR %d %v", i, err)
			// the state visible to clients after the failed commit
			say("VISIBLE %d %s", i, c05lib.Describe(engine.Catalog()))
			// a retry of the same step must work (later commits work)
			say("BEGIN %d", i)
			if err := c05lib.Step(ctx, client, profile, i); err != nil {
				say("ERR %d %v", i, err)
				say("VISIBLE %d %s", i, c05lib.Describe(engine.Catalog()))
				continue
			}
		}
		say("ACK %d", i)
		if snap {
			in, err := os.Open(file)
			if err == nil {
				out, _ := os.Create(filepath.Join(dir, fmt.Sprintf("img-%d", i)))
				io.Copy(out, in)
				out.Close()
				in.Close()
			}
			say("SNAPPED %d", i)
		}
	}
	say("FINAL %s", c05lib.Describe(engine.Catalog()))
	engine.Close()
	say("DONE")
}
