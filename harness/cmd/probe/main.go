// probe is a scratch program for trying single inputs against lungo and the
// reference (development aid; not used by the checks).
package main

import (
	"fmt"

	"github.com/256dpi/lungo/mongokit"
	"go.mongodb.org/mongo-driver/bson"

	"verifharness/gen"
	"verifharness/ref"
)

func main() {
	d := bson.D{{Key: "_id", Value: int32(1)}, {Key: "y", Value: bson.A{int32(5), "x"}}}
	p := bson.D{{Key: "y", Value: bson.D{{Key: "$elemMatch", Value: bson.D{{Key: "d", Value: nil}}}}}}
	got, err := mongokit.Project(&d, &p)
	fmt.Println("lungo:", gen.JSON(*got), err)
	info := &ref.ProjInfo{}
	want, rerr := ref.Project(d, p, info)
	fmt.Println("ref:", gen.JSON(want), rerr, info.OutOfDomain, info.Why)
}
