// verifcheck is the single binary behind bin/check: parent ("run"), worker
// ("worker") and replay modes for every property check.
package main

import (
	"encoding/json"
	"flag"
	"fmt"
	"os"
	"strconv"

	_ "verifharness/checks"
	"verifharness/fw"
)

func seedFromEnv() uint64 {
	if s := os.Getenv("VERIF_SEED"); s != "" {
		if v, err := strconv.ParseInt(s, 10, 64); err == nil {
			return uint64(v)
		}
	}
	return 1
}

func main() {
	if len(os.Args) < 2 {
		fmt.Fprintln(os.Stderr, "usage: verifcheck run|worker|replay|needs-race|list ...")
		os.Exit(2)
	}
	switch os.Args[1] {
	case "list":
		for _, id := range fw.IDs() {
			fmt.Println(id)
		}
	case "needs-race":
		c := fw.Lookup(os.Args[2])
		if c != nil && c.Race {
			fmt.Println("yes")
		} else {
			fmt.Println("no")
		}
	case "run":
		id, tier := os.Args[2], os.Args[3]
		self, _ := os.Executable()
		os.Exit(fw.RunParent(id, tier, seedFromEnv(), self, os.Getenv("VERIF_RACE_BIN"), nil))
	case "replay":
		id, path := os.Args[2], os.Args[3]
		b, err := os.ReadFile(path)
		if err != nil {
			fmt.Fprintln(os.Stderr, err)
			os.Exit(2)
		}
		var v fw.Violation
		if err := json.Unmarshal(b, &v); err != nil {
			fmt.Fprintln(os.Stderr, err)
			os.Exit(2)
		}
		self, _ := os.Executable()
		tier := v.Tier
		if tier == "" {
			tier = "quick"
		}
		os.Exit(fw.RunParent(id, tier, v.Seed, self, os.Getenv("VERIF_RACE_BIN"), &v))
	case "worker":
		fs := flag.NewFlagSet("worker", flag.ExitOnError)
		seed := fs.Uint64("seed", 1, "")
		batch := fs.Int("batch", 0, "")
		nb := fs.Int("nbatches", 1, "")
		only := fs.Int("only", -1, "")
		out := fs.String("out", "", "")
		prog := fs.String("progress", "", "")
		scratch := fs.String("scratch", "", "")
		id, tier := os.Args[2], os.Args[3]
		fs.Parse(os.Args[4:])
		os.Exit(fw.RunWorker(id, tier, *seed, *batch, *nb, *only, *out, *prog, *scratch))
	default:
		fmt.Fprintln(os.Stderr, "unknown subcommand")
		os.Exit(2)
	}
}
