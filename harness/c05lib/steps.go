// Package c05lib holds what the crash-consistency check and its victim
// process share: the deterministic commit steps and the state descriptor.
package c05lib

import (
	"context"
	"crypto/sha1"
	"fmt"
	"sort"
	"strings"

	"github.com/256dpi/lungo"
	"go.mongodb.org/mongo-driver/bson"
	"go.mongodb.org/mongo-driver/mongo"
	"go.mongodb.org/mongo-driver/mongo/options"
)

// Sizes of the blobs written by the insert steps (images cross 4 KiB, 64 KiB
// and, in the big profile, 1 MiB).
var sizes = []int{40, 6000, 70000, 300, 1100000, 2000}

// NSteps returns the number of commit steps of a profile.
func NSteps(profile string) int {
	if profile == "big" {
		return 8
	}
	return 5
}

func blob(step, n int) []byte {
	b := make([]byte, n)
	x := uint32(step*2654435761 + 12345)
	for i := range b {
		x = x*1664525 + 1013904223
		b[i] = byte(x >> 24)
	}
	return b
}

// Step performs commit step i (1-based): exactly one commit when it succeeds.
func Step(ctx context.Context, client lungo.IClient, profile string, i int) error {
	c1 := client.Database("d").Collection("c1")
	c2 := client.Database("e").Collection("c2.x")
	switch i {
	case 1:
		_, err := c1.InsertOne(ctx, bson.D{{Key: "_id", Value: int32(1)}, {Key: "k", Value: int32(1)}, {Key: "blob", Value: blob(1, sizes[0])}})
		return err
	case 2:
		_, err := c1.Indexes().CreateOne(ctx, mongo.IndexModel{Keys: bson.D{{Key: "k", Value: int32(1)}}, Options: options.Index().SetUnique(true)})
		return err
	case 3:
		_, err := c1.InsertMany(ctx, []interface{}{
			bson.D{{Key: "_id", Value: int32(2)}, {Key: "k", Value: int32(2)}, {Key: "blob", Value: blob(2, sizes[1])}},
			bson.D{{Key: "_id", Value: int32(3)}, {Key: "k", Value: int32(3)}, {Key: "blob", Value: blob(3, 10)}}})
		return err
	case 4:
		_, err := c2.InsertOne(ctx, bson.D{{Key: "_id", Value: "x"}, {Key: "blob", Value: blob(4, sizes[2])}})
		return err
	case 5:
		_, err := c1.UpdateOne(ctx, bson.D{{Key: "_id", Value: int32(1)}}, bson.D{{Key: "$set", Value: bson.D{{Key: "k", Value: int32(100)}, {Key: "blob", Value: blob(5, sizes[3])}}}})
		return err
	case 6:
		_, err := c1.InsertOne(ctx, bson.D{{Key: "_id", Value: int32(6)}, {Key: "k", Value: int32(6)}, {Key: "blob", Value: blob(6, sizes[4])}})
		return err
	case 7:
		_, err := c1.DeleteOne(ctx, bson.D{{Key: "_id", Value: int32(2)}})
		return err
	default:
		_, err := c2.InsertOne(ctx, bson.D{{Key: "_id", Value: fmt.Sprintf("s%d", i)}, {Key: "blob", Value: blob(i, sizes[5])}})
		return err
	}
}

// Describe renders the data of a catalog (documents of all data namespaces by
// id with a content hash, index definitions) without anything that differs
// from run to run (change-log timestamps).
func Describe(cat *lungo.Catalog) string {
	var handles []lungo.Handle
	for h := range cat.Namespaces {
		if h[0] != lungo.Local {
			handles = append(handles, h)
		}
	}
	sort.Slice(handles, func(i, j int) bool { return handles[i][0]+"/"+handles[i][1] < handles[j][0]+"/"+handles[j][1] })
	var sb strings.Builder
	for _, h := range handles {
		ns := cat.Namespaces[h]
		// (database and collection are rendered separately: "e"/"c2.x" and "e.c2"/"x" must differ)
		fmt.Fprintf(&sb, "[%s/%s]", h[0], h[1])
		for _, d := range ns.Documents.List {
			b, _ := bson.Marshal(d)
			fmt.Fprintf(&sb, " %x", sha1.Sum(b))
		}
		var idx []string
		for name, ix := range ns.Indexes {
			cfg := ix.Config()
			kb, _ := bson.Marshal(cfg.Key)
			idx = append(idx, fmt.Sprintf("%s:%x:%v:%d", name, kb, cfg.Unique, cfg.Expiry))
		}
		sort.Strings(idx)
		fmt.Fprintf(&sb, " idx=%v;", idx)
	}
	if ol := cat.Namespaces[lungo.Oplog]; ol != nil {
		fmt.Fprintf(&sb, " oplog=%d", len(ol.Documents.List))
	}
	return sb.String()
}

// Expected returns the descriptor after each step count 0..n of a profile,
// computed on a memory store.
func Expected(profile string) ([]string, error) {
	client, engine, err := lungo.Open(nil, lungo.Options{Store: lungo.NewMemoryStore(), ExpireInterval: 1 << 40})
	if err != nil {
		return nil, err
	}
	defer engine.Close()
	out := []string{Describe(engine.Catalog())}
	for i := 1; i <= NSteps(profile); i++ {
		if err := Step(context.Background(), client, profile, i); err != nil {
			return nil, fmt.Errorf("step %d: %v", i, err)
		}
		out = append(out, Describe(engine.Catalog()))
	}
	return out, nil
}
