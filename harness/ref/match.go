package ref

import (
	"fmt"
	"math"
	"math/big"
	"strconv"
	"strings"

	"go.mongodb.org/mongo-driver/bson"
	"go.mongodb.org/mongo-driver/bson/primitive"
)

// MatchInfo collects domain information while a filter is evaluated.
type MatchInfo struct {
	// OutOfDomain is set when evaluation touched anything outside the core
	// domain of DESIGN.md 8.2 (the result is then not asserted).
	OutOfDomain bool
	Why         string
	// Coverage notes: which (operator, path kind) combinations were evaluated.
	Seen map[string]int
}

func (m *MatchInfo) ood(why string) {
	if !m.OutOfDomain {
		m.OutOfDomain = true
		m.Why = why
	}
}

func (m *MatchInfo) see(k string) {
	if m.Seen != nil {
		m.Seen[k]++
	}
}

// ErrReject is returned for filters the reference considers malformed.
type ErrReject struct{ Msg string }

func (e *ErrReject) Error() string { return "ref: " + e.Msg }

func reject(format string, a ...interface{}) error {
	return &ErrReject{Msg: fmt.Sprintf(format, a...)}
}

// Path resolution -----------------------------------------------------------

// PathKind describes how a path resolved.
type PathKind struct {
	FanOut    bool // passed through an array without an index before the end
	Indexed   bool // used a numeric segment as array index
	NestedArr bool // met an array directly inside an array
	LeafArray bool // the value at the end of the path is an array
}

func isIndex(seg string) (int, bool) {
	if seg == "" || seg[0] < '0' || seg[0] > '9' {
		return 0, false
	}
	n, err := strconv.Atoi(seg)
	if err != nil || n < 0 {
		return 0, false
	}
	return n, true
}

// Values returns the values at the path *without* leaf-array expansion
// (Missing where absent), together with the path kind.
func Values(d bson.D, path string) ([]interface{}, PathKind) {
	var kind PathKind
	segs := strings.Split(path, ".")
	out := resolve(d, segs, &kind, false)
	if len(out) == 0 {
		out = []interface{}{Missing}
	}
	for _, v := range out {
		if a, ok := v.(bson.A); ok {
			kind.LeafArray = true
			for _, e := range a {
				if _, ok := e.(bson.A); ok {
					kind.NestedArr = true
				}
			}
		}
	}
	return out, kind
}

func resolve(v interface{}, segs []string, kind *PathKind, inArr bool) []interface{} {
	if len(segs) == 0 {
		return []interface{}{v}
	}
	seg := segs[0]
	switch x := v.(type) {
	case bson.D:
		for _, e := range x {
			if e.Key == seg {
				return resolve(e.Value, segs[1:], kind, false)
			}
		}
		return []interface{}{Missing}
	case bson.A:
		if inArr {
			kind.NestedArr = true
		}
		var out []interface{}
		if idx, ok := isIndex(seg); ok {
			kind.Indexed = true
			if idx < len(x) {
				return resolve(x[idx], segs[1:], kind, true)
			}
		}
		kind.FanOut = true
		for _, el := range x {
			switch ed := el.(type) {
			case bson.D:
				out = append(out, resolve(ed, segs, kind, false)...)
			case bson.A:
				kind.NestedArr = true
			}
		}
		return out
	default:
		return []interface{}{Missing}
	}
}

// Cands returns the candidate values of a leaf predicate: the values at the
// path with a leaf array contributing each element and itself.
func Cands(d bson.D, path string) ([]interface{}, PathKind) {
	vals, kind := Values(d, path)
	var out []interface{}
	for _, v := range vals {
		if a, ok := v.(bson.A); ok {
			out = append(out, a...)
		}
		out = append(out, v)
	}
	return out, kind
}

// Match -------------------------------------------------------------------

// Match evaluates filter f on document d.
func Match(d bson.D, f bson.D, info *MatchInfo) (bool, error) {
	if info == nil {
		info = &MatchInfo{}
	}
	return matchDoc(d, f, info)
}

func matchDoc(d bson.D, f bson.D, info *MatchInfo) (bool, error) {
	res := true
	for _, e := range f {
		ok, err := matchTop(d, e, info)
		if err != nil {
			return false, err
		}
		if !ok {
			res = false // keep evaluating: malformed later parts must still reject
		}
	}
	return res, nil
}

func matchTop(d bson.D, e bson.E, info *MatchInfo) (bool, error) {
	if strings.HasPrefix(e.Key, "$") {
		switch e.Key {
		case "$and", "$or", "$nor":
			arr, ok := e.Value.(bson.A)
			if !ok {
				return false, reject("%s: expected array", e.Key)
			}
			if len(arr) == 0 {
				return false, reject("%s: empty array", e.Key)
			}
			all, any := true, false
			for _, it := range arr {
				sub, ok := it.(bson.D)
				if !ok {
					return false, reject("%s: expected array of documents", e.Key)
				}
				r, err := matchDoc(d, sub, info)
				if err != nil {
					return false, err
				}
				all = all && r
				any = any || r
			}
			info.see(e.Key)
			switch e.Key {
			case "$and":
				return all, nil
			case "$or":
				return any, nil
			default:
				return !any, nil
			}
		case "$jsonSchema":
			sd, ok := e.Value.(bson.D)
			if !ok {
				return false, reject("$jsonSchema: expected document")
			}
			info.see("$jsonSchema")
			return schemaEval(sd, d, info)
		}
		return false, reject("unknown top level operator %q", e.Key)
	}
	return matchField(d, e.Key, e.Value, info)
}

func isOperatorDoc(v interface{}) (bson.D, bool) {
	d, ok := v.(bson.D)
	if !ok || len(d) == 0 {
		return nil, false
	}
	if !strings.HasPrefix(d[0].Key, "$") {
		return nil, false
	}
	return d, true
}

func matchField(d bson.D, path string, cond interface{}, info *MatchInfo) (bool, error) {
	if ops, ok := isOperatorDoc(cond); ok {
		res := true
		for _, op := range ops {
			if !strings.HasPrefix(op.Key, "$") {
				return false, reject("expected operator, got %q", op.Key)
			}
			r, err := matchOp(d, path, op.Key, op.Value, info)
			if err != nil {
				return false, err
			}
			res = res && r
		}
		return res, nil
	}
	return matchOp(d, path, "$eq", cond, info)
}

func isScalarNonNull(v interface{}) bool {
	switch v.(type) {
	case nil, primitive.Null, bson.D, bson.A:
		return false
	}
	return true
}

func checkNested(v interface{}, info *MatchInfo) {
	switch x := v.(type) {
	case bson.A:
		for _, e := range x {
			if _, ok := e.(bson.A); ok {
				info.ood("nested array operand")
			}
			checkNested(e, info)
		}
	case bson.D:
		for _, e := range x {
			checkNested(e.Value, info)
		}
	}
}

func pathKindName(k PathKind) string {
	switch {
	case k.FanOut:
		return "fanout"
	case k.Indexed:
		return "index"
	case k.LeafArray:
		return "arrayleaf"
	}
	return "plain"
}

func matchOp(d bson.D, path, op string, arg interface{}, info *MatchInfo) (bool, error) {
	switch op {
	case "$eq", "$gt", "$gte", "$lt", "$lte":
		cands, kind := Cands(d, path)
		if kind.NestedArr {
			info.ood("nested arrays on path")
		}
		if kind.FanOut && !isScalarNonNull(arg) {
			info.ood("fan-out path with null/compound operand")
		}
		checkNested(arg, info)
		res := false
		for _, c := range cands {
			if cmpPred(op, c, arg, info) {
				res = true
			}
		}
		info.see(op + "/" + pathKindName(kind) + "/" + strconv.FormatBool(res))
		return res, nil
	case "$ne":
		r, err := matchOp(d, path, "$eq", arg, info)
		return !r, err
	case "$in", "$nin":
		arr, ok := arg.(bson.A)
		if !ok {
			return false, reject("%s: expected array", op)
		}
		cands, kind := Cands(d, path)
		if kind.NestedArr {
			info.ood("nested arrays on path")
		}
		res := false
		for _, v := range arr {
			if _, isRe := v.(primitive.Regex); isRe {
				info.ood("regex in $in")
			}
			if kind.FanOut && !isScalarNonNull(v) {
				info.ood("fan-out path with null/compound operand")
			}
			checkNested(v, info)
			for _, c := range cands {
				if cmpPred("$eq", c, v, info) {
					res = true
				}
			}
		}
		info.see(op + "/" + pathKindName(kind) + "/" + strconv.FormatBool(res))
		if op == "$nin" {
			return !res, nil
		}
		return res, nil
	case "$not":
		sub, ok := arg.(bson.D)
		if !ok {
			return false, reject("$not: expected document")
		}
		if len(sub) == 0 {
			return false, reject("$not: empty document")
		}
		res := true
		for _, e := range sub {
			if !strings.HasPrefix(e.Key, "$") {
				return false, reject("$not: expected operator, got %q", e.Key)
			}
			r, err := matchOp(d, path, e.Key, e.Value, info)
			if err != nil {
				return false, err
			}
			res = res && r
		}
		info.see("$not")
		return !res, nil
	case "$exists":
		want := truthy(arg)
		cands, kind := Cands(d, path)
		if kind.NestedArr {
			info.ood("nested arrays on path")
		}
		if kind.FanOut {
			info.ood("$exists through fan-out")
		}
		found := false
		for _, c := range cands {
			if c != Missing {
				found = true
			}
		}
		info.see("$exists/" + pathKindName(kind) + "/" + strconv.FormatBool(found == want))
		return found == want, nil
	case "$type":
		types, numberClass, err := parseTypes(arg)
		if err != nil {
			return false, err
		}
		cands, kind := Cands(d, path)
		if kind.NestedArr {
			info.ood("nested arrays on path")
		}
		if kind.FanOut {
			info.ood("$type through fan-out")
		}
		res := false
		for _, c := range cands {
			if c == Missing {
				continue
			}
			t := TypeOf(c)
			if numberClass && Class(c) == CNumber {
				res = true
			}
			for _, w := range types {
				if w == t {
					res = true
				}
			}
		}
		info.see("$type/" + pathKindName(kind) + "/" + strconv.FormatBool(res))
		return res, nil
	case "$size":
		n, err := intArg("$size", arg)
		if err != nil {
			return false, err
		}
		if n < 0 {
			return false, reject("$size: negative")
		}
		vals, kind := Values(d, path)
		if kind.NestedArr {
			info.ood("nested arrays on path")
		}
		if kind.FanOut {
			info.ood("$size through fan-out")
		}
		res := false
		for _, v := range vals {
			if a, ok := v.(bson.A); ok && int64(len(a)) == n {
				res = true
			}
		}
		info.see("$size/" + pathKindName(kind) + "/" + strconv.FormatBool(res))
		return res, nil
	case "$all":
		arr, ok := arg.(bson.A)
		if !ok {
			return false, reject("$all: expected array")
		}
		cands, kind := Cands(d, path)
		if kind.NestedArr {
			info.ood("nested arrays on path")
		}
		if kind.FanOut {
			info.ood("$all through fan-out")
		}
		if len(arr) == 0 {
			return false, nil
		}
		res := true
		for _, v := range arr {
			if od, ok := isOperatorDoc(v); ok && len(od) > 0 {
				info.ood("$all with operator operand")
			}
			if _, ok := v.(bson.A); ok {
				info.ood("$all with array operand")
			}
			if v == nil {
				info.ood("$all with null operand")
			}
			one := false
			for _, c := range cands {
				if cmpPred("$eq", c, v, info) {
					one = true
				}
			}
			res = res && one
		}
		info.see("$all/" + pathKindName(kind) + "/" + strconv.FormatBool(res))
		return res, nil
	case "$elemMatch":
		q, ok := arg.(bson.D)
		if !ok {
			return false, reject("$elemMatch: expected document")
		}
		if len(q) == 0 {
			info.ood("empty $elemMatch")
			return false, nil
		}
		vals, kind := Values(d, path)
		if kind.NestedArr {
			info.ood("nested arrays on path")
		}
		if kind.FanOut {
			info.ood("$elemMatch through fan-out")
		}
		opForm := strings.HasPrefix(q[0].Key, "$")
		res := false
		for _, v := range vals {
			a, ok := v.(bson.A)
			if !ok {
				continue
			}
			for _, el := range a {
				if _, isArr := el.(bson.A); isArr {
					info.ood("nested array element under $elemMatch")
				}
				var r bool
				var err error
				if opForm {
					wrapped := bson.D{{Key: "item", Value: el}}
					r = true
					for _, e := range q {
						if !strings.HasPrefix(e.Key, "$") {
							return false, reject("$elemMatch: mixed operator and field form")
						}
						if e.Key == "$and" || e.Key == "$or" || e.Key == "$nor" {
							info.ood("logical operator directly inside $elemMatch")
						}
						one, err2 := matchOp(wrapped, "item", e.Key, e.Value, info)
						if err2 != nil {
							return false, err2
						}
						r = r && one
					}
				} else {
					ed, isDoc := el.(bson.D)
					if !isDoc {
						// still validate the query for well-formedness
						_, err = matchDocPrefixed(bson.D{}, q, info)
						if err != nil {
							return false, err
						}
						continue
					}
					r, err = matchDocPrefixed(ed, q, info)
					if err != nil {
						return false, err
					}
				}
				if r {
					res = true
				}
			}
		}
		info.see("$elemMatch/" + pathKindName(kind) + "/" + strconv.FormatBool(res))
		return res, nil
	case "$mod":
		arr, ok := arg.(bson.A)
		if !ok {
			return false, reject("$mod: expected array")
		}
		if len(arr) != 2 {
			return false, reject("$mod: expected two elements")
		}
		div, err := modArg(arr[0])
		if err != nil {
			return false, err
		}
		rem, err := modArg(arr[1])
		if err != nil {
			return false, err
		}
		if div == 0 {
			return false, reject("$mod: zero divisor")
		}
		cands, kind := Cands(d, path)
		if kind.NestedArr {
			info.ood("nested arrays on path")
		}
		if kind.FanOut {
			info.ood("$mod through fan-out")
		}
		res := false
		for _, c := range cands {
			n, ok := ToNum(c)
			if !ok || n.NaN || n.Inf != 0 {
				continue
			}
			t, fits := truncToInt64(n.Rat)
			if !fits {
				info.ood("$mod candidate outside int64")
				continue
			}
			if div == -1 { // avoid MinInt64 % -1 overflow
				if rem == 0 {
					res = true
				}
				continue
			}
			if t%div == rem {
				res = true
			}
		}
		info.see("$mod/" + pathKindName(kind) + "/" + strconv.FormatBool(res))
		return res, nil
	case "$bitsAllSet", "$bitsAllClear", "$bitsAnySet", "$bitsAnyClear":
		positions, err := bitPositions(op, arg, info)
		if err != nil {
			return false, err
		}
		cands, kind := Cands(d, path)
		if kind.NestedArr {
			info.ood("nested arrays on path")
		}
		if kind.FanOut {
			info.ood("$bits through fan-out")
		}
		res := false
		for _, c := range cands {
			get, ok := bitGetter(c, info)
			if !ok {
				continue
			}
			set := 0
			for _, p := range positions {
				if get(p) {
					set++
				}
			}
			clear := len(positions) - set
			var m bool
			switch op {
			case "$bitsAllSet":
				m = set == len(positions)
			case "$bitsAllClear":
				m = clear == len(positions)
			case "$bitsAnySet":
				m = set > 0
			case "$bitsAnyClear":
				m = clear > 0
			}
			if m {
				res = true
			}
		}
		info.see(op + "/" + pathKindName(kind) + "/" + strconv.FormatBool(res))
		return res, nil
	}
	return false, reject("unknown expression operator %q", op)
}

// matchDocPrefixed evaluates a field-form query against an element document.
func matchDocPrefixed(el bson.D, q bson.D, info *MatchInfo) (bool, error) {
	res := true
	for _, e := range q {
		if strings.HasPrefix(e.Key, "$") {
			// logical operators inside field-form $elemMatch: lungo does not
			// support them (README lists $elemMatch without nested logic)
			info.ood("operator key inside field-form $elemMatch")
			return false, reject("$elemMatch: mixed form")
		}
		r, err := matchField(el, e.Key, e.Value, info)
		if err != nil {
			return false, err
		}
		res = res && r
	}
	return res, nil
}

func cmpPred(op string, c, v interface{}, info *MatchInfo) bool {
	if _, isRe := v.(primitive.Regex); isRe {
		info.ood("regex operand")
	}
	if c == Missing {
		// a missing field only equals null
		if v == nil {
			return op == "$eq" || op == "$gte" || op == "$lte"
		}
		if _, ok := v.(primitive.Null); ok {
			return op == "$eq" || op == "$gte" || op == "$lte"
		}
		return false
	}
	if Class(c) != Class(v) {
		return false
	}
	if op != "$eq" && (IsNaNValue(c) || IsNaNValue(v)) {
		info.ood("ordered comparison with NaN")
	}
	if containsNaN(c) || containsNaN(v) {
		if op != "$eq" {
			info.ood("ordered comparison with nested NaN")
		}
	}
	r := Compare(c, v)
	switch op {
	case "$eq":
		return r == 0
	case "$gt":
		return r > 0
	case "$gte":
		return r >= 0
	case "$lt":
		return r < 0
	case "$lte":
		return r <= 0
	}
	return false
}

func containsNaN(v interface{}) bool {
	switch x := v.(type) {
	case bson.D:
		for _, e := range x {
			if containsNaN(e.Value) {
				return true
			}
		}
	case bson.A:
		for _, e := range x {
			if containsNaN(e) {
				return true
			}
		}
	default:
		return IsNaNValue(v)
	}
	return false
}

func truthy(v interface{}) bool {
	switch n := v.(type) {
	case bool:
		return n
	case nil:
		return false
	case primitive.Null:
		return false
	case int32:
		return n != 0
	case int64:
		return n != 0
	case float64:
		return n != 0
	case primitive.Decimal128:
		x, _ := ToNum(n)
		return x.NaN || x.Inf != 0 || x.Rat.Sign() != 0
	}
	return true
}

// TypeOf returns the BSON type alias of a value.
func TypeOf(v interface{}) string {
	switch v.(type) {
	case nil, primitive.Null:
		return "null"
	case int32:
		return "int"
	case int64:
		return "long"
	case float64:
		return "double"
	case primitive.Decimal128:
		return "decimal"
	case string:
		return "string"
	case bson.D:
		return "object"
	case bson.A:
		return "array"
	case primitive.Binary:
		return "binData"
	case primitive.ObjectID:
		return "objectId"
	case bool:
		return "bool"
	case primitive.DateTime:
		return "date"
	case primitive.Timestamp:
		return "timestamp"
	case primitive.Regex:
		return "regex"
	}
	return "?"
}

var typeNumbers = map[int64]string{
	1: "double", 2: "string", 3: "object", 4: "array", 5: "binData", 6: "undefined", 7: "objectId", 8: "bool", 9: "date",
	10: "null", 11: "regex", 12: "dbPointer", 13: "javascript", 14: "symbol", 15: "javascriptWithScope", 16: "int",
	17: "timestamp", 18: "long", 19: "decimal", 127: "maxKey", 255: "minKey",
}

var typeAliases = func() map[string]bool {
	m := map[string]bool{}
	for _, a := range typeNumbers {
		m[a] = true
	}
	return m
}()

func parseTypes(arg interface{}) (types []string, numberClass bool, err error) {
	var ops []interface{}
	if a, ok := arg.(bson.A); ok {
		if len(a) == 0 {
			return nil, false, reject("$type: empty array")
		}
		ops = a
	} else {
		ops = []interface{}{arg}
	}
	for _, o := range ops {
		switch t := o.(type) {
		case string:
			if t == "number" {
				numberClass = true
			} else if typeAliases[t] {
				types = append(types, t)
			} else {
				return nil, false, reject("$type: unknown alias %q", t)
			}
		case int32, int64, float64:
			n, e := intArg("$type", t)
			if e != nil {
				return nil, false, e
			}
			a, ok := typeNumbers[n]
			if !ok {
				return nil, false, reject("$type: unknown type number %d", n)
			}
			types = append(types, a)
		default:
			return nil, false, reject("$type: expected string or number")
		}
	}
	return
}

func intArg(name string, v interface{}) (int64, error) {
	switch n := v.(type) {
	case int32:
		return int64(n), nil
	case int64:
		return n, nil
	case float64:
		if math.IsNaN(n) || math.IsInf(n, 0) || n != math.Trunc(n) || n >= 9.3e18 || n <= -9.3e18 {
			return 0, reject("%s: expected integer", name)
		}
		return int64(n), nil
	}
	return 0, reject("%s: expected number", name)
}

func modArg(v interface{}) (int64, error) {
	switch n := v.(type) {
	case int32:
		return int64(n), nil
	case int64:
		return n, nil
	case float64:
		if math.IsNaN(n) || math.IsInf(n, 0) || n >= 9223372036854775808.0 || n < -9223372036854775808.0 {
			return 0, reject("$mod: bad operand")
		}
		return int64(math.Trunc(n)), nil
	}
	return 0, reject("$mod: operand must be a number")
}

func truncToInt64(r *big.Rat) (int64, bool) {
	q := new(big.Int).Quo(r.Num(), r.Denom()) // truncates toward zero
	if !q.IsInt64() {
		return 0, false
	}
	return q.Int64(), true
}

func bitPositions(name string, arg interface{}, info *MatchInfo) ([]uint, error) {
	switch m := arg.(type) {
	case int32, int64, float64:
		n, err := intArg(name, m)
		if err != nil {
			return nil, err
		}
		if n < 0 {
			return nil, reject("%s: negative mask", name)
		}
		var out []uint
		for i := uint(0); i < 64; i++ {
			if uint64(n)&(1<<i) != 0 {
				out = append(out, i)
			}
		}
		return out, nil
	case bson.A:
		var out []uint
		for _, it := range m {
			n, err := intArg(name, it)
			if err != nil {
				return nil, err
			}
			if n < 0 {
				return nil, reject("%s: negative position", name)
			}
			if n >= 64 {
				info.ood("bit position >= 64")
			}
			out = append(out, uint(n))
		}
		return out, nil
	case primitive.Binary:
		var out []uint
		for bi, b := range m.Data {
			for k := uint(0); k < 8; k++ {
				if b&(1<<k) != 0 {
					out = append(out, uint(bi)*8+k)
				}
			}
		}
		for _, p := range out {
			if p >= 64 {
				info.ood("bit position >= 64")
			}
		}
		return out, nil
	}
	return nil, reject("%s: expected number, array or binary", name)
}

func bitGetter(c interface{}, info *MatchInfo) (func(uint) bool, bool) {
	switch f := c.(type) {
	case int32:
		v := uint64(int64(f))
		return func(p uint) bool { return p < 64 && v&(1<<p) != 0 }, true
	case int64:
		v := uint64(f)
		return func(p uint) bool { return p < 64 && v&(1<<p) != 0 }, true
	case float64:
		if math.IsNaN(f) || math.IsInf(f, 0) || f != math.Trunc(f) || f >= 9223372036854775808.0 || f < -9223372036854775808.0 {
			return nil, false
		}
		v := uint64(int64(f))
		return func(p uint) bool { return p < 64 && v&(1<<p) != 0 }, true
	case primitive.Decimal128:
		info.ood("$bits on decimal128 candidate")
		return nil, false
	case primitive.Binary:
		data := f.Data
		return func(p uint) bool {
			bi := p / 8
			return int(bi) < len(data) && data[bi]&(1<<(p%8)) != 0
		}, true
	}
	return nil, false
}

// Schema subset ---------------------------------------------------------------

var jsonTypes = map[string]int{"null": CNull, "boolean": CBool, "number": CNumber, "string": CString, "object": CDocument, "array": CArray}

func schemaEval(s bson.D, v interface{}, info *MatchInfo) (bool, error) {
	res := true
	hasType, hasBson := false, false
	for _, kw := range s {
		switch kw.Key {
		case "type":
			hasType = true
		case "bsonType":
			hasBson = true
		}
	}
	if hasType && hasBson {
		return false, reject("$jsonSchema: type and bsonType")
	}
	for _, kw := range s {
		switch kw.Key {
		case "type":
			names, err := stringOrList(kw.Value)
			if err != nil {
				return false, reject("$jsonSchema: invalid type")
			}
			ok := false
			for _, n := range names {
				cl, known := jsonTypes[n]
				if !known {
					return false, reject("$jsonSchema: invalid type name")
				}
				if Class(v) == cl && v != Missing {
					ok = true
				}
			}
			res = res && ok
		case "bsonType":
			names, err := stringOrList(kw.Value)
			if err != nil {
				return false, reject("$jsonSchema: invalid bsonType")
			}
			ok := false
			for _, n := range names {
				if n == "number" {
					if Class(v) == CNumber {
						ok = true
					}
					continue
				}
				if !typeAliases[n] {
					return false, reject("$jsonSchema: invalid bsonType name")
				}
				if TypeOf(v) == n {
					ok = true
				}
			}
			res = res && ok
		case "enum":
			arr, isArr := kw.Value.(bson.A)
			if !isArr || len(arr) == 0 {
				info.ood("$jsonSchema enum shape")
				return false, reject("$jsonSchema: invalid enum")
			}
			ok := false
			for _, it := range arr {
				if Class(it) == Class(v) && Compare(it, v) == 0 {
					ok = true
				}
			}
			res = res && ok
		case "minimum", "maximum":
			lim, isNum := ToNum(kw.Value)
			if !isNum {
				return false, reject("$jsonSchema: invalid %s", kw.Key)
			}
			n, isNumV := ToNum(v)
			if !isNumV {
				continue
			}
			if n.NaN || lim.NaN {
				info.ood("$jsonSchema NaN bound")
				continue
			}
			c := CmpNum(n, lim)
			if kw.Key == "minimum" && c < 0 {
				res = false
			}
			if kw.Key == "maximum" && c > 0 {
				res = false
			}
		case "minItems", "maxItems":
			lim, err := intArg("$jsonSchema", kw.Value)
			if err != nil || lim < 0 {
				return false, reject("$jsonSchema: invalid %s", kw.Key)
			}
			a, isArr := v.(bson.A)
			if !isArr {
				continue
			}
			if kw.Key == "minItems" && int64(len(a)) < lim {
				res = false
			}
			if kw.Key == "maxItems" && int64(len(a)) > lim {
				res = false
			}
		case "required":
			arr, isArr := kw.Value.(bson.A)
			if !isArr || len(arr) == 0 {
				info.ood("$jsonSchema required shape")
				return false, reject("$jsonSchema: invalid required")
			}
			d, isDoc := v.(bson.D)
			for _, it := range arr {
				name, isStr := it.(string)
				if !isStr {
					return false, reject("$jsonSchema: invalid required element")
				}
				if !isDoc {
					continue
				}
				found := false
				for _, e := range d {
					if e.Key == name {
						found = true
					}
				}
				if !found {
					res = false
				}
			}
		case "properties":
			props, isDoc := kw.Value.(bson.D)
			if !isDoc {
				return false, reject("$jsonSchema: invalid properties")
			}
			d, vIsDoc := v.(bson.D)
			for _, p := range props {
				sub, ok := p.Value.(bson.D)
				if !ok {
					return false, reject("$jsonSchema: invalid property schema")
				}
				if !vIsDoc {
					// validate sub-schema shape lazily only: out of domain
					info.ood("$jsonSchema properties on non-document")
					continue
				}
				for _, e := range d {
					if e.Key == p.Key {
						r, err := schemaEval(sub, e.Value, info)
						if err != nil {
							return false, err
						}
						res = res && r
					}
				}
			}
		default:
			info.ood("$jsonSchema keyword outside subset: " + kw.Key)
		}
	}
	return res, nil
}

func stringOrList(v interface{}) ([]string, error) {
	switch x := v.(type) {
	case string:
		return []string{x}, nil
	case bson.A:
		if len(x) == 0 {
			return nil, fmt.Errorf("empty")
		}
		var out []string
		for _, it := range x {
			s, ok := it.(string)
			if !ok {
				return nil, fmt.Errorf("non-string")
			}
			out = append(out, s)
		}
		return out, nil
	}
	return nil, fmt.Errorf("bad")
}
