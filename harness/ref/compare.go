// Package ref is an independent reference implementation of the fragments of
// MongoDB semantics described in DESIGN.md section 8. It shares no code with
// bsonkit/mongokit.
package ref

import (
	"bytes"
	"math"
	"math/big"
	"strings"
	"sync"

	"go.mongodb.org/mongo-driver/bson"
	"go.mongodb.org/mongo-driver/bson/primitive"
)

// Missing marks an absent field in reference computations.
type missingT struct{}

var Missing = missingT{}

// Class ranks (MongoDB comparison order).
const (
	CNull = iota
	CNumber
	CString
	CDocument
	CArray
	CBinary
	CObjectID
	CBool
	CDate
	CTimestamp
	CRegex
	CUnknown
)

// Class returns the comparison class of a value.
func Class(v interface{}) int {
	switch v.(type) {
	case nil, primitive.Null, missingT:
		return CNull
	case int32, int64, float64, primitive.Decimal128:
		return CNumber
	case string:
		return CString
	case bson.D:
		return CDocument
	case bson.A:
		return CArray
	case primitive.Binary:
		return CBinary
	case primitive.ObjectID:
		return CObjectID
	case bool:
		return CBool
	case primitive.DateTime:
		return CDate
	case primitive.Timestamp:
		return CTimestamp
	case primitive.Regex:
		return CRegex
	}
	return CUnknown
}

// Num is an exact extended number.
type Num struct {
	NaN bool
	Inf int // -1, 0, +1
	Rat *big.Rat
}

var pow10cache = map[int]*big.Int{}
var pow10mu sync.Mutex

func pow10(n int) *big.Int {
	pow10mu.Lock()
	defer pow10mu.Unlock()
	if v, ok := pow10cache[n]; ok {
		return v
	}
	v := new(big.Int).Exp(big.NewInt(10), big.NewInt(int64(n)), nil)
	if len(pow10cache) < 4096 {
		pow10cache[n] = v
	}
	return v
}

// ToNum converts a numeric BSON value into an exact number.
func ToNum(v interface{}) (Num, bool) {
	switch n := v.(type) {
	case int32:
		return Num{Rat: new(big.Rat).SetInt64(int64(n))}, true
	case int64:
		return Num{Rat: new(big.Rat).SetInt64(n)}, true
	case float64:
		if math.IsNaN(n) {
			return Num{NaN: true}, true
		}
		if math.IsInf(n, 1) {
			return Num{Inf: 1}, true
		}
		if math.IsInf(n, -1) {
			return Num{Inf: -1}, true
		}
		r := new(big.Rat)
		r.SetFloat64(n)
		return Num{Rat: r}, true
	case primitive.Decimal128:
		if n.IsNaN() {
			return Num{NaN: true}, true
		}
		if s := n.IsInf(); s != 0 {
			return Num{Inf: s}, true
		}
		bi, exp, err := n.BigInt()
		if err != nil {
			return Num{NaN: true}, true
		}
		r := new(big.Rat)
		if exp >= 0 {
			r.SetInt(new(big.Int).Mul(bi, pow10(exp)))
		} else {
			r.SetFrac(bi, pow10(-exp))
		}
		return Num{Rat: r}, true
	}
	return Num{}, false
}

// CmpNum orders extended numbers: NaN < -Inf < finite < +Inf, NaN == NaN.
func CmpNum(a, b Num) int {
	if a.NaN || b.NaN {
		if a.NaN && b.NaN {
			return 0
		}
		if a.NaN {
			return -1
		}
		return 1
	}
	if a.Inf != 0 || b.Inf != 0 {
		if a.Inf == b.Inf {
			return 0
		}
		if a.Inf < b.Inf {
			return -1
		}
		return 1
	}
	return a.Rat.Cmp(b.Rat)
}

func sgn(i int) int {
	if i < 0 {
		return -1
	}
	if i > 0 {
		return 1
	}
	return 0
}

// Compare is the reference total order over BSON values (DESIGN.md 8.1).
func Compare(a, b interface{}) int {
	ca, cb := Class(a), Class(b)
	if ca != cb {
		if ca < cb {
			return -1
		}
		return 1
	}
	switch ca {
	case CNull:
		return 0
	case CNumber:
		x, _ := ToNum(a)
		y, _ := ToNum(b)
		return CmpNum(x, y)
	case CString:
		return sgn(strings.Compare(a.(string), b.(string)))
	case CDocument:
		x, y := a.(bson.D), b.(bson.D)
		for i := 0; i < len(x) && i < len(y); i++ {
			if c := strings.Compare(x[i].Key, y[i].Key); c != 0 {
				return sgn(c)
			}
			if c := Compare(x[i].Value, y[i].Value); c != 0 {
				return c
			}
		}
		return sgn(len(x) - len(y))
	case CArray:
		x, y := a.(bson.A), b.(bson.A)
		for i := 0; i < len(x) && i < len(y); i++ {
			if c := Compare(x[i], y[i]); c != 0 {
				return c
			}
		}
		return sgn(len(x) - len(y))
	case CBinary:
		x, y := a.(primitive.Binary), b.(primitive.Binary)
		if len(x.Data) != len(y.Data) {
			return sgn(len(x.Data) - len(y.Data))
		}
		if x.Subtype != y.Subtype {
			return sgn(int(x.Subtype) - int(y.Subtype))
		}
		return sgn(bytes.Compare(x.Data, y.Data))
	case CObjectID:
		x, y := a.(primitive.ObjectID), b.(primitive.ObjectID)
		return sgn(bytes.Compare(x[:], y[:]))
	case CBool:
		x, y := a.(bool), b.(bool)
		if x == y {
			return 0
		}
		if !x {
			return -1
		}
		return 1
	case CDate:
		x, y := a.(primitive.DateTime), b.(primitive.DateTime)
		if x < y {
			return -1
		} else if x > y {
			return 1
		}
		return 0
	case CTimestamp:
		x, y := a.(primitive.Timestamp), b.(primitive.Timestamp)
		if x.T != y.T {
			if x.T < y.T {
				return -1
			}
			return 1
		}
		if x.I != y.I {
			if x.I < y.I {
				return -1
			}
			return 1
		}
		return 0
	case CRegex:
		x, y := a.(primitive.Regex), b.(primitive.Regex)
		if c := strings.Compare(x.Pattern, y.Pattern); c != 0 {
			return sgn(c)
		}
		return sgn(strings.Compare(x.Options, y.Options))
	}
	panic("ref.Compare: unsupported value")
}

// Equal is reference equality.
func Equal(a, b interface{}) bool { return Compare(a, b) == 0 }

// IsNaNValue reports whether v is a NaN of either floating type.
func IsNaNValue(v interface{}) bool {
	n, ok := ToNum(v)
	return ok && n.NaN
}

// NonFinite reports whether v is NaN or an infinity.
func NonFinite(v interface{}) bool {
	n, ok := ToNum(v)
	return ok && (n.NaN || n.Inf != 0)
}
