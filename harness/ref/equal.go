package ref

import (
	"bytes"
	"fmt"

	"go.mongodb.org/mongo-driver/bson"
	"go.mongodb.org/mongo-driver/bson/primitive"
)

// ScalarSame: same BSON type and same value; decimal128 values are compared
// numerically (cohort/exponent is not asserted), everything else bytewise.
func ScalarSame(a, b interface{}) bool {
	if TypeOfM(a) != TypeOfM(b) {
		return false
	}
	if _, ok := a.(primitive.Decimal128); ok {
		x, _ := ToNum(a)
		y, _ := ToNum(b)
		return CmpNum(x, y) == 0 && x.NaN == y.NaN
	}
	ab, err1 := bson.Marshal(bson.D{{Key: "v", Value: a}})
	bb, err2 := bson.Marshal(bson.D{{Key: "v", Value: b}})
	return err1 == nil && err2 == nil && bytes.Equal(ab, bb)
}

// SameValue is deep equality with exact field order (types exact, decimals by value).
func SameValue(a, b interface{}) bool {
	switch x := a.(type) {
	case bson.D:
		y, ok := b.(bson.D)
		if !ok || len(x) != len(y) {
			return false
		}
		for i := range x {
			if x[i].Key != y[i].Key || !SameValue(x[i].Value, y[i].Value) {
				return false
			}
		}
		return true
	case bson.A:
		y, ok := b.(bson.A)
		if !ok || len(x) != len(y) {
			return false
		}
		for i := range x {
			if !SameValue(x[i], y[i]) {
				return false
			}
		}
		return true
	}
	switch b.(type) {
	case bson.D, bson.A:
		return false
	}
	return ScalarSame(a, b)
}

// SameFieldSet is deep equality that ignores field order in documents
// (arrays stay ordered).
func SameFieldSet(a, b interface{}) bool {
	switch x := a.(type) {
	case bson.D:
		y, ok := b.(bson.D)
		if !ok || len(x) != len(y) {
			return false
		}
		for _, e := range x {
			found := false
			for _, f := range y {
				if e.Key == f.Key {
					if !SameFieldSet(e.Value, f.Value) {
						return false
					}
					found = true
					break
				}
			}
			if !found {
				return false
			}
		}
		return true
	case bson.A:
		y, ok := b.(bson.A)
		if !ok || len(x) != len(y) {
			return false
		}
		for i := range x {
			if !SameFieldSet(x[i], y[i]) {
				return false
			}
		}
		return true
	}
	switch b.(type) {
	case bson.D, bson.A:
		return false
	}
	return ScalarSame(a, b)
}

// EqualModNew compares got with want relative to the pre-image: fields that
// existed in pre must keep their relative order and all values must be equal;
// the mutual order of fields that did not exist in pre is not asserted.
// loose drops the order assertion entirely.
func EqualModNew(pre, got, want interface{}, loose bool) (bool, string) {
	switch w := want.(type) {
	case bson.D:
		g, ok := got.(bson.D)
		if !ok {
			return false, fmt.Sprintf("expected a document, got %s", TypeOfM(got))
		}
		if len(g) != len(w) {
			return false, fmt.Sprintf("document has %d fields, expected %d", len(g), len(w))
		}
		p, _ := pre.(bson.D)
		inPre := func(k string) (interface{}, bool) {
			for _, e := range p {
				if e.Key == k {
					return e.Value, true
				}
			}
			return Missing, false
		}
		var gOld, wOld []string
		for _, e := range g {
			if _, ok := inPre(e.Key); ok {
				gOld = append(gOld, e.Key)
			}
		}
		for _, e := range w {
			if _, ok := inPre(e.Key); ok {
				wOld = append(wOld, e.Key)
			}
		}
		if !loose {
			if len(gOld) != len(wOld) {
				return false, "different set of surviving fields"
			}
			for i := range gOld {
				if gOld[i] != wOld[i] {
					return false, fmt.Sprintf("pre-existing fields reordered: got %v, expected %v", gOld, wOld)
				}
			}
		}
		for _, e := range w {
			var gv interface{} = Missing
			found := false
			for _, f := range g {
				if f.Key == e.Key {
					gv = f.Value
					found = true
					break
				}
			}
			if !found {
				return false, fmt.Sprintf("field %q missing in result", e.Key)
			}
			pv, _ := inPre(e.Key)
			if ok, why := EqualModNew(pv, gv, e.Value, loose); !ok {
				return false, e.Key + ": " + why
			}
		}
		return true, ""
	case bson.A:
		g, ok := got.(bson.A)
		if !ok {
			return false, fmt.Sprintf("expected an array, got %s", TypeOfM(got))
		}
		if len(g) != len(w) {
			return false, fmt.Sprintf("array has %d elements, expected %d", len(g), len(w))
		}
		p, _ := pre.(bson.A)
		for i := range w {
			var pv interface{} = Missing
			if len(p) == len(w) {
				pv = p[i]
			}
			if ok, why := EqualModNew(pv, g[i], w[i], loose); !ok {
				return false, fmt.Sprintf("[%d]: %s", i, why)
			}
		}
		return true, ""
	}
	switch got.(type) {
	case bson.D, bson.A:
		return false, fmt.Sprintf("expected a %s, got %s", TypeOfM(want), TypeOfM(got))
	}
	if !ScalarSame(got, want) {
		return false, fmt.Sprintf("value differs: got %s %v, expected %s %v", TypeOfM(got), got, TypeOfM(want), want)
	}
	return true, ""
}
