package ref

import (
	"go.mongodb.org/mongo-driver/bson"
)

// KeyCol is one field of an index key.
type KeyCol struct {
	Path string
	Dir  int
}

// KeyCols parses an index key document ({path: 1|-1, ...}).
func KeyCols(key bson.D) []KeyCol {
	cols := make([]KeyCol, 0, len(key))
	for _, e := range key {
		dir := 1
		if n, ok := ToNum(e.Value); ok && n.Rat != nil && n.Rat.Sign() < 0 {
			dir = -1
		}
		cols = append(cols, KeyCol{Path: e.Key, Dir: dir})
	}
	return cols
}

// IndexTuples returns the key tuples of a document under an index key
// (DESIGN.md 8.5): per field the values at the path, arrays expanded to their
// elements, the empty array kept as itself, missing as null; Cartesian product
// over the fields. ood reports shapes outside the asserted domain (fan-out
// through arrays of sub-documents, nested arrays, more than one array-valued
// field).
func IndexTuples(d bson.D, cols []KeyCol) (tuples [][]interface{}, ood bool) {
	tuples = [][]interface{}{{}}
	arrays := 0
	for _, c := range cols {
		vals, kind := Values(d, c.Path)
		if kind.FanOut || kind.NestedArr {
			ood = true
		}
		var expanded []interface{}
		for _, v := range vals {
			if v == Missing {
				expanded = append(expanded, nil)
				continue
			}
			if a, ok := v.(bson.A); ok {
				arrays++
				if len(a) == 0 {
					expanded = append(expanded, a)
				} else {
					expanded = append(expanded, a...)
				}
				continue
			}
			expanded = append(expanded, v)
		}
		var next [][]interface{}
		for _, t := range tuples {
			for _, v := range expanded {
				nt := append(append([]interface{}{}, t...), v)
				next = append(next, nt)
			}
		}
		tuples = next
	}
	if arrays > 1 {
		ood = true
	}
	return tuples, ood
}

// CompareTuples orders two key tuples under the column directions.
func CompareTuples(a, b []interface{}, cols []KeyCol) int {
	for i := range cols {
		r := Compare(a[i], b[i])
		if cols[i].Dir < 0 {
			r = -r
		}
		if r != 0 {
			return r
		}
	}
	return 0
}

// MinTuple returns the smallest tuple under the column directions.
func MinTuple(ts [][]interface{}, cols []KeyCol) []interface{} {
	best := ts[0]
	for _, t := range ts[1:] {
		if CompareTuples(t, best, cols) < 0 {
			best = t
		}
	}
	return best
}

// TuplesShare reports whether two tuple sets share a tuple (BSON equality per
// component).
func TuplesShare(a, b [][]interface{}) bool {
	for _, x := range a {
		for _, y := range b {
			eq := true
			for i := range x {
				if Compare(x[i], y[i]) != 0 {
					eq = false
					break
				}
			}
			if eq {
				return true
			}
		}
	}
	return false
}
