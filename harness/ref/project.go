package ref

import (
	"strings"

	"go.mongodb.org/mongo-driver/bson"
)

// ProjInfo describes a projection evaluation.
type ProjInfo struct {
	OutOfDomain bool
	Why         string
	Inclusion   bool
	// Overlap is set when two projection paths are equal or nested.
	Overlap bool
	// Special lists the paths rewritten by $slice / $elemMatch.
	Special map[string]bool
	// Requested lists the top-level keys an inclusion projection may return.
	Requested map[string]bool
}

func (p *ProjInfo) ood(why string) {
	if !p.OutOfDomain {
		p.OutOfDomain = true
		p.Why = why
	}
}

func projFlag(v interface{}) (include bool, ok bool) {
	switch b := v.(type) {
	case bool:
		return b, true
	case int32:
		if b == 0 || b == 1 {
			return b == 1, true
		}
	case int64:
		if b == 0 || b == 1 {
			return b == 1, true
		}
	case float64:
		if b == 0 || b == 1 {
			return b == 1, true
		}
	}
	return false, false
}

// passesArray reports whether a dotted path meets an array before its end.
func passesArray(d bson.D, path string) bool {
	segs := strings.Split(path, ".")
	for i := 1; i < len(segs); i++ {
		if _, ok := getAt(d, segs[:i]).(bson.A); ok {
			return true
		}
	}
	return false
}

// Project is the reference projection (DESIGN.md 8.4).
func Project(d bson.D, proj bson.D, info *ProjInfo) (bson.D, error) {
	if info.Special == nil {
		info.Special = map[string]bool{}
	}
	if info.Requested == nil {
		info.Requested = map[string]bool{"_id": true}
	}
	var include, exclude []string
	hideID, showID := false, false
	type special struct {
		path string
		op   string
		arg  interface{}
	}
	var specials []special
	for _, e := range proj {
		if e.Key == "" || strings.HasPrefix(e.Key, "$") {
			info.ood("operator or empty key at projection root")
			return nil, reject("bad projection key")
		}
		for _, s := range strings.Split(e.Key, ".") {
			if _, isIdx := isIndex(s); isIdx {
				info.ood("numeric path segment in projection")
			}
			if s == "" {
				info.ood("empty path segment")
			}
		}
		if od, ok := isOperatorDoc(e.Value); ok {
			if len(od) != 1 {
				info.ood("several projection operators on one field")
			}
			switch od[0].Key {
			case "$slice", "$elemMatch":
				specials = append(specials, special{e.Key, od[0].Key, od[0].Value})
			default:
				return nil, reject("unknown projection operator")
			}
			continue
		}
		inc, ok := projFlag(e.Value)
		if !ok {
			info.ood("projection value other than 0/1/true/false")
			return nil, reject("invalid projection value")
		}
		if e.Key == "_id" {
			if inc {
				showID = true
				include = append(include, "_id")
			} else {
				hideID = true
			}
			continue
		}
		if inc {
			include = append(include, e.Key)
		} else {
			exclude = append(exclude, e.Key)
		}
	}
	for _, s := range specials {
		if s.op == "$elemMatch" {
			include = append(include, "\x00"+s.path) // inclusion style, value supplied below
		}
	}
	if len(include) > 0 && len(exclude) > 0 {
		if showID && len(include) == 1 {
			info.ood("_id:1 with exclusions")
		}
		return nil, reject("mix of inclusion and exclusion")
	}
	// overlapping paths
	var all []string
	all = append(all, include...)
	all = append(all, exclude...)
	for _, s := range specials {
		if s.op != "$elemMatch" { // already listed through include
			all = append(all, s.path)
		}
	}
	for i := range all {
		for j := range all {
			a, b := strings.TrimPrefix(all[i], "\x00"), strings.TrimPrefix(all[j], "\x00")
			if i != j && (a == b || strings.HasPrefix(a, b+".")) {
				info.ood("overlapping projection paths")
				info.Overlap = true
			}
		}
	}
	var res bson.D
	if len(include) > 0 {
		info.Inclusion = true
		res = bson.D{}
		if id := getAt(d, []string{"_id"}); id != Missing {
			res = append(res, bson.E{Key: "_id", Value: cloneV(id)})
		}
		for _, p := range include {
			if strings.HasPrefix(p, "\x00") || p == "_id" {
				info.Requested[strings.SplitN(strings.TrimPrefix(p, "\x00"), ".", 2)[0]] = true
				continue
			}
			info.Requested[strings.SplitN(p, ".", 2)[0]] = true
			if passesArray(d, p) {
				info.ood("inclusion path through an array")
			}
			v := GetPath(d, p)
			if v == Missing {
				// MongoDB keeps the (emptied) parent documents of a missing leaf
				segs := strings.Split(p, ".")
				if len(segs) > 1 {
					if _, parentIsDoc := getAt(d, segs[:len(segs)-1]).(bson.D); parentIsDoc {
						info.ood("missing leaf below an existing embedded document")
					} else if getAt(d, segs[:1]) != Missing {
						info.ood("missing leaf below an existing field")
					}
				}
				continue
			}
			nv, ok := setAt(res, strings.Split(p, "."), cloneV(v))
			if !ok {
				info.ood("inclusion paths collide")
				continue
			}
			res = nv.(bson.D)
		}
	} else {
		res = cloneV(d).(bson.D)
		for _, p := range exclude {
			if passesArray(d, p) {
				info.ood("exclusion path through an array")
			}
			nv, _ := unsetAt(res, strings.Split(p, "."))
			res = nv.(bson.D)
		}
	}
	for _, s := range specials {
		info.Special[s.path] = true
		info.Requested[strings.SplitN(s.path, ".", 2)[0]] = true
		if passesArray(d, s.path) {
			info.ood("projection operator path through an array")
		}
		cur := GetPath(d, s.path)
		arr, isArr := cur.(bson.A)
		switch s.op {
		case "$slice":
			var window bson.A
			switch a := s.arg.(type) {
			case int32, int64, float64:
				n, err := intArg("$slice", a)
				if err != nil {
					info.ood("fractional $slice")
					return nil, err
				}
				if !isArr {
					break
				}
				switch {
				case n == 0:
					window = bson.A{}
				case n > 0:
					if n < int64(len(arr)) {
						window = arr[:n]
					} else {
						window = arr
					}
				default:
					if -n < int64(len(arr)) && n > -1<<62 {
						window = arr[int64(len(arr))+n:]
					} else {
						window = arr
					}
				}
			case bson.A:
				if len(a) != 2 {
					return nil, reject("$slice: array argument needs two elements")
				}
				sk, err1 := intArg("$slice", a[0])
				lim, err2 := intArg("$slice", a[1])
				if err1 != nil || err2 != nil {
					info.ood("non-integer $slice arguments")
					return nil, reject("$slice: bad arguments")
				}
				if lim < 0 {
					return nil, reject("$slice: negative limit")
				}
				if lim == 0 {
					info.ood("$slice with limit 0")
				}
				if !isArr {
					break
				}
				n := int64(len(arr))
				start := sk
				if sk < 0 {
					start = n + sk
					if start < 0 {
						start = 0
					}
				} else if start > n {
					start = n
				}
				end := start + lim
				if end > n || end < start {
					end = n
				}
				window = arr[start:end]
			default:
				return nil, reject("$slice: bad argument")
			}
			if !isArr {
				if info.Inclusion {
					info.ood("$slice on a non-array within an inclusion projection")
				}
				continue
			}
			nv, ok := setAt(res, strings.Split(s.path, "."), cloneV(window))
			if !ok {
				info.ood("$slice path collides")
				continue
			}
			res = nv.(bson.D)
		case "$elemMatch":
			q, ok := s.arg.(bson.D)
			if !ok {
				return nil, reject("$elemMatch: expected document")
			}
			if len(exclude) > 0 {
				info.ood("$elemMatch within an exclusion projection")
			}
			if !isArr {
				continue
			}
			mi := &MatchInfo{}
			for _, el := range arr {
				m, err := Match(bson.D{{Key: "item", Value: bson.A{el}}}, bson.D{{Key: "item", Value: bson.D{{Key: "$elemMatch", Value: q}}}}, mi)
				if err != nil {
					return nil, err
				}
				if m {
					nv, ok := setAt(res, strings.Split(s.path, "."), bson.A{cloneV(el)})
					if ok {
						res = nv.(bson.D)
					}
					break
				}
			}
			if mi.OutOfDomain {
				info.ood("$elemMatch condition outside the match domain: " + mi.Why)
			}
		}
	}
	if hideID {
		nv, _ := unsetAt(res, []string{"_id"})
		res = nv.(bson.D)
	}
	return res, nil
}
