package ref

import (
	"math"
	"math/big"
	"sort"
	"strconv"
	"strings"

	"go.mongodb.org/mongo-driver/bson"
	"go.mongodb.org/mongo-driver/bson/primitive"
)

// ApplyInfo carries domain information of one reference update.
type ApplyInfo struct {
	OutOfDomain bool
	Why         string
	// AdoptPaths lists paths whose value cannot be predicted ($currentDate):
	// the real value is adopted after a type check.
	AdoptPaths map[string]string // path -> "date" | "timestamp"
	// LooseOrder is set when the position of a pre-existing field is not
	// asserted ($rename onto an existing field).
	LooseOrder bool
	Ops        map[string]int
}

func (a *ApplyInfo) ood(why string) {
	if !a.OutOfDomain {
		a.OutOfDomain = true
		a.Why = why
	}
}

func cloneV(v interface{}) interface{} {
	switch x := v.(type) {
	case bson.D:
		c := make(bson.D, len(x))
		for i, e := range x {
			c[i] = bson.E{Key: e.Key, Value: cloneV(e.Value)}
		}
		return c
	case bson.A:
		c := make(bson.A, len(x))
		for i, e := range x {
			c[i] = cloneV(e)
		}
		return c
	}
	return v
}

// getAt reads the value at a dotted path (keys and array indexes, no fan-out).
func getAt(v interface{}, segs []string) interface{} {
	if len(segs) == 0 {
		return v
	}
	switch x := v.(type) {
	case bson.D:
		for _, e := range x {
			if e.Key == segs[0] {
				return getAt(e.Value, segs[1:])
			}
		}
	case bson.A:
		if i, ok := isIndex(segs[0]); ok && i < len(x) {
			return getAt(x[i], segs[1:])
		}
	}
	return Missing
}

// GetPath reads the value at the path of a document.
func GetPath(d bson.D, path string) interface{} { return getAt(d, strings.Split(path, ".")) }

// setAt returns a copy of v with value stored at the path; ok=false rejects.
func setAt(v interface{}, segs []string, val interface{}) (interface{}, bool) {
	if len(segs) == 0 {
		return val, true
	}
	seg := segs[0]
	switch x := v.(type) {
	case bson.D:
		for i, e := range x {
			if e.Key == seg {
				nv, ok := setAt(e.Value, segs[1:], val)
				if !ok {
					return nil, false
				}
				c := append(bson.D{}, x...)
				c[i].Value = nv
				return c, true
			}
		}
		nv, ok := setAt(Missing, segs[1:], val)
		if !ok {
			return nil, false
		}
		return append(append(bson.D{}, x...), bson.E{Key: seg, Value: nv}), true
	case bson.A:
		i, ok := isIndex(seg)
		if !ok {
			return nil, false
		}
		if i > len(x)+100000 {
			return nil, false
		}
		c := append(bson.A{}, x...)
		for len(c) <= i {
			c = append(c, nil)
		}
		var cur interface{} = Missing
		if i < len(x) {
			cur = x[i]
		}
		nv, ok := setAt(cur, segs[1:], val)
		if !ok {
			return nil, false
		}
		c[i] = nv
		return c, true
	case missingT:
		nv, ok := setAt(Missing, segs[1:], val)
		if !ok {
			return nil, false
		}
		return bson.D{{Key: seg, Value: nv}}, true
	}
	return nil, false // cannot descend into a scalar or null
}

// unsetAt removes the value at the path (array elements become null).
func unsetAt(v interface{}, segs []string) (interface{}, bool) {
	seg := segs[0]
	switch x := v.(type) {
	case bson.D:
		for i, e := range x {
			if e.Key == seg {
				if len(segs) == 1 {
					c := append(bson.D{}, x[:i]...)
					return append(c, x[i+1:]...), true
				}
				nv, changed := unsetAt(e.Value, segs[1:])
				if !changed {
					return v, false
				}
				c := append(bson.D{}, x...)
				c[i].Value = nv
				return c, true
			}
		}
	case bson.A:
		if i, ok := isIndex(seg); ok && i < len(x) {
			if len(segs) == 1 {
				c := append(bson.A{}, x...)
				c[i] = nil
				return c, true
			}
			nv, changed := unsetAt(x[i], segs[1:])
			if !changed {
				return v, false
			}
			c := append(bson.A{}, x...)
			c[i] = nv
			return c, true
		}
	}
	return v, false
}

type opPath struct {
	op   string
	path string
	arg  interface{}
}

func hasIndexSeg(path string) bool {
	for _, s := range strings.Split(path, ".") {
		if _, ok := isIndex(s); ok {
			return true
		}
	}
	return false
}

// resolvePositional expands $[] and $[id] segments against the document.
func resolvePositional(d bson.D, path string, filters []bson.D, info *ApplyInfo) ([]string, error) {
	segs := strings.Split(path, ".")
	var out []string
	var rec func(prefix []string, rest []string) error
	rec = func(prefix []string, rest []string) error {
		for i, s := range rest {
			if strings.HasPrefix(s, "$") {
				if i == 0 && len(prefix) == 0 {
					return reject("positional operator at path root")
				}
				head := append(append([]string{}, prefix...), rest[:i]...)
				cur := getAt(d, head)
				arr, ok := cur.(bson.A)
				if !ok {
					return reject("positional operator on a non-array")
				}
				if s == "$" {
					info.ood("bare positional operator")
					return reject("bare positional operator unsupported")
				}
				if !strings.HasPrefix(s, "$[") || !strings.HasSuffix(s, "]") {
					return reject("unknown positional operator")
				}
				id := s[2 : len(s)-1]
				var bound []bson.D
				if id != "" {
					for _, f := range filters {
						for _, e := range f {
							if e.Key == id || strings.HasPrefix(e.Key, id+".") {
								bound = append(bound, f)
								break
							}
						}
					}
					if len(bound) == 0 {
						return reject("unbound array filter identifier")
					}
					if len(bound) > 1 {
						info.ood("several array filters for one identifier")
					}
				}
				for idx, el := range arr {
					if id != "" {
						m := false
						for _, f := range bound {
							mi := &MatchInfo{}
							r, err := Match(bson.D{{Key: id, Value: el}}, f, mi)
							if err != nil {
								return err
							}
							if mi.OutOfDomain {
								info.ood("array filter outside the match domain: " + mi.Why)
							}
							if r {
								m = true
							}
						}
						if !m {
							continue
						}
					}
					np := append(append([]string{}, head...), strconv.Itoa(idx))
					if err := rec(np, rest[i+1:]); err != nil {
						return err
					}
				}
				return nil
			}
		}
		out = append(out, strings.Join(append(append([]string{}, prefix...), rest...), "."))
		return nil
	}
	if err := rec(nil, segs); err != nil {
		return nil, err
	}
	return out, nil
}

func pathsConflict(a, b string) bool {
	if a == b {
		return true
	}
	return strings.HasPrefix(a, b+".") || strings.HasPrefix(b, a+".")
}

// Apply applies an update document (operator form) to a document.
func Apply(doc bson.D, update bson.D, arrayFilters []bson.D, upsert bool, info *ApplyInfo) (bson.D, error) {
	if info == nil {
		info = &ApplyInfo{}
	}
	if info.AdoptPaths == nil {
		info.AdoptPaths = map[string]string{}
	}
	if info.Ops == nil {
		info.Ops = map[string]int{}
	}
	if len(update) == 0 {
		return nil, reject("empty update")
	}
	cur := cloneV(doc).(bson.D)
	// a positional path and another path into the same array: MongoDB rejects
	// this statically as a conflict at the array; not asserted either way
	var rawPaths []string
	for _, op := range update {
		if args, ok := op.Value.(bson.D); ok {
			for _, f := range args {
				rawPaths = append(rawPaths, f.Key)
				if s, isStr := f.Value.(string); isStr && op.Key == "$rename" {
					rawPaths = append(rawPaths, s)
				}
			}
		}
	}
	for i, p := range rawPaths {
		k := strings.Index(p, ".$")
		if k < 0 {
			continue
		}
		head := p[:k]
		for j, q := range rawPaths {
			if i != j && (q == head || strings.HasPrefix(q, head+".")) {
				info.ood("positional path next to another path into the same array")
			}
		}
	}
	var touched []string
	record := func(p string) error {
		for _, t := range touched {
			if pathsConflict(t, p) {
				return reject("conflicting paths %q and %q", t, p)
			}
		}
		touched = append(touched, p)
		return nil
	}
	for _, op := range update {
		if !strings.HasPrefix(op.Key, "$") {
			return nil, reject("non-operator key %q in update", op.Key)
		}
		args, ok := op.Value.(bson.D)
		if !ok {
			return nil, reject("%s: expected document", op.Key)
		}
		if !knownUpdateOps[op.Key] {
			return nil, reject("unknown update operator %q", op.Key)
		}
		if len(args) == 0 {
			info.ood("empty operator document")
		}
		for _, fld := range args {
			if fld.Key == "" {
				info.ood("empty path")
				return nil, reject("empty path")
			}
			paths, err := resolvePositional(cur, fld.Key, arrayFilters, info)
			if err != nil {
				return nil, err
			}
			for _, p := range paths {
				info.Ops[op.Key]++
				var nerr error
				cur, nerr = applyOne(cur, op.Key, p, fld.Value, upsert, info, record)
				if nerr != nil {
					return nil, nerr
				}
			}
		}
	}
	if Compare(getAt(doc, []string{"_id"}), getAt(cur, []string{"_id"})) != 0 || TypeOfM(getAt(doc, []string{"_id"})) != TypeOfM(getAt(cur, []string{"_id"})) {
		if !upsert || getAt(doc, []string{"_id"}) != Missing {
			return nil, reject("_id is immutable")
		}
	}
	return cur, nil
}

// TypeOfM is TypeOf with a marker for Missing.
func TypeOfM(v interface{}) string {
	if v == Missing {
		return "missing"
	}
	return TypeOf(v)
}

var knownUpdateOps = map[string]bool{"$set": true, "$setOnInsert": true, "$unset": true, "$rename": true, "$inc": true, "$mul": true, "$min": true, "$max": true,
	"$currentDate": true, "$push": true, "$pop": true, "$pull": true, "$pullAll": true, "$addToSet": true, "$bit": true}

func applyOne(cur bson.D, op, path string, arg interface{}, upsert bool, info *ApplyInfo, record func(string) error) (bson.D, error) {
	segs := strings.Split(path, ".")
	for _, s := range segs {
		if s == "" {
			info.ood("empty path segment")
			return nil, reject("empty path segment")
		}
	}
	set := func(val interface{}) (bson.D, error) {
		nv, ok := setAt(cur, segs, val)
		if !ok {
			return nil, reject("cannot set %q", path)
		}
		return nv.(bson.D), nil
	}
	old := getAt(cur, segs)
	switch op {
	case "$set":
		if err := record(path); err != nil {
			return nil, err
		}
		return set(cloneV(arg))
	case "$setOnInsert":
		if err := record(path); err != nil {
			return nil, err
		}
		if !upsert {
			return cur, nil
		}
		return set(cloneV(arg))
	case "$unset":
		if err := record(path); err != nil {
			return nil, err
		}
		nv, _ := unsetAt(cur, segs)
		return nv.(bson.D), nil
	case "$rename":
		to, ok := arg.(string)
		if !ok {
			return nil, reject("$rename: expected string")
		}
		if hasIndexSeg(path) || hasIndexSeg(to) {
			info.ood("$rename with numeric path segment")
			return nil, reject("$rename: array path")
		}
		if to == "" || strings.HasPrefix(to, "$") || strings.Contains(to, ".$") || strings.Contains(to, "..") || strings.HasSuffix(to, ".") || strings.HasPrefix(to, ".") {
			info.ood("odd $rename target")
			return nil, reject("$rename: bad target")
		}
		if path == to || pathsConflict(path, to) {
			return nil, reject("$rename: overlapping paths")
		}
		if err := record(path); err != nil {
			return nil, err
		}
		if err := record(to); err != nil {
			return nil, err
		}
		// source and target must not pass through arrays
		for i := 1; i < len(segs); i++ {
			if _, isArr := getAt(cur, segs[:i]).(bson.A); isArr {
				info.ood("$rename through an array")
			}
		}
		tsegs := strings.Split(to, ".")
		for i := 1; i <= len(tsegs); i++ {
			if _, isArr := getAt(cur, tsegs[:i]).(bson.A); isArr && i < len(tsegs) {
				info.ood("$rename through an array")
			}
		}
		if old == Missing {
			return cur, nil
		}
		if getAt(cur, tsegs) != Missing {
			info.LooseOrder = true
		}
		nv, ok := setAt(cur, tsegs, old)
		if !ok {
			return nil, reject("$rename: cannot set target")
		}
		nv2, _ := unsetAt(nv, segs)
		return nv2.(bson.D), nil
	case "$inc", "$mul":
		if err := record(path); err != nil {
			return nil, err
		}
		if Class(arg) != CNumber {
			return nil, reject("%s: operand is not a number", op)
		}
		base := old
		if base == Missing {
			base = int32(0)
			if op == "$mul" {
				// zero of the operand's type
				switch arg.(type) {
				case int64:
					base = int64(0)
				case float64:
					base = float64(0)
				case primitive.Decimal128:
					base, _ = primitive.ParseDecimal128("0")
				}
			}
		}
		if Class(base) != CNumber || base == nil {
			return nil, reject("%s: target is not a number", op)
		}
		res, err := arith(op, base, arg, info)
		if err != nil {
			return nil, err
		}
		return set(res)
	case "$min", "$max":
		if err := record(path); err != nil {
			return nil, err
		}
		if old == Missing {
			return set(cloneV(arg))
		}
		if containsNaN(old) || containsNaN(arg) {
			info.ood("$min/$max with NaN")
		}
		c := Compare(old, arg)
		if (op == "$min" && c > 0) || (op == "$max" && c < 0) {
			return set(cloneV(arg))
		}
		// still must be settable (path validity): nothing to do
		return cur, nil
	case "$currentDate":
		if err := record(path); err != nil {
			return nil, err
		}
		switch a := arg.(type) {
		case bool:
			if !a {
				info.ood("$currentDate: false")
				return cur, nil
			}
			info.AdoptPaths[path] = "date"
			return set(primitive.DateTime(0))
		case bson.D:
			if len(a) != 1 || a[0].Key != "$type" {
				return nil, reject("$currentDate: bad spec")
			}
			switch a[0].Value {
			case "date":
				info.AdoptPaths[path] = "date"
				return set(primitive.DateTime(0))
			case "timestamp":
				info.AdoptPaths[path] = "timestamp"
				return set(primitive.Timestamp{})
			}
			return nil, reject("$currentDate: bad $type")
		}
		return nil, reject("$currentDate: expected boolean or document")
	case "$push":
		if err := record(path); err != nil {
			return nil, err
		}
		values := bson.A{arg}
		var pos, slice *int64
		var sortSpec interface{}
		hasSort := false
		if ad, ok := arg.(bson.D); ok {
			hasEach := false
			for _, e := range ad {
				if e.Key == "$each" {
					hasEach = true
				}
			}
			if hasEach {
				for _, e := range ad {
					switch e.Key {
					case "$each":
						arr, ok := e.Value.(bson.A)
						if !ok {
							return nil, reject("$push: $each requires an array")
						}
						values = arr
					case "$position":
						n, err := intArg("$position", e.Value)
						if err != nil {
							return nil, err
						}
						pos = &n
					case "$slice":
						n, err := intArg("$slice", e.Value)
						if err != nil {
							return nil, err
						}
						slice = &n
					case "$sort":
						hasSort = true
						sortSpec = e.Value
					default:
						return nil, reject("$push: unknown modifier")
					}
				}
			} else {
				for _, e := range ad {
					if strings.HasPrefix(e.Key, "$") {
						info.ood("$push of a document with $-prefixed keys")
					}
				}
			}
		}
		var arr bson.A
		if old == Missing {
			arr = bson.A{}
		} else {
			a, ok := old.(bson.A)
			if !ok {
				return nil, reject("$push: target is not an array")
			}
			arr = a
		}
		at := len(arr)
		if pos != nil {
			p := *pos
			if p < 0 {
				if -p > int64(len(arr)) {
					at = 0
				} else {
					at = len(arr) + int(p)
				}
			} else if p < int64(len(arr)) {
				at = int(p)
			}
		}
		na := bson.A{}
		na = append(na, arr[:at]...)
		for _, v := range values {
			na = append(na, cloneV(v))
		}
		na = append(na, arr[at:]...)
		if hasSort {
			var err error
			na, err = pushSort(na, sortSpec, info)
			if err != nil {
				return nil, err
			}
		}
		if slice != nil {
			s := *slice
			switch {
			case s == 0:
				na = bson.A{}
			case s > 0:
				if s < int64(len(na)) {
					na = na[:s]
				}
			default:
				if -s < int64(len(na)) && s != math.MinInt64 {
					na = na[int64(len(na))+s:]
				}
			}
		}
		return set(na)
	case "$pop":
		if err := record(path); err != nil {
			return nil, err
		}
		n, err := intArg("$pop", arg)
		if err != nil || (n != 1 && n != -1) {
			if _, isDec := arg.(primitive.Decimal128); isDec {
				info.ood("$pop with decimal operand")
			}
			return nil, reject("$pop: expected 1 or -1")
		}
		if old == Missing {
			return cur, nil
		}
		arr, ok := old.(bson.A)
		if !ok {
			return nil, reject("$pop: target is not an array")
		}
		if len(arr) == 0 {
			return cur, nil
		}
		if n == 1 {
			return set(append(bson.A{}, arr[:len(arr)-1]...))
		}
		return set(append(bson.A{}, arr[1:]...))
	case "$pull":
		if err := record(path); err != nil {
			return nil, err
		}
		if old == Missing {
			return cur, nil
		}
		arr, ok := old.(bson.A)
		if !ok {
			return nil, reject("$pull: target is not an array")
		}
		na := bson.A{}
		for _, el := range arr {
			m, err := pullMatches(el, arg, info)
			if err != nil {
				return nil, err
			}
			if !m {
				na = append(na, el)
			}
		}
		if len(na) == len(arr) {
			return cur, nil
		}
		return set(na)
	case "$pullAll":
		if err := record(path); err != nil {
			return nil, err
		}
		list, ok := arg.(bson.A)
		if !ok {
			return nil, reject("$pullAll: expected array")
		}
		if old == Missing {
			return cur, nil
		}
		arr, ok := old.(bson.A)
		if !ok {
			return nil, reject("$pullAll: target is not an array")
		}
		na := bson.A{}
		for _, el := range arr {
			drop := false
			for _, t := range list {
				if Compare(el, t) == 0 {
					drop = true
				}
			}
			if !drop {
				na = append(na, el)
			}
		}
		if len(na) == len(arr) {
			return cur, nil
		}
		return set(na)
	case "$addToSet":
		if err := record(path); err != nil {
			return nil, err
		}
		values := bson.A{arg}
		if ad, ok := arg.(bson.D); ok {
			hasEach := false
			for _, e := range ad {
				if e.Key == "$each" {
					hasEach = true
				}
			}
			if hasEach {
				for _, e := range ad {
					if e.Key != "$each" {
						return nil, reject("$addToSet: unknown modifier")
					}
					arr, ok := e.Value.(bson.A)
					if !ok {
						return nil, reject("$addToSet: $each requires an array")
					}
					values = arr
				}
			}
		}
		var arr bson.A
		if old == Missing {
			arr = bson.A{}
		} else {
			a, ok := old.(bson.A)
			if !ok {
				return nil, reject("$addToSet: target is not an array")
			}
			arr = append(bson.A{}, a...)
		}
		changed := old == Missing
		for _, v := range values {
			if containsNaN(v) {
				info.ood("$addToSet with NaN")
			}
			found := false
			for _, e := range arr {
				if Compare(e, v) == 0 {
					found = true
				}
			}
			if !found {
				arr = append(arr, cloneV(v))
				changed = true
			}
		}
		if !changed {
			return cur, nil
		}
		if old == Missing && len(arr) == 0 {
			info.ood("$addToSet with empty $each on a missing field")
		}
		return set(arr)
	case "$bit":
		if err := record(path); err != nil {
			return nil, err
		}
		spec, ok := arg.(bson.D)
		if !ok || len(spec) != 1 {
			if ok && len(spec) > 1 {
				info.ood("$bit with several operations")
			}
			return nil, reject("$bit: expected a single operation")
		}
		var operand int64
		op64 := false
		switch n := spec[0].Value.(type) {
		case int32:
			operand = int64(n)
		case int64:
			operand = n
			op64 = true
		default:
			return nil, reject("$bit: operand must be an integer")
		}
		var current int64
		cur64 := false
		switch n := old.(type) {
		case int32:
			current = int64(n)
		case int64:
			current = n
			cur64 = true
		case missingT:
		default:
			return nil, reject("$bit: target must be an integer")
		}
		var res int64
		switch spec[0].Key {
		case "and":
			res = current & operand
		case "or":
			res = current | operand
		case "xor":
			res = current ^ operand
		default:
			return nil, reject("$bit: unknown operation")
		}
		if cur64 || op64 {
			return set(res)
		}
		return set(int32(res))
	}
	return nil, reject("unknown update operator %q", op)
}

func pullMatches(el, cond interface{}, info *ApplyInfo) (bool, error) {
	if cd, ok := cond.(bson.D); ok {
		allOps := len(cd) > 0
		anyOp := false
		for _, e := range cd {
			if !strings.HasPrefix(e.Key, "$") {
				allOps = false
			} else {
				anyOp = true
			}
		}
		if anyOp && !allOps {
			info.ood("$pull condition mixing operators and fields")
		}
		if len(cd) == 0 {
			info.ood("$pull with empty document")
		}
		mi := &MatchInfo{}
		var r bool
		var err error
		if allOps {
			r, err = Match(bson.D{{Key: "_x", Value: el}}, bson.D{{Key: "_x", Value: cd}}, mi)
		} else {
			ed, isDoc := el.(bson.D)
			if !isDoc {
				// validate the query anyway
				_, err = Match(bson.D{}, cd, mi)
				if err != nil {
					return false, err
				}
				return false, nil
			}
			r, err = Match(ed, cd, mi)
		}
		if mi.OutOfDomain {
			info.ood("$pull condition outside the match domain: " + mi.Why)
		}
		return r, err
	}
	if _, isArr := cond.(bson.A); isArr {
		info.ood("$pull with array condition")
	}
	if containsNaN(cond) {
		info.ood("$pull with NaN")
	}
	return Compare(el, cond) == 0, nil
}

func pushSort(arr bson.A, spec interface{}, info *ApplyInfo) (bson.A, error) {
	out := append(bson.A{}, arr...)
	for _, v := range out {
		if containsNaN(v) {
			info.ood("$sort over NaN")
		}
	}
	switch s := spec.(type) {
	case int32, int64, float64:
		dir, err := intArg("$sort", s)
		if err != nil || (dir != 1 && dir != -1) {
			return nil, reject("$push: bad $sort direction")
		}
		sort.SliceStable(out, func(i, j int) bool {
			c := Compare(out[i], out[j])
			if dir < 0 {
				return c > 0
			}
			return c < 0
		})
		return out, nil
	case bson.D:
		type col struct {
			path string
			dir  int64
		}
		var cols []col
		if len(s) == 0 {
			info.ood("$sort with empty document")
		}
		for _, e := range s {
			dir, err := intArg("$sort", e.Value)
			if err != nil || (dir != 1 && dir != -1) {
				return nil, reject("$push: bad $sort direction")
			}
			cols = append(cols, col{e.Key, dir})
		}
		for _, v := range out {
			if _, ok := v.(bson.D); !ok {
				return nil, reject("$push: $sort by field requires documents")
			}
		}
		key := func(d bson.D, c col) interface{} {
			v := getAt(d, strings.Split(c.path, "."))
			if a, ok := v.(bson.A); ok {
				info.ood("$sort by a field holding arrays")
				_ = a
			}
			return v
		}
		sort.SliceStable(out, func(i, j int) bool {
			for _, c := range cols {
				r := Compare(key(out[i].(bson.D), c), key(out[j].(bson.D), c))
				if r != 0 {
					if c.dir < 0 {
						return r > 0
					}
					return r < 0
				}
			}
			return false
		})
		return out, nil
	}
	return nil, reject("$push: bad $sort")
}

var (
	minI64 = new(big.Int).SetInt64(math.MinInt64)
	maxI64 = new(big.Int).SetInt64(math.MaxInt64)
)

// arith implements $inc / $mul with MongoDB's promotion rules.
func arith(op string, a, b interface{}, info *ApplyInfo) (interface{}, error) {
	_, ad := a.(primitive.Decimal128)
	_, bd := b.(primitive.Decimal128)
	_, af := a.(float64)
	_, bf := b.(float64)
	switch {
	case ad || bd:
		x, _ := ToNum(a)
		y, _ := ToNum(b)
		if x.NaN || y.NaN || x.Inf != 0 || y.Inf != 0 {
			info.ood("non-finite decimal arithmetic")
			return primitive.Decimal128{}, nil
		}
		if af || bf {
			info.ood("double with decimal128 arithmetic (MongoDB rounds the double to 15 digits)")
		}
		r := new(big.Rat)
		if op == "$inc" {
			r.Add(x.Rat, y.Rat)
		} else {
			r.Mul(x.Rat, y.Rat)
		}
		return ratToDecimal(r, info), nil
	case af || bf:
		x := toF(a)
		y := toF(b)
		if op == "$inc" {
			return x + y, nil
		}
		return x * y, nil
	default:
		x := new(big.Int).SetInt64(toI(a))
		y := new(big.Int).SetInt64(toI(b))
		r := new(big.Int)
		if op == "$inc" {
			r.Add(x, y)
		} else {
			r.Mul(x, y)
		}
		_, a64 := a.(int64)
		_, b64 := b.(int64)
		if r.Cmp(minI64) < 0 || r.Cmp(maxI64) > 0 {
			return nil, reject("%s: integer overflow", op)
		}
		v := r.Int64()
		if !a64 && !b64 && v >= math.MinInt32 && v <= math.MaxInt32 {
			return int32(v), nil
		}
		return v, nil
	}
}

func toF(v interface{}) float64 {
	switch n := v.(type) {
	case int32:
		return float64(n)
	case int64:
		return float64(n)
	case float64:
		return n
	}
	return 0
}

func toI(v interface{}) int64 {
	switch n := v.(type) {
	case int32:
		return int64(n)
	case int64:
		return n
	}
	return 0
}

// ratToDecimal renders an exact rational with a terminating decimal expansion
// as decimal128 (only numeric value matters: decimals are compared by value).
func ratToDecimal(r *big.Rat, info *ApplyInfo) primitive.Decimal128 {
	// find exponent e such that r * 10^e is an integer (denominator is 2^a 5^b)
	den := new(big.Int).Set(r.Denom())
	e := 0
	num := new(big.Int).Set(r.Num())
	ten := big.NewInt(10)
	for den.Cmp(big.NewInt(1)) != 0 && e < 7000 {
		num.Mul(num, ten)
		g := new(big.Int).GCD(nil, nil, new(big.Int).Abs(num), den)
		num.Quo(num, g)
		den.Quo(den, g)
		e++
	}
	d, ok := primitive.ParseDecimal128FromBigInt(num, -e)
	if !ok || den.Cmp(big.NewInt(1)) != 0 {
		info.ood("decimal result not representable")
	}
	if len(num.String()) > 34 {
		info.ood("decimal result needs rounding")
	}
	return d
}
