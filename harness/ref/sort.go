package ref

import (
	"sort"

	"go.mongodb.org/mongo-driver/bson"
)

// SortCol is one sort key.
type SortCol struct {
	Path string
	Dir  int // 1 or -1
}

// SortKey returns the value a document sorts by for one column (DESIGN.md
// 8.4); ood reports inputs outside the asserted domain.
func SortKey(d bson.D, col SortCol) (key interface{}, ood bool) {
	vals, kind := Values(d, col.Path)
	if kind.FanOut || kind.NestedArr {
		return nil, true
	}
	v := vals[0]
	if v == Missing {
		return nil, false
	}
	if a, ok := v.(bson.A); ok {
		if len(a) == 0 {
			return nil, true
		}
		best := a[0]
		for _, e := range a[1:] {
			c := Compare(e, best)
			if (col.Dir > 0 && c < 0) || (col.Dir < 0 && c > 0) {
				best = e
			}
		}
		return best, false
	}
	return v, false
}

// SortDocs returns the indexes of docs in sorted order (stable).
func SortDocs(docs []bson.D, cols []SortCol) (order []int, ood bool) {
	keys := make([][]interface{}, len(docs))
	for i, d := range docs {
		for _, c := range cols {
			k, o := SortKey(d, c)
			if o {
				ood = true
			}
			keys[i] = append(keys[i], k)
		}
	}
	order = make([]int, len(docs))
	for i := range order {
		order[i] = i
	}
	sort.SliceStable(order, func(a, b int) bool {
		for ci, c := range cols {
			r := Compare(keys[order[a]][ci], keys[order[b]][ci])
			if r != 0 {
				if c.Dir < 0 {
					return r > 0
				}
				return r < 0
			}
		}
		return false
	})
	return order, ood
}

// Distinct returns the distinct values at the path over the documents in
// ascending reference order (arrays contribute their elements, missing
// contributes nothing).
func Distinct(docs []bson.D, path string) (vals []interface{}, ood bool) {
	var all []interface{}
	for _, d := range docs {
		vs, kind := Values(d, path)
		if kind.NestedArr {
			ood = true
		}
		for _, v := range vs {
			if v == Missing {
				continue
			}
			if a, ok := v.(bson.A); ok {
				for _, e := range a {
					if _, nested := e.(bson.A); nested {
						ood = true
					}
					all = append(all, e)
				}
				continue
			}
			all = append(all, v)
		}
	}
	sort.SliceStable(all, func(i, j int) bool { return Compare(all[i], all[j]) < 0 })
	for i, v := range all {
		if i > 0 && Compare(all[i-1], v) == 0 {
			continue
		}
		vals = append(vals, v)
	}
	return vals, ood
}
