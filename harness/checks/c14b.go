package checks

import (
	"fmt"

	"github.com/256dpi/lungo/mongokit"
	"go.mongodb.org/mongo-driver/bson"

	"verifharness/fw"
	"verifharness/gen"
)

// c14Deterministic: projections with two to four operator overlays ($slice,
// $elemMatch) that add fields to the result, applied 48 times each to the same
// document: every application must return the same bytes (the overlays are
// collected in a map inside Project; iterating it directly makes the field
// order of the result random - found by C03 thorough at seed 4, fixed in
// b148443).
func c14Deterministic(c *fw.Ctx) {
	n := c.N(64, 640)
	for q := 0; q < n; q++ {
		if q%c.NBatches != c.Batch {
			continue
		}
		idx := 9700000 + q
		if c.Skip(idx) {
			continue
		}
		r := c.Rand(idx)
		fields := []string{"a", "b", "p", "x", "y"}
		doc := bson.D{{Key: "_id", Value: int32(q)}}
		for _, f := range fields {
			if r.Chance(4, 5) {
				doc = append(doc, bson.E{Key: f, Value: bson.A{int32(1), int32(2), 1.0 + float64(r.Intn(2))}})
			}
		}
		k := 2 + r.Intn(3)
		proj := bson.D{}
		perm := []int{0, 1, 2, 3, 4}
		for i := len(perm) - 1; i > 0; i-- {
			j := r.Intn(i + 1)
			perm[i], perm[j] = perm[j], perm[i]
		}
		for i := 0; i < k; i++ {
			f := fields[perm[i]]
			if r.Bool() {
				proj = append(proj, bson.E{Key: f, Value: bson.D{{Key: "$slice", Value: fw.Pick(r, []interface{}{int32(1), int32(-1), bson.A{int32(1), int32(1)}, bson.A{int32(50), int32(100)}})}}})
			} else {
				proj = append(proj, bson.E{Key: f, Value: bson.D{{Key: "$elemMatch", Value: bson.D{{Key: "$gte", Value: int32(1 + r.Intn(2))}}}}})
			}
		}
		desc := map[string]interface{}{"document": gen.JSON(doc), "projection": gen.JSON(proj)}
		c.Case(idx, func() interface{} { return desc }, nil, func() {
			c.Eval(1)
			nd, ok1 := norm(doc)
			np, ok2 := norm(proj)
			if !ok1 || !ok2 {
				return
			}
			first, firstJSON := "", ""
			for i := 0; i < 48; i++ {
				res, err := mongokit.Project(nd, np)
				if err != nil {
					return
				}
				c.Count("repeated_projections", 1)
				b := string(gen.Bytes(*res))
				if i == 0 {
					first, firstJSON = b, gen.JSON(*res)
				} else if b != first {
					c.Violate("project:nondeterministic", fmt.Sprintf("the same projection of the same document returned other bytes on application %d than on the first: %s vs %s", i+1, gen.JSON(*res), firstJSON), desc)
					return
				}
			}
		})
	}
}
