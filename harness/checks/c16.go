package checks

import (
	"context"
	"errors"
	"fmt"
	"regexp"
	"runtime"
	"strings"
	"sync"
	"sync/atomic"
	"time"

	"github.com/256dpi/lungo"
	"go.mongodb.org/mongo-driver/bson"
	"go.mongodb.org/mongo-driver/bson/primitive"
	"go.mongodb.org/mongo-driver/mongo"
	"go.mongodb.org/mongo-driver/mongo/options"

	"verifharness/fw"
	"verifharness/sched"
)

// C16 — the engine never wedges: the writer slot is always freed, shutdown
// completes.

func init() {
	fw.Register(&fw.Check{
		ID:   "C16",
		Race: true,
		Rule: "seeded scenario scripts for 2-4 actors drawn from {engine Begin/Commit/Abort, session Start/Commit/Abort/End/WithTransaction (callback ok, error, panic), driver write with live / cancelled / expiring context, collection Drop and index creation with a session context, failing and panicking Store, Watch/TryNext/Close of a stream, engine Close}, including actors that share one session; " +
			"each script runs (i) under random yields/sleeps at the out-of-lock hook points and (ii) with directed holds (actor A parked at hook point X until actor B passes point Y or a 40 ms timeout; the pair list over all hook points is enumerated round-robin); " +
			"monitors: token monitor on the hook trace (holders never above 1 or below 0), no unexpected panic escapes any call, after the actors joined the writer slot is free, no transaction is registered and a probe write succeeds (engine alive) or every call returns ErrEngineClosed, the expiry goroutine exited and the goroutine count is back at the baseline (engine closed); " +
			"an actor that has not finished 8 s after the last hold ended is examined with two goroutine dumps 1 s apart: identical stacks blocked in sync.Mutex.Lock are a deadlock, blocked in the writer-slot acquisition while no other actor holds a transaction is a leaked slot; anything else is inconclusive; " +
			"non-trivial = at least two actors reached the engine's critical sections and a fault or an abandon step was part of the script; distinct = hash of script and observed hook interleaving",
		Assumptions: []string{"the 60 s token-acquisition timeout is never waited out; wedges are decided on token/transaction state", "panics raised by the injected panicking Store or callback are expected to propagate to their caller; only the engine state afterwards is judged"},
		Batches:     func(tier string) int { return 16 },
		Parallel:    func(tier string) int { return 8 },
		Require: func(tier string) map[string]int64 {
			return map[string]int64{"scenarios": 600, "directed_runs": 200, "directed_achieved": 15, "quiescent_checks": 600, "closed_checks": 60, "shared_session_scenarios": 60, "store_faults": 40, "panics_injected": 20, "panicking_write_callbacks": 10, "failing_calls": 40, "stale_aborts": 20, "waits_without_deadline": 20, "waiters_parked_at_shutdown": 200, "abandoned_use_sessions": 30, "stream_polls": 60, "stream_churns": 10, "blocked_next_closed_by_peer": 30,
				"cancelled_contexts": 60, "hook_events": 20000, "interleavings_recorded": 300}
		},
		WorkerTimeoutSec: func(tier string) int {
			if tier == "thorough" {
				return 4000
			}
			return 900
		},
		Run: runC16,
	})
}

// faultStore can fail or panic on the next Store call.
type faultStore struct {
	mu    sync.Mutex
	cat   *lungo.Catalog
	fail  int32
	panic int32
}

func (s *faultStore) Load() (*lungo.Catalog, error) { return s.cat, nil }
func (s *faultStore) Store(c *lungo.Catalog) error {
	if atomic.CompareAndSwapInt32(&s.panic, 1, 0) {
		panic("injected store panic")
	}
	if atomic.CompareAndSwapInt32(&s.fail, 1, 0) {
		return errors.New("injected store failure")
	}
	s.mu.Lock()
	s.cat = c
	s.mu.Unlock()
	return nil
}

var c16Steps = []string{
	"write", "write", "write_cancelled", "write_deadline", "write_panicking", "write_failing", "ddl_failing", "read",
	"begin", "commit", "abort",
	"sess.start", "sess.write", "sess.commit", "sess.abort", "sess.end", "sess.drop", "sess.index",
	"with_txn_ok", "with_txn_err", "with_txn_panic",
	"watch", "next", "next_closed_by_peer", "poll", "stream.churn", "stream.close", "abort_stale",
	"store.fail", "store.panic", "close",
}

type c16Scenario struct {
	Actors  [][]string  `json:"actors"`
	Session []int       `json:"session_of_actor"` // session index per actor (shared when equal)
	Hold    *sched.Hold `json:"hold,omitempty"`
	Random  bool        `json:"random_delays"`
}

func c16Gen(r *fw.Rand) c16Scenario {
	n := r.Range(2, 4)
	s := c16Scenario{}
	if r.Chance(1, 8) {
		// shutdown against busy streams: pollers, churners (open/close in a
		// loop) and a writer while one actor closes the engine
		for a := 0; a < 4; a++ {
			var steps []string
			switch {
			case a == 0:
				steps = []string{"write", fw.Pick(r, []string{"write", "read", "watch"}), "close"}
			case a == 1 && r.Bool():
				steps = []string{"stream.churn", "stream.churn", "stream.churn"}
			default:
				steps = []string{"watch", "poll", "poll", "poll", fw.Pick(r, []string{"stream.close", "poll", "next"})}
			}
			s.Actors = append(s.Actors, steps)
			s.Session = append(s.Session, a)
		}
		return s
	}
	if r.Chance(1, 12) {
		// a writer waits for the slot without any deadline while the holder
		// keeps it and a third actor closes the engine: the shutdown must wake
		// the waiter
		s.Actors = [][]string{
			{"begin", "read", "read", "next_idle", "read"},
			{fw.Pick(r, []string{"begin_nodeadline", "sess.start", "begin_nodeadline"})},
			{"read", fw.Pick(r, []string{"read", "write_deadline"}), "close"},
		}
		s.Session = []int{0, 1, 2}
		return s
	}
	if r.Chance(1, 10) {
		// UseSession callbacks that leave their transaction open (the other
		// actors only make short auto-committed writes, so waiting for the slot
		// always ends unless it was leaked)
		s.Actors = [][]string{
			{"use_session_abandon", "write", "use_session_abandon"},
			{"write", "use_session_abandon", "write"},
			{"write", "write", fw.Pick(r, []string{"write", "read", "use_session_abandon"})},
		}
		s.Session = []int{0, 1, 2}
		return s
	}
	if r.Chance(1, 8) {
		// late Aborts of finished transactions while other actors write
		s.Actors = [][]string{
			{"begin", fw.Pick(r, []string{"commit", "abort"}), "abort_stale", "read", "abort_stale", "write", "abort_stale"},
			{"begin", "read", "read", "commit", "begin", "read", fw.Pick(r, []string{"commit", "abort"})},
			{"write", "write", fw.Pick(r, []string{"write", "sess.start", "with_txn_ok"}), "write"},
		}
		s.Session = []int{0, 1, 2}
		return s
	}
	shared := r.Chance(1, 3)
	for a := 0; a < n; a++ {
		k := r.Range(2, 6)
		var steps []string
		profile := r.Intn(4)
		for i := 0; i < k; i++ {
			var st string
			switch profile {
			case 0: // session heavy
				st = fw.Pick(r, []string{"sess.start", "sess.write", "sess.commit", "sess.abort", "sess.end", "sess.drop", "sess.index", "sess.start", "sess.commit", "write"})
			case 1: // raw engine
				st = fw.Pick(r, []string{"begin", "commit", "abort", "abort_stale", "begin", "commit", "write", "write_cancelled", "write_deadline", "write_panicking", "write_failing", "ddl_failing", "store.fail", "store.panic"})
			case 2: // streams and close
				st = fw.Pick(r, []string{"watch", "next", "next_closed_by_peer", "poll", "stream.churn", "stream.close", "write", "close", "read", "with_txn_ok"})
			default:
				st = fw.Pick(r, c16Steps)
			}
			if st == "close" && r.Chance(2, 3) {
				st = "write" // closing is rarer
			}
			steps = append(steps, st)
		}
		s.Actors = append(s.Actors, steps)
		if shared {
			s.Session = append(s.Session, 0)
		} else {
			s.Session = append(s.Session, a)
		}
	}
	return s
}

func (s c16Scenario) has(steps ...string) bool {
	for _, a := range s.Actors {
		for _, st := range a {
			for _, want := range steps {
				if st == want {
					return true
				}
			}
		}
	}
	return false
}

func (s c16Scenario) sharedSession() bool {
	seen := map[int]bool{}
	for _, x := range s.Session {
		if seen[x] {
			return true
		}
		seen[x] = true
	}
	return false
}

var goroutineHeader = regexp.MustCompile(`(?m)^goroutine (\d+) \[([^\]]*)\]:$`)

// stacksByGoid splits a full goroutine dump.
func stacksByGoid(dump string) map[string]string {
	out := map[string]string{}
	idx := goroutineHeader.FindAllStringSubmatchIndex(dump, -1)
	for i, m := range idx {
		end := len(dump)
		if i+1 < len(idx) {
			end = idx[i+1][0]
		}
		id := dump[m[2]:m[3]]
		body := dump[m[1]:end]
		// drop argument values and pc offsets (they do not change for a parked goroutine, but keep the comparison robust)
		out[id] = body
	}
	return out
}

func fullDump() string {
	buf := make([]byte, 1<<20)
	n := runtime.Stack(buf, true)
	return string(buf[:n])
}

func runC16(c *fw.Ctx) {
	if !c16ShutdownWaiters(c, c.N(2, 8)) {
		return
	}
	n := c.N(1280, 25600) / c.NBatches
	holdNo := c.Batch * 7919
	for q := 0; q < n; q++ {
		idx := c.Batch*n + q
		if c.Skip(idx) {
			continue
		}
		r := c.Rand(idx)
		sc := c16Gen(r)
		if q%3 == 0 {
			// directed: enumerate (actor A at X) until (actor B at Y) round-robin
			holdNo++
			a := holdNo % len(sc.Actors)
			b := (a + 1 + (holdNo/4)%(len(sc.Actors)-1)) % len(sc.Actors)
			// points the two scripts can reach (round-robin over their lists)
			pa, pb := c16Points(sc.Actors[a]), c16Points(sc.Actors[b])
			x := pa[(holdNo/3)%len(pa)]
			y := pb[(holdNo/(3*len(pa)))%len(pb)]
			sc.Hold = &sched.Hold{Actor: a, Point: x, UntilActor: b, UntilPoint: y, Timeout: 40 * time.Millisecond}
		} else {
			sc.Random = true
		}
		stop := false
		c.Case(idx, func() interface{} { return sc }, nil, func() {
			c.Eval(1)
			if !c16Run(c, r, sc) {
				stop = true
			}
		})
		if stop || c.Violations() > 20 {
			return
		}
	}
}

var c16StepPoints = map[string][]string{
	"write":           {"begin.locked", "begin.unlocked", "begin.acquired", "begin.txn_set", "commit.locked", "commit.before_store", "commit.before_publish", "commit.before_broadcast", "token.release", "abort.locked"},
	"write_deadline":  {"begin.locked", "begin.unlocked", "begin.acquired", "begin.acquire_failed", "commit.locked", "token.release"},
	"begin":           {"begin.locked", "begin.unlocked", "begin.acquired", "begin.acquire_failed", "begin.txn_set"},
	"commit":          {"commit.locked", "commit.before_store", "commit.before_publish", "commit.before_broadcast", "token.release"},
	"abort":           {"abort.locked", "token.release"},
	"sess.start":      {"session.start.reserved", "begin.locked", "begin.unlocked", "begin.acquired", "begin.txn_set", "session.start.begun"},
	"sess.commit":     {"session.commit.locked", "commit.locked", "commit.before_store", "commit.before_publish", "token.release"},
	"sess.abort":      {"session.abort.locked", "abort.locked", "token.release"},
	"sess.end":        {"session.end.locked", "abort.locked", "token.release"},
	"sess.drop":       {"begin.locked", "begin.unlocked", "begin.acquired", "commit.locked"},
	"sess.index":      {"begin.locked", "begin.unlocked", "begin.acquired", "commit.locked"},
	"with_txn_ok":     {"session.start.reserved", "begin.unlocked", "begin.acquired", "session.start.begun", "session.commit.locked", "commit.before_store", "token.release", "session.abort.locked"},
	"with_txn_err":    {"session.start.reserved", "begin.acquired", "session.abort.locked", "abort.locked", "token.release"},
	"write_failing":   {"begin.locked", "begin.unlocked", "begin.acquired", "abort.locked", "token.release"},
	"ddl_failing":     {"begin.locked", "begin.unlocked", "begin.acquired", "abort.locked", "token.release"},
	"write_panicking": {"begin.locked", "begin.unlocked", "begin.acquired", "abort.locked", "token.release"},
	"with_txn_panic":  {"session.start.reserved", "begin.acquired", "session.abort.locked", "abort.locked", "token.release"},
	"next":            {"stream.before_wait", "stream.woken"},
	"close":           {"close.killed", "close.streams_closed", "close.done"},
}

// c16ShutdownWaiters is the directed family "shutdown wakes every parked
// writer": a holder (engine transaction or session transaction) keeps the
// writer slot, a second caller parks in the slot acquisition through one of the
// public entry points with one of the context kinds an application uses (none,
// cancellable but never cancelled, far deadline, session context), then the
// engine is closed while the holder still holds. The waiter must return the
// closed error; a waiter that is still parked in the acquisition 5 s after Close
// returned (the holder never releases, so nothing but the shutdown can end the
// wait before the one-minute acquisition timeout) is a violation. The verdict is
// taken from the goroutine's stack, the 5 s only bound the observation.
func c16ShutdownWaiters(c *fw.Ctx, rounds int) bool {
	kinds := []string{"begin/background", "begin/cancellable", "begin/far-deadline", "insert/background", "insert/cancellable", "session-start", "update/session-context-cancellable"}
	for round := 0; round < rounds; round++ {
		for h := 0; h < 2; h++ {
			for _, kind := range kinds {
				store := &faultStore{cat: lungo.NewCatalog()}
				client, engine, err := lungo.Open(nil, lungo.Options{Store: store, ExpireInterval: 1 << 40})
				if err != nil {
					c.Inconclusive("open engine: " + err.Error())
					return true
				}
				coll := client.Database("d").Collection("c")
				// holder
				var release func()
				if h == 0 {
					t, err := engine.Begin(context.Background(), true)
					if err != nil {
						c.Inconclusive("holder begin: " + err.Error())
						engine.Close()
						return true
					}
					release = func() { engine.Abort(t) }
				} else {
					hs, _ := client.StartSession()
					if err := hs.StartTransaction(); err != nil {
						c.Inconclusive("holder session: " + err.Error())
						engine.Close()
						return true
					}
					release = func() { hs.EndSession(context.Background()) }
				}
				// waiter
				res := make(chan error, 1)
				wctx, cancel := context.WithCancel(context.Background())
				fctx, fcancel := context.WithTimeout(context.Background(), 10*time.Minute)
				ws, _ := client.StartSession()
				go func() {
					switch kind {
					case "begin/background":
						_, err := engine.Begin(context.Background(), true)
						res <- err
					case "begin/cancellable":
						_, err := engine.Begin(wctx, true)
						res <- err
					case "begin/far-deadline":
						_, err := engine.Begin(fctx, true)
						res <- err
					case "insert/background":
						_, err := coll.InsertOne(context.Background(), bson.D{{Key: "w", Value: int32(1)}})
						res <- err
					case "insert/cancellable":
						_, err := coll.InsertOne(wctx, bson.D{{Key: "w", Value: int32(1)}})
						res <- err
					case "session-start":
						res <- ws.StartTransaction()
					default:
						res <- lungo.WithSession(wctx, ws, func(sc lungo.ISessionContext) error {
							_, err := coll.UpdateOne(sc, bson.D{}, bson.D{{Key: "$set", Value: bson.D{{Key: "w", Value: int32(2)}}}})
							return err
						})
					}
				}()
				// let it park (observed, not assumed: counted from the dump)
				parked := false
				for i := 0; i < 50 && !parked; i++ {
					time.Sleep(2 * time.Millisecond)
					parked = strings.Contains(fullDump(), "dbkit.(*Semaphore).Acquire")
				}
				if parked {
					c.Count("waiters_parked_at_shutdown", 1)
				}
				closeDone := make(chan struct{})
				go func() { engine.Close(); close(closeDone) }()
				c.Eval(1)
				witness := map[string]interface{}{"waiter": kind, "holder": []string{"engine transaction", "session transaction"}[h]}
				verdict := true
				select {
				case err := <-res:
					if !errors.Is(err, lungo.ErrEngineClosed) {
						c.Violate("closed:waiter-result", fmt.Sprintf("a writer (%s) that was waiting for the writer slot when the engine was closed returned %v instead of the closed error", kind, err), witness)
					}
				case <-time.After(5 * time.Second):
					d := fullDump()
					select {
					case <-closeDone:
						if strings.Contains(d, "dbkit.(*Semaphore).Acquire") {
							witness["goroutines"] = firstFrames(d, 120)
							c.Violate("closed:waiter-not-woken", fmt.Sprintf("a writer (%s) waiting for the writer slot is still parked in the acquisition 5 s after Engine.Close returned: the shutdown did not wake it", kind), witness)
						} else {
							c.Inconclusive("shutdown waiter did not return but is not parked in the slot acquisition: " + firstFrames(d, 40))
						}
					default:
						c.Inconclusive("Engine.Close did not return within 5 s in the shutdown-waiter case: " + firstFrames(d, 40))
					}
					verdict = false
				}
				cancel()
				fcancel()
				release()
				ws.EndSession(context.Background())
				if !verdict {
					return false // goroutines abandoned
				}
			}
		}
	}
	return true
}

// c16Points lists the hook points a script can reach.
func c16Points(steps []string) []string {
	var out []string
	seen := map[string]bool{}
	for _, st := range steps {
		for _, p := range c16StepPoints[st] {
			if !seen[p] {
				seen[p] = true
				out = append(out, p)
			}
		}
	}
	if len(out) == 0 {
		out = []string{"begin.unlocked"}
	}
	return out
}

type c16Actor struct {
	id      int
	steps   []string
	done    atomic.Bool
	cur     atomic.Value // current step (string)
	txn     *lungo.Transaction
	stale   *lungo.Transaction // a transaction this actor has already committed or aborted
	stream  lungo.IChangeStream
	log     []string
	holding atomic.Bool // owns an engine-level transaction right now
}

// unexpectedStall holds the first consumer that stayed blocked after its
// stream was closed (per scenario; scenarios run one at a time per worker).
var unexpectedStall = &atomic.Value{}

// c16Run executes one scenario; it returns false if the worker should stop
// (goroutines were abandoned in a deadlock).
func c16Run(c *fw.Ctx, r *fw.Rand, sc c16Scenario) bool {
	baseline := runtime.NumGoroutine()
	store := &faultStore{cat: lungo.NewCatalog()}
	var expErrs atomic.Int64
	client, engine, err := lungo.Open(nil, lungo.Options{Store: store, ExpireInterval: 1 << 40, ExpireErrors: func(error) { expErrs.Add(1) }})
	if err != nil {
		c.Inconclusive("open engine: " + err.Error())
		return true
	}
	ctl := sched.New(nil)
	ctl.Random = sc.Random
	if sc.Hold != nil {
		ctl.SetHold(*sc.Hold)
		c.Count("directed_runs", 1)
	}
	var expireExit atomic.Bool
	ctl.OnEvent = func(actor int, point string, obj interface{}) {
		if point == "expire.exit" {
			expireExit.Store(true)
		}
	}
	ctl.Install()
	defer sched.Remove()
	c.Count("scenarios", 1)
	if sc.sharedSession() {
		c.Count("shared_session_scenarios", 1)
	}

	sessions := map[int]lungo.ISession{}
	for _, si := range sc.Session {
		if sessions[si] == nil {
			s, _ := client.StartSession()
			sessions[si] = s
		}
	}
	var unexpected atomic.Value // first unexpected panic
	var lost atomic.Value       // first write transaction taken away from its holder
	unexpectedStall = &atomic.Value{}
	actors := make([]*c16Actor, len(sc.Actors))
	var wg sync.WaitGroup
	var closed atomic.Bool
	for i := range sc.Actors {
		a := &c16Actor{id: i, steps: sc.Actors[i]}
		a.cur.Store("")
		actors[i] = a
		wg.Add(1)
		seed := r.U64()
		go func(a *c16Actor) {
			defer wg.Done()
			defer a.done.Store(true)
			ctl.Register(a.id, seed)
			sess := sessions[sc.Session[a.id]]
			for _, st := range a.steps {
				a.cur.Store(st)
				c16Step(c, a, st, client, engine, store, sess, &unexpected, &lost, &closed)
			}
			// every actor cleans up what it still owns (an abandoned write
			// must not keep the slot: the documented way is Abort / EndSession)
			if a.txn != nil {
				engine.Abort(a.txn)
				a.txn = nil
				a.holding.Store(false)
			}
			if a.stream != nil {
				a.stream.Close(nil)
			}
			// an abandoned session transaction is given up as well
			sess.AbortTransaction(context.Background())
			a.cur.Store("finished")
		}(a)
	}
	allDone := make(chan struct{})
	go func() { wg.Wait(); close(allDone) }()
	witness := func(extra map[string]interface{}) interface{} {
		m := map[string]interface{}{"scenario": sc, "hook_trace": ctl.TraceStrings(120)}
		for i, a := range actors {
			m[fmt.Sprintf("actor%d_log", i)] = a.log
		}
		for k, v := range extra {
			m[k] = v
		}
		return m
	}
	select {
	case <-allDone:
	case <-time.After(8 * time.Second):
		// examine: two dumps one second apart
		d1 := stacksByGoid(fullDump())
		time.Sleep(time.Second)
		select {
		case <-allDone:
			goto joined
		default:
		}
		d2 := stacksByGoid(fullDump())
		var stuck []string
		mutexBlocked, slotBlocked, other := 0, 0, 0
		for _, a := range actors {
			if a.done.Load() {
				continue
			}
			id := fmt.Sprint(ctl.Goid(a.id))
			s1, s2 := d1[id], d2[id]
			st, _ := a.cur.Load().(string)
			stuck = append(stuck, fmt.Sprintf("actor %d (step %q): %s", a.id, st, firstFrames(s2, 12)))
			switch {
			case s1 != "" && s1 == s2 && (strings.Contains(s2, "sync.(*Mutex).Lock") || strings.Contains(s2, "sync.(*RWMutex)")):
				mutexBlocked++
			case s1 != "" && s1 == s2 && strings.Contains(s2, "dbkit.(*Semaphore).Acquire"):
				slotBlocked++
			default:
				other++
			}
		}
		switch {
		case mutexBlocked > 0 && other == 0:
			key := "deadlock"
			if sc.sharedSession() {
				key = "deadlock:shared-session"
			}
			c.Violate(key, fmt.Sprintf("%d actor(s) are blocked forever acquiring a mutex (identical stacks in two goroutine dumps one second apart, no harness hold active)", mutexBlocked), witness(map[string]interface{}{"stuck": stuck}))
		case slotBlocked > 0 && other == 0 && mutexBlocked == 0:
			holder := false
			for _, a := range actors {
				if a.holding.Load() {
					holder = true
				}
			}
			for _, s := range sessions {
				if _, has, _ := s.(*lungo.Session).VerifState(); has {
					holder = true // an open session transaction legitimately holds the slot
				}
			}
			if !holder {
				c.Violate("slot-leaked", fmt.Sprintf("%d actor(s) wait for the writer slot although no actor holds a transaction: the slot was never released", slotBlocked), witness(map[string]interface{}{"stuck": stuck}))
			} else {
				c.Inconclusive("actors wait for the writer slot that a running actor still holds: " + strings.Join(stuck, " || "))
			}
		default:
			c.Inconclusive("scenario watchdog fired without a deadlock pattern: " + strings.Join(stuck, " || "))
		}
		// the goroutines are abandoned; this worker stops after reporting
		return false
	}
joined:
	c.Count("hook_events", int64(len(ctl.Events())))
	if ctl.Achieved.Load() {
		c.Count("directed_achieved", 1)
	} else if sc.Hold != nil && ctl.Parked.Load() {
		c.Count("directed_infeasible", 1)
	}
	c.Nontrivial(ctl.InterleavingHash() ^ fw.Hash64([]byte(fmt.Sprint(sc.Actors, sc.Session))))
	c.Count("interleavings_recorded", 1) // (the number of distinct ones is distinct_nontrivial)
	if p := unexpected.Load(); p != nil {
		c.Violate("panic-escaped", "a call panicked: "+p.(string), witness(nil))
		return true
	}
	if p := unexpectedStall.Load(); p != nil {
		c.Violate("stream:not-released", p.(string), witness(nil))
		return true
	}
	if p := lost.Load(); p != nil {
		c.Violate("txn:taken-away", p.(string), witness(nil))
		return true
	}
	if mx := ctl.MaxHolders.Load(); mx > 1 {
		c.Violate("token:two-holders", fmt.Sprintf("the hook trace shows %d simultaneous holders of the writer slot", mx), witness(nil))
		return true
	}
	if mn := ctl.MinHolders.Load(); mn < 0 {
		c.Violate("token:released-twice", "the hook trace shows a release of the writer slot without a matching acquisition", witness(nil))
		return true
	}
	// quiescent checks: sessions end (abandoned session transactions are
	// aborted that way), armed store faults that nobody consumed are disarmed
	for _, s := range sessions {
		s.EndSession(nil)
	}
	atomic.StoreInt32(&store.fail, 0)
	atomic.StoreInt32(&store.panic, 0)
	c.Count("quiescent_checks", 1)
	stateCh := make(chan [4]int, 1)
	go func() {
		free, active, alive, streams := engine.VerifState()
		v := [4]int{free, 0, 0, streams}
		if active {
			v[1] = 1
		}
		if alive {
			v[2] = 1
		}
		stateCh <- v
	}()
	var st [4]int
	select {
	case st = <-stateCh:
	case <-time.After(5 * time.Second):
		c.Violate("deadlock:engine-mutex", "after all actors finished the engine's mutex is still held (a state probe blocks)", witness(nil))
		return false
	}
	ctx := context.Background()
	if st[2] == 1 {
		if st[0] != 1 || st[1] != 0 {
			c.Violate("slot-not-free", fmt.Sprintf("after all actors finished (transactions aborted, sessions ended) the writer slot is not free: free=%d transaction registered=%v", st[0], st[1] == 1), witness(nil))
			engine.Close()
			return true
		}
		pctx, cancel := context.WithTimeout(ctx, 3*time.Second)
		_, err := client.Database("d").Collection("probe").InsertOne(pctx, bson.D{{Key: "x", Value: int32(1)}})
		cancel()
		if err != nil {
			c.Violate("probe-write-failed", "after all actors finished a write does not proceed: "+err.Error(), witness(nil))
			engine.Close()
			return true
		}
		// a stream opened now is woken by close
		engine.Close()
	}
	// engine closed (by the script or just now)
	c.Count("closed_checks", 1)
	cctx, cancel := context.WithTimeout(ctx, 3*time.Second)
	defer cancel()
	if _, err := client.Database("d").Collection("probe").InsertOne(cctx, bson.D{{Key: "x", Value: int32(2)}}); !errors.Is(err, lungo.ErrEngineClosed) {
		c.Violate("closed:write", fmt.Sprintf("a write after Close returned %v instead of the closed error", err), witness(nil))
		return true
	}
	if _, err := engine.Begin(cctx, true); !errors.Is(err, lungo.ErrEngineClosed) {
		c.Violate("closed:begin", fmt.Sprintf("Begin after Close returned %v", err), witness(nil))
		return true
	}
	if _, err := engine.Begin(cctx, false); !errors.Is(err, lungo.ErrEngineClosed) {
		c.Violate("closed:begin", fmt.Sprintf("a read-only Begin after Close returned %v", err), witness(nil))
		return true
	}
	if _, err := client.Database("d").Collection("probe").Find(cctx, bson.D{}); !errors.Is(err, lungo.ErrEngineClosed) {
		c.Violate("closed:read", fmt.Sprintf("a read after Close returned %v", err), witness(nil))
		return true
	}
	if _, err := client.Watch(cctx, bson.A{}); !errors.Is(err, lungo.ErrEngineClosed) {
		c.Violate("closed:watch", fmt.Sprintf("Watch after Close returned %v", err), witness(nil))
		return true
	}
	s2, _ := client.StartSession()
	if err := s2.StartTransaction(); !errors.Is(err, lungo.ErrEngineClosed) {
		c.Violate("closed:start-transaction", fmt.Sprintf("StartTransaction after Close returned %v", err), witness(nil))
		return true
	}
	if !expireExit.Load() {
		c.Violate("closed:expiry-goroutine", "after Close the expiry goroutine has not exited", witness(nil))
		return true
	}
	// background work stopped: goroutines back at the baseline
	deadline := time.Now().Add(3 * time.Second)
	for runtime.NumGoroutine() > baseline+1 && time.Now().Before(deadline) {
		time.Sleep(5 * time.Millisecond)
	}
	if g := runtime.NumGoroutine(); g > baseline+1 {
		c.Violate("closed:goroutines", fmt.Sprintf("%d goroutines are still running after Close (baseline %d)", g, baseline), witness(map[string]interface{}{"goroutines": firstFrames(fullDump(), 200)}))
		return true
	}
	if c.WantSample() && (sc.has("store.fail", "store.panic", "with_txn_panic", "write_cancelled", "sess.end") || sc.sharedSession()) {
		c.Sample(map[string]interface{}{"scenario": sc, "hook_events": len(ctl.Events()), "directed_achieved": ctl.Achieved.Load()})
	}
	return true
}

func firstFrames(stack string, n int) string {
	lines := strings.Split(stack, "\n")
	if len(lines) > n {
		lines = lines[:n]
	}
	return strings.Join(lines, " / ")
}

func c16Step(c *fw.Ctx, a *c16Actor, st string, client lungo.IClient, engine *lungo.Engine, store *faultStore, sess lungo.ISession, unexpected, lost *atomic.Value, closed *atomic.Bool) {
	expectPanic := false
	note := func(format string, args ...interface{}) {
		if len(a.log) < 40 {
			a.log = append(a.log, st+": "+fmt.Sprintf(format, args...))
		}
	}
	defer func() {
		if p := recover(); p != nil {
			msg := fmt.Sprint(p)
			if expectPanic || strings.Contains(msg, "injected store panic") || strings.Contains(msg, "injected callback panic") {
				note("expected panic propagated: %s", msg)
				// a panicking store leaves the auto-commit paths to their deferred Abort
				return
			}
			buf := make([]byte, 8192)
			buf = buf[:runtime.Stack(buf, false)]
			unexpected.CompareAndSwap(nil, fmt.Sprintf("step %q of actor %d: %s\n%s", st, a.id, msg, buf))
		}
	}()
	ctx := context.Background()
	coll := client.Database("d").Collection("c")
	var sctx context.Context
	lungo.WithSession(ctx, sess, func(sc lungo.ISessionContext) error { sctx = sc; return nil })
	switch st {
	case "write":
		wctx, cancel := context.WithTimeout(ctx, 300*time.Millisecond)
		_, err := coll.InsertOne(wctx, bson.D{{Key: "a", Value: int32(a.id)}})
		cancel()
		note("err=%v", err)
	case "write_panicking":
		// the callback of the auto-transaction panics (a value of a BSON type
		// the engine does not support reaches Transaction.Insert/Update):
		// the panic propagates to the caller, the slot must be free afterwards
		expectPanic = true
		c.Count("panics_injected", 1)
		c.Count("panicking_write_callbacks", 1)
		wctx, cancel := context.WithTimeout(ctx, 300*time.Millisecond)
		defer cancel()
		if a.id%2 == 0 {
			_, err := coll.InsertOne(wctx, bson.D{{Key: "js", Value: primitive.JavaScript("x")}})
			note("err=%v", err)
		} else {
			_, err := coll.UpdateOne(wctx, bson.D{}, bson.D{{Key: "$max", Value: bson.D{{Key: "sym", Value: primitive.Symbol("s")}}}}, options.Update().SetUpsert(true))
			note("err=%v", err)
		}
	case "write_failing":
		// calls whose callback returns an error (duplicate key, invalid update,
		// immutable _id): the error path must give the slot back
		c.Count("failing_calls", 1)
		wctx, cancel := context.WithTimeout(ctx, 300*time.Millisecond)
		defer cancel()
		switch a.id % 3 {
		case 0:
			coll.InsertOne(wctx, bson.D{{Key: "_id", Value: "dup"}})
			_, err := coll.InsertOne(wctx, bson.D{{Key: "_id", Value: "dup"}})
			note("err=%v", err)
		case 1:
			_, err := coll.UpdateMany(wctx, bson.D{}, bson.D{{Key: "$inc", Value: bson.D{{Key: "_id", Value: int32(1)}}}})
			note("err=%v", err)
		default:
			_, err := coll.BulkWrite(wctx, []mongo.WriteModel{mongo.NewInsertOneModel().SetDocument(bson.D{{Key: "_id", Value: "dup2"}}), mongo.NewInsertOneModel().SetDocument(bson.D{{Key: "_id", Value: "dup2"}})})
			note("err=%v", err)
		}
	case "ddl_failing":
		// index and collection calls that begin and abort their own transaction,
		// on their error paths: conflicting index definition, dropping a missing
		// or the _id index, creating an existing collection
		c.Count("failing_calls", 1)
		wctx, cancel := context.WithTimeout(ctx, 300*time.Millisecond)
		defer cancel()
		switch a.id % 4 {
		case 0:
			coll.Indexes().CreateOne(wctx, mongoIndexModel(bson.D{{Key: "a", Value: int32(1)}}, options.Index().SetName("ix")))
			_, err := coll.Indexes().CreateOne(wctx, mongoIndexModel(bson.D{{Key: "b", Value: int32(1)}}, options.Index().SetName("ix")))
			note("err=%v", err)
		case 1:
			_, err := coll.Indexes().DropOne(wctx, "no-such-index")
			note("err=%v", err)
			_, err = coll.Indexes().DropOne(wctx, "_id_")
			note("err=%v", err)
			_, err = coll.Indexes().DropOneWithKey(wctx, bson.D{{Key: "no-such-key", Value: int32(1)}})
			note("err=%v", err)
			_, err = coll.Indexes().DropOneWithKey(wctx, bson.D{{Key: "_id", Value: int32(1)}})
			note("err=%v", err)
		case 2:
			coll.InsertOne(wctx, bson.D{{Key: "u", Value: int32(1)}})
			coll.InsertOne(wctx, bson.D{{Key: "u", Value: int32(1)}})
			_, err := coll.Indexes().CreateOne(wctx, mongoIndexModel(bson.D{{Key: "u", Value: int32(1)}}, options.Index().SetUnique(true)))
			note("err=%v", err)
		default:
			client.Database("d").CreateCollection(wctx, "made")
			err := client.Database("d").CreateCollection(wctx, "made")
			note("err=%v", err)
			_, err = client.Database("d").Collection("never-made").Indexes().DropAll(wctx)
			note("err=%v", err)
		}
	case "write_cancelled":
		c.Count("cancelled_contexts", 1)
		cctx, cancel := context.WithCancel(ctx)
		cancel()
		_, err := coll.InsertOne(cctx, bson.D{{Key: "a", Value: int32(a.id)}})
		note("err=%v", err)
	case "write_deadline":
		c.Count("cancelled_contexts", 1)
		dctx, cancel := context.WithTimeout(ctx, 2*time.Millisecond)
		_, err := coll.UpdateMany(dctx, bson.D{}, bson.D{{Key: "$inc", Value: bson.D{{Key: "n", Value: int32(1)}}}})
		cancel()
		note("err=%v", err)
	case "read":
		_, err := coll.CountDocuments(ctx, bson.D{})
		note("err=%v", err)
	case "begin":
		if a.txn != nil {
			return
		}
		bctx, cancel := context.WithTimeout(ctx, 300*time.Millisecond)
		t, err := engine.Begin(bctx, true)
		cancel()
		note("err=%v", err)
		if err == nil {
			a.txn = t
			a.holding.Store(true)
			t.Insert(lungo.Handle{"d", "c"}, nil, true)
			doc := bson.D{{Key: "raw", Value: int32(a.id)}}
			t.Insert(lungo.Handle{"d", "c"}, []*bson.D{&doc}, true)
		}
	case "commit":
		if a.txn == nil {
			return
		}
		t := a.txn
		a.txn = nil
		a.stale = t
		func() {
			defer a.holding.Store(false)
			defer func() {
				if p := recover(); p != nil {
					// a panicking store: the documented clean-up is Abort
					note("commit panicked: %v", p)
					engine.Abort(t)
					if !strings.Contains(fmt.Sprint(p), "injected store panic") {
						panic(p)
					}
				}
			}()
			err := engine.Commit(t)
			note("err=%v", err)
			if err != nil {
				engine.Abort(t)
				// the actor obtained this transaction from Begin and nobody else
				// knows it: only a closed engine or the injected store fault may
				// fail its commit
				if msg := err.Error(); strings.Contains(msg, "no active transaction") || strings.Contains(msg, "transaction mismatch") {
					lost.CompareAndSwap(nil, fmt.Sprintf("actor %d: Commit of the write transaction it holds failed with %q: the transaction was unregistered by somebody else", a.id, msg))
				}
			}
		}()
	case "abort":
		if a.txn == nil {
			return
		}
		engine.Abort(a.txn)
		a.stale = a.txn
		a.txn = nil
		a.holding.Store(false)
		note("ok")
	case "sess.start":
		if a.txn != nil {
			return // (StartTransaction takes no context: an actor that holds the slot itself would wait for itself)
		}
		err := sess.StartTransaction()
		note("err=%v", err)
	case "sess.write":
		wctx, cancel := context.WithTimeout(sctx, 300*time.Millisecond)
		_, err := coll.InsertOne(wctx, bson.D{{Key: "s", Value: int32(a.id)}})
		cancel()
		note("err=%v", err)
	case "sess.commit":
		func() {
			defer func() {
				if p := recover(); p != nil {
					note("commit panicked: %v", p)
					sess.AbortTransaction(ctx)
					if !strings.Contains(fmt.Sprint(p), "injected store panic") {
						panic(p)
					}
				}
			}()
			err := sess.CommitTransaction(ctx)
			note("err=%v", err)
		}()
	case "sess.abort":
		err := sess.AbortTransaction(ctx)
		note("err=%v", err)
	case "sess.end":
		sess.EndSession(ctx)
		note("ok")
	case "sess.drop":
		dctx, cancel := context.WithTimeout(sctx, 300*time.Millisecond)
		err := coll.Drop(dctx)
		cancel()
		note("err=%v", err)
	case "sess.index":
		dctx, cancel := context.WithTimeout(sctx, 300*time.Millisecond)
		_, err := coll.Indexes().CreateOne(dctx, mongoIndexModel(bson.D{{Key: "a", Value: int32(1)}}, nil))
		cancel()
		note("err=%v", err)
	case "use_session_abandon":
		// UseSession whose callback starts a transaction, writes and returns
		// (with or without an error, or panicking) without finishing it: the
		// session ends with the call and must give the slot back
		c.Count("abandoned_use_sessions", 1)
		variant := a.id % 3
		if variant == 2 {
			expectPanic = true
			c.Count("panics_injected", 1)
		}
		wctx, cancel := context.WithTimeout(ctx, 300*time.Millisecond)
		defer cancel()
		err := client.UseSession(wctx, func(sc lungo.ISessionContext) error {
			bctx, bcancel := context.WithTimeout(sc, 300*time.Millisecond)
			defer bcancel()
			_ = bctx
			if err := sc.StartTransaction(); err != nil {
				return err
			}
			coll.InsertOne(sc, bson.D{{Key: "us", Value: int32(a.id)}})
			switch variant {
			case 1:
				return errors.New("callback error")
			case 2:
				panic("injected callback panic")
			}
			return nil
		})
		note("err=%v", err)
	case "with_txn_ok", "with_txn_err", "with_txn_panic":
		if st == "with_txn_panic" {
			expectPanic = true
			c.Count("panics_injected", 1)
		}
		wctx, cancel := context.WithTimeout(ctx, 300*time.Millisecond)
		defer cancel()
		s2, _ := client.StartSession()
		defer s2.EndSession(nil)
		_, err := s2.WithTransaction(wctx, func(sc lungo.ISessionContext) (interface{}, error) {
			coll.InsertOne(sc, bson.D{{Key: "w", Value: int32(a.id)}})
			switch st {
			case "with_txn_err":
				return nil, errors.New("callback error")
			case "with_txn_panic":
				panic("injected callback panic")
			}
			return nil, nil
		})
		note("err=%v", err)
	case "watch":
		if a.stream != nil {
			return
		}
		s, err := coll.Watch(ctx, bson.A{})
		note("err=%v", err)
		if err == nil {
			a.stream = s
		}
	case "next":
		if a.stream == nil {
			return
		}
		nctx, cancel := context.WithTimeout(ctx, 20*time.Millisecond)
		ok := a.stream.Next(nctx)
		cancel()
		note("next=%v err=%v", ok, a.stream.Err())
	case "begin_nodeadline":
		// Begin without any deadline: only a free slot or the shutdown ends it
		c.Count("waits_without_deadline", 1)
		t, err := engine.Begin(context.Background(), true)
		note("err=%v", err)
		if err == nil {
			engine.Abort(t)
		}
	case "next_idle":
		time.Sleep(30 * time.Millisecond)
	case "abort_stale":
		// a late Abort of a transaction that is already finished ("Abort should
		// be called after finishing any transaction"): it must not touch the
		// transaction and the slot of whoever is writing now
		if a.stale == nil {
			return
		}
		c.Count("stale_aborts", 1)
		engine.Abort(a.stale)
		note("ok")
	case "next_closed_by_peer":
		// a consumer blocked in Next without deadline is released when another
		// goroutine closes the stream (or the engine closes)
		s, err := coll.Watch(ctx, bson.A{})
		if err != nil {
			note("err=%v", err)
			return
		}
		parked := make(chan struct{})
		returned := make(chan bool, 1)
		go func() {
			close(parked)
			returned <- s.Next(context.Background())
		}()
		<-parked
		time.Sleep(time.Duration(2+a.id) * time.Millisecond)
		s.Close(ctx)
		c.Count("blocked_next_closed_by_peer", 1)
		select {
		case ok := <-returned:
			note("next=%v", ok)
		case <-time.After(4 * time.Second):
			if dump := fullDump(); strings.Contains(dump, "lungo.(*Stream).next") {
				unexpectedStall.CompareAndSwap(nil, fmt.Sprintf("actor %d: a consumer blocked in Next is still blocked 4 s after Close of its stream returned", a.id))
			}
		}
	case "poll":
		if a.stream == nil {
			return
		}
		for i := 0; i < 120; i++ {
			a.stream.TryNext(ctx)
			a.stream.ResumeToken()
			if a.stream.Err() != nil {
				break
			}
		}
		c.Count("stream_polls", 1)
		note("err=%v", a.stream.Err())
	case "stream.churn":
		for i := 0; i < 25; i++ {
			s, err := coll.Watch(ctx, bson.A{})
			if err != nil {
				note("err=%v", err)
				break
			}
			s.TryNext(ctx)
			s.Close(ctx)
		}
		c.Count("stream_churns", 1)
	case "stream.close":
		if a.stream == nil {
			return
		}
		err := a.stream.Close(ctx)
		a.stream = nil
		note("err=%v", err)
	case "store.fail":
		c.Count("store_faults", 1)
		atomic.StoreInt32(&store.fail, 1)
		note("armed")
	case "store.panic":
		c.Count("store_faults", 1)
		c.Count("panics_injected", 1)
		atomic.StoreInt32(&store.panic, 1)
		note("armed")
	case "close":
		closed.Store(true)
		engine.Close()
		note("closed")
	}
}
