package checks

import (
	"context"
	"errors"
	"fmt"
	"sync"
	"sync/atomic"
	"time"

	"github.com/256dpi/lungo"
	"go.mongodb.org/mongo-driver/bson"

	"verifharness/drv"
	"verifharness/fw"
	"verifharness/gen"
	"verifharness/mon"
)

// C03 — transactions are all-or-nothing and readers see immutable snapshots.

func init() {
	fw.Register(&fw.Check{
		ID:   "C03",
		Race: true,
		Rule: "(a) sequential histories in which 1-3 sessions and a session-less client take turns, one call at a time: calls inside a session transaction are mirrored on a twin engine (an independent byte copy of the committed state taken when the transaction starts, driven without transactions); results and the transaction's working catalog must equal the twin's after every call (reads see own writes), " +
			"the committed state seen by outside readers (catalog dump and driver Find) must stay byte-identical until commit and equal the working state after a successful commit, and stay unchanged after abort, EndSession, a failing store (a Store wrapper that fails on demand), a WithTransaction callback error or panic; writes of other clients with a cancelled context must fail without effect; " +
			"a snapshot keeper takes catalogs, read-only transactions and unconsumed cursors at random steps (up to 8 live) and re-reads all of them after every later step, through commits, aborts, index builds and drops: any byte difference is a violation; " +
			"(b) concurrent runs under the race detector: 4 readers keep re-dumping held snapshots while 2 writers run histories; race reports and byte differences are violations; non-trivial = a transaction with >=2 writes was committed and another aborted while snapshots were held; distinct = hash of the executed call list",
		Assumptions: []string{"single calls use lungo's own semantics on the twin (C01/C10/C11 check those); only the transaction layering is differential", "calls are atomic steps here; interleavings inside Begin/Commit are C04/C16"},
		Batches:     func(tier string) int { return 16 },
		Require: func(tier string) map[string]int64 {
			return map[string]int64{"txn_calls_mirrored": 2000, "commits": 150, "aborts": 100, "end_session_aborts": 20, "store_failures": 20, "callback_errors": 20, "callback_panics": 10, "outside_checks": 2000,
				"snapshots_taken": 500, "snapshot_rechecks": 10000, "cursor_snapshots": 100, "cancelled_writes": 50, "concurrent_runs": 16, "concurrent_snapshot_reads": 500, "trimming_commits_with_held_snapshots": 40,
				"late_failures_in_txn": 60, "late_failure_then_commit": 40, "late_failure_last_before_commit": 20, "expiry_passes_committed_under_snapshots": 40, "expiry_passes_undone_under_snapshots": 20, "expiry_removed_under_snapshots": 40}
		},
		Run: runC03,
	})
}

// failStore fails Store calls on demand.
type failStore struct {
	mu   sync.Mutex
	cat  *lungo.Catalog
	fail bool
	n    int
}

func (s *failStore) Load() (*lungo.Catalog, error) { return s.cat, nil }
func (s *failStore) Store(c *lungo.Catalog) error {
	s.mu.Lock()
	defer s.mu.Unlock()
	s.n++
	if s.fail {
		s.fail = false
		return errors.New("injected store failure")
	}
	s.cat = c
	return nil
}
func (s *failStore) failNext() {
	s.mu.Lock()
	s.fail = true
	s.mu.Unlock()
}

// copyCatalog makes an independent byte copy of a catalog (marshal / build).
func copyCatalog(cat *lungo.Catalog) (*lungo.Catalog, error) {
	b, err := bson.Marshal(lungo.BuildFile(cat))
	if err != nil {
		return nil, err
	}
	var f lungo.File
	if err := bson.Unmarshal(b, &f); err != nil {
		return nil, err
	}
	return f.BuildCatalog()
}

type snapshot struct {
	kind   string
	cat    *lungo.Catalog     // catalog or read-only transaction's catalog
	txn    *lungo.Transaction // read-only transaction
	cursor lungo.ICursor      // unconsumed cursor
	dump   mon.CatDump
	expect []bson.D // cursor: what its twin returned at capture time
	reads  string   // read-only transaction: Find results at capture time
	step   int
}

func txnReads(t *lungo.Transaction, handles []lungo.Handle) string {
	out := ""
	for _, h := range handles {
		res, err := t.Find(h, &bson.D{}, nil, 0, 0)
		if err != nil {
			out += "err:" + err.Error()
			continue
		}
		for _, d := range res.Matched {
			out += string(gen.Bytes(*d))
		}
		out += "|"
	}
	return out
}

var c03Handles = []lungo.Handle{{"d", "c1"}, {"d", "c2"}}

// c03Trimmed: held snapshots while commits of every kind (data writes, index
// builds and drops, collection creation, transactions) trim old events from the
// change log (retention): the snapshots, including their change log, must not
// change.
func c03Trimmed(c *fw.Ctx) {
	kinds := []string{"insert", "createIndex", "dropIndex", "createCollection", "update", "transaction", "dropCollection", "delete"}
	caseNo := 0
	for L := 4; L <= 8; L += 2 {
		for minSize := 1; minSize <= 2; minSize++ {
			for first := range kinds {
				caseNo++
				if caseNo%c.NBatches != c.Batch {
					continue
				}
				idx := 8500000 + caseNo
				if c.Skip(idx) {
					continue
				}
				var w *world
				describe := func() interface{} {
					if w == nil {
						return nil
					}
					return map[string]interface{}{"history": w.history(), "old_events": L, "minSize": minSize}
				}
				c.Case(idx, describe, nil, func() {
					c.Eval(1)
					ages := make([]time.Duration, L)
					for i := range ages {
						ages[i] = ageOld
					}
					var err error
					w, err = openWorldWith("", func(o *lungo.Options) {
						o.Store = &preloadedStore{cat: craftedOplog(ages)}
						o.MinOplogSize, o.MaxOplogSize, o.MinOplogAge, o.MaxOplogAge = minSize, minSize+2, 5*time.Minute, time.Hour
					})
					if err != nil {
						c.Inconclusive("open engine: " + err.Error())
						return
					}
					defer w.close()
					ctx := context.Background()
					type held struct {
						what string
						cat  func() *lungo.Catalog
						dump mon.CatDump
					}
					var snaps []held
					take := func(after string) {
						cat := w.engine.Catalog()
						snaps = append(snaps, held{what: "catalog obtained after " + after, cat: func() *lungo.Catalog { return cat }, dump: exactDump(cat)})
						if t, err := w.engine.Begin(ctx, false); err == nil {
							snaps = append(snaps, held{what: "read-only transaction begun after " + after, cat: t.Catalog, dump: exactDump(t.Catalog())})
						}
					}
					take("opening")
					// a collection with an index to drop, created before the old events age out of protection
					for k := 0; k < len(kinds); k++ {
						kind := kinds[(first+k)%len(kinds)]
						before := mon.OplogLen(w.engine.Catalog())
						switch kind {
						case "insert":
							w.exec(&drv.Op{Kind: drv.InsertOne, DB: "d", Coll: "c", Docs: []bson.D{{{Key: "_id", Value: int32(k)}, {Key: "a", Value: int32(k)}}}})
						case "createIndex":
							w.exec(&drv.Op{Kind: drv.CreateIndex, DB: "d", Coll: "c", Index: drv.IndexSpec{Keys: bson.D{{Key: "a", Value: int32(1)}}, Name: fmt.Sprintf("ix%d", k)}})
						case "dropIndex":
							w.exec(&drv.Op{Kind: drv.DropAllIndexes, DB: "d", Coll: "c"})
						case "createCollection":
							w.exec(&drv.Op{Kind: drv.CreateCollection, DB: "d", Coll: fmt.Sprintf("n%d", k)})
						case "update":
							w.exec(&drv.Op{Kind: drv.UpdateMany, DB: "d", Coll: "c", Filter: bson.D{}, Update: bson.D{{Key: "$inc", Value: bson.D{{Key: "n", Value: int32(1)}}}}})
						case "delete":
							w.exec(&drv.Op{Kind: drv.DeleteOne, DB: "d", Coll: "c", Filter: bson.D{}})
						case "dropCollection":
							w.exec(&drv.Op{Kind: drv.DropCollection, DB: "d", Coll: fmt.Sprintf("n%d", k-1)})
						case "transaction":
							if w.begin() == nil {
								w.exec(&drv.Op{Kind: drv.InsertOne, DB: "d", Coll: "c", Docs: []bson.D{{{Key: "_id", Value: fmt.Sprintf("t%d", k)}}}})
								w.commit()
							}
						}
						if mon.OplogLen(w.engine.Catalog()) < before+1 && mon.OplogLen(w.engine.Catalog()) <= before {
							c.Count("trimming_commits_with_held_snapshots", 1)
						}
						for _, s := range snaps {
							c.Count("snapshot_rechecks", 1)
							if d := s.dump.Diff(exactDump(s.cat())); d != "" {
								c.Violate("snapshot:changed-by-retention", fmt.Sprintf("a %s returns other bytes after a %s commit that trimmed the change log: %s", s.what, kind, d), map[string]interface{}{"history": w.history()})
								return
							}
						}
						take(kind)
					}
				})
			}
		}
	}
}

func runC03(c *fw.Ctx) {
	if c.Batch < 16 {
		c03Concurrent(c)
	}
	c03Trimmed(c)
	c03FailedCallThenCommit(c)
	c03ExpiryUnderSnapshots(c)
	nhist := c.N(240, 2400) / c.NBatches
	for q := 0; q < nhist; q++ {
		idx := c.Batch*nhist + q
		if c.Skip(idx) {
			continue
		}
		r := c.Rand(idx)
		var w *world
		describe := func() interface{} {
			if w == nil {
				return nil
			}
			return map[string]interface{}{"history": w.history()}
		}
		c.Case(idx, describe, nil, func() {
			c.Eval(1)
			store := &failStore{cat: lungo.NewCatalog()}
			var err error
			w, err = openWorldWith("", func(o *lungo.Options) { o.Store = store })
			if err != nil {
				c.Inconclusive("open engine: " + err.Error())
				return
			}
			defer w.close()
			c03History(c, w, store, r, c.N(90, 160))
		})
	}
}

func c03History(c *fw.Ctx, w *world, store *failStore, r *fw.Rand, steps int) {
	g := &drv.HistGen{R: r, O: drv.HistOpts{Profile: "mixed", DBs: []string{"d"}, Colls: []string{"c1", "c2"}, ExplicitIDs: true, Deterministic: true, Pool: gen.Core},
		Peek: w.peek, IndexNames: w.indexNames}
	ctx := context.Background()
	witness := func(extra map[string]interface{}) interface{} {
		m := map[string]interface{}{"history": w.history()}
		for k, v := range extra {
			m[k] = v
		}
		return m
	}
	var snaps []*snapshot
	var callSig []byte
	var twin *world
	defer func() {
		if twin != nil {
			twin.close()
		}
	}()
	committedBig, abortedOne := false, false
	txnWrites := 0
	mDump := exactDump(w.engine.Catalog())
	outsideReads := func() string {
		out := ""
		for _, h := range c03Handles {
			res := drv.Exec(ctx, w.client, &drv.Op{Kind: drv.Find, DB: h[0], Coll: h[1]})
			out += res.String() + "|"
		}
		return out
	}
	mReads := outsideReads()
	step := 0
	recheck := func(after string) bool {
		for _, s := range snaps {
			c.Count("snapshot_rechecks", 1)
			switch s.kind {
			case "catalog":
				if d := s.dump.Diff(exactDump(s.cat)); d != "" {
					c.Violate("snapshot:catalog-changed", fmt.Sprintf("a catalog obtained at step %d returns other bytes after %s (step %d): %s", s.step, after, step, d), witness(nil))
					return false
				}
			case "readonly-txn":
				if d := s.dump.Diff(exactDump(s.txn.Catalog())); d != "" {
					c.Violate("snapshot:readonly-transaction-changed", fmt.Sprintf("a read-only transaction begun at step %d sees other bytes after %s (step %d): %s", s.step, after, step, d), witness(nil))
					return false
				}
				if txnReads(s.txn, c03Handles) != s.reads {
					c.Violate("snapshot:readonly-transaction-changed", fmt.Sprintf("a read-only transaction begun at step %d returns other Find results after %s (step %d)", s.step, after, step), witness(nil))
					return false
				}
			}
		}
		return true
	}
	consume := func(s *snapshot, after string) bool {
		var got []bson.D
		if err := s.cursor.All(ctx, &got); err != nil {
			c.Violate("snapshot:cursor-error", "consuming a held cursor failed: "+err.Error(), witness(nil))
			return false
		}
		c.Count("snapshot_rechecks", 1)
		same := len(got) == len(s.expect)
		for i := 0; same && i < len(got); i++ {
			same = string(gen.Bytes(got[i])) == string(gen.Bytes(s.expect[i]))
		}
		if !same {
			c.Violate("snapshot:cursor-changed", fmt.Sprintf("a cursor opened at step %d and consumed after %s (step %d) returns other documents than at the time it was opened", s.step, after, step),
				witness(map[string]interface{}{"expected": jsonList(s.expect), "got": jsonList(got)}))
			return false
		}
		return true
	}
	takeSnapshot := func() {
		if len(snaps) >= 8 {
			// retire the oldest (a cursor is consumed when it retires)
			old := snaps[0]
			snaps = snaps[1:]
			if old.kind == "cursor" && !consume(old, "retirement") {
				return
			}
		}
		c.Count("snapshots_taken", 1)
		switch r.Intn(3) {
		case 0:
			cat := w.engine.Catalog()
			snaps = append(snaps, &snapshot{kind: "catalog", cat: cat, dump: exactDump(cat), step: step})
		case 1:
			t, err := w.engine.Begin(ctx, false)
			if err != nil {
				return
			}
			snaps = append(snaps, &snapshot{kind: "readonly-txn", txn: t, dump: exactDump(t.Catalog()), reads: txnReads(t, c03Handles), step: step})
		default:
			h := fw.Pick(r, c03Handles)
			coll := w.client.Database(h[0]).Collection(h[1])
			cur, err := coll.Find(ctx, bson.D{})
			if err != nil {
				return
			}
			var expect []bson.D
			tcur, err := coll.Find(ctx, bson.D{})
			if err != nil || tcur.All(ctx, &expect) != nil {
				return
			}
			c.Count("cursor_snapshots", 1)
			snaps = append(snaps, &snapshot{kind: "cursor", cursor: cur, expect: expect, step: step})
		}
	}
	outsideUnchanged := func(after string) bool {
		c.Count("outside_checks", 1)
		if d := mDump.Diff(exactDump(w.engine.Catalog())); d != "" {
			c.Violate("txn:visible-outside", fmt.Sprintf("after %s inside an open (or failed) transaction the committed state seen by other clients changed: %s", after, d), witness(nil))
			return false
		}
		if rd := outsideReads(); rd != mReads {
			c.Violate("txn:visible-outside", fmt.Sprintf("after %s inside an open (or failed) transaction a Find by another client returns other documents", after), witness(map[string]interface{}{"before": mReads, "now": rd}))
			return false
		}
		return true
	}
	setM := func() {
		mDump = exactDump(w.engine.Catalog())
		mReads = outsideReads()
	}
	startTwin := func() bool {
		if twin != nil {
			twin.close()
			twin = nil
		}
		cp, err := copyCatalog(w.engine.Catalog())
		if err != nil {
			c.Inconclusive("cannot copy the catalog for the twin: " + err.Error())
			return false
		}
		twin, err = openWorldWith("", func(o *lungo.Options) { o.Store = &preloadedStore{cat: cp} })
		if err != nil {
			c.Inconclusive("cannot open the twin: " + err.Error())
			return false
		}
		return true
	}

	for step = 0; step < steps; step++ {
		if !w.inTxn {
			switch x := r.Intn(20); {
			case x < 3:
				if !startTwin() {
					return
				}
				if err := w.begin(); err != nil {
					c.Violate("txn:begin", "StartTransaction failed: "+err.Error(), witness(nil))
					return
				}
				txnWrites = 0
				continue
			case x < 5:
				takeSnapshot()
				continue
			case x == 5:
				// WithTransaction: callback ok / error / panic
				if !c03WithTransaction(c, w, g, r, witness, &mDump, setM) {
					return
				}
				if !recheck("WithTransaction") {
					return
				}
				continue
			}
			op := g.Next()
			res := w.exec(&op)
			if res.Panic != "" {
				return
			}
			callSig = append(callSig, []byte(op.String())...)
			setM()
			if !recheck(op.Kind) {
				return
			}
			continue
		}
		// inside a transaction
		switch x := r.Intn(20); {
		case x < 2:
			// commit, sometimes with a failing store
			wDump := normDump(w.cat())
			wExact := exactDump(w.cat())
			failing := r.Chance(1, 4) && w.sess.(*lungo.Session).Transaction().Dirty()
			if failing {
				store.failNext()
			}
			err := w.commit()
			if failing {
				c.Count("store_failures", 1)
				if err == nil {
					c.Violate("txn:store-failure-ignored", "the store failed while committing but CommitTransaction reported success", witness(nil))
					return
				}
				if !outsideUnchanged("a commit whose store failed") {
					return
				}
				// the engine keeps working
				probe := drv.Op{Kind: drv.InsertOne, DB: "d", Coll: "probe", Docs: []bson.D{{{Key: "_id", Value: fmt.Sprintf("probe-%d", step)}}}}
				if pr := w.exec(&probe); pr.Err != "" {
					c.Violate("txn:wedged-after-store-failure", "after a commit whose store failed the next write fails: "+pr.Err, witness(nil))
					return
				}
				setM()
			} else {
				if err != nil {
					c.Violate("txn:commit", "CommitTransaction failed: "+err.Error(), witness(nil))
					return
				}
				c.Count("commits", 1)
				if txnWrites >= 2 {
					committedBig = true
				}
				if d := wDump.Diff(normDump(w.engine.Catalog())); d != "" {
					c.Violate("txn:commit-differs", "after commit other clients see something else than the transaction's working state: "+d, witness(nil))
					return
				}
				_ = wExact
				if twin != nil {
					if d := normDump(twin.engine.Catalog()).Diff(normDump(w.engine.Catalog())); d != "" {
						c.Violate("txn:commit-differs-from-sequential", "the committed state differs from executing the transaction's calls one by one without a transaction: "+d, witness(map[string]interface{}{"twin_history": twin.history()}))
						return
					}
				}
				setM()
			}
			if !recheck("commit") {
				return
			}
		case x == 2, x == 3:
			if x == 2 {
				w.abort()
				c.Count("aborts", 1)
			} else {
				// EndSession with an open transaction
				w.sess.EndSession(ctx)
				w.sess, w.sc, w.inTxn = nil, nil, false
				w.note("-- EndSession with an open transaction")
				c.Count("end_session_aborts", 1)
			}
			abortedOne = true
			if !outsideUnchanged("abort") {
				return
			}
			free, active, _, _ := w.engine.VerifState()
			if free != 1 || active {
				c.Violate("txn:slot-not-released", fmt.Sprintf("after abort the writer slot is not free (free=%d txn=%v)", free, active), witness(nil))
				return
			}
			if !recheck("abort") {
				return
			}
		case x == 4:
			takeSnapshot()
		case x == 5:
			// a write by another client with a cancelled context must fail without effect
			cctx, cancel := context.WithCancel(ctx)
			cancel()
			op := drv.Op{Kind: drv.InsertOne, DB: "d", Coll: "c1", Docs: []bson.D{{{Key: "_id", Value: fmt.Sprintf("cancelled-%d", step)}}}}
			res := drv.Exec(cctx, w.client, &op)
			w.note("(other client, cancelled context) " + op.String() + " => " + res.String())
			c.Count("cancelled_writes", 1)
			if res.Err == "" {
				c.Violate("txn:second-writer", "a write by another client succeeded while a transaction held the writer slot", witness(nil))
				return
			}
			if !outsideUnchanged("a cancelled write of another client") {
				return
			}
		default:
			op := g.Next()
			if drv.IsIndexOp(op.Kind) || op.Kind == drv.CreateCollection || op.Kind == drv.DropCollection || op.Kind == drv.DropDatabase {
				continue
			}
			top := op.Clone()
			res := w.exec(&op)
			if res.Panic != "" {
				return
			}
			callSig = append(callSig, []byte(op.String())...)
			tres := twin.exec(&top)
			c.Count("txn_calls_mirrored", 1)
			if drv.IsWrite(op.Kind) && res.Err == "" {
				txnWrites++
			}
			if d := res.Diff(tres); d != "" {
				c.Violate("txn:call-differs-from-sequential", fmt.Sprintf("%s inside the transaction returned something else than the same call sequence without a transaction (reads must see the transaction's own writes): %s", op.Kind, d),
					witness(map[string]interface{}{"twin_history": twin.history()}))
				return
			}
			if d := normDump(w.cat()).Diff(normDump(twin.engine.Catalog())); d != "" {
				c.Violate("txn:working-state-differs", "the transaction's working state differs from executing its calls one by one without a transaction: "+d, witness(map[string]interface{}{"twin_history": twin.history()}))
				return
			}
			if !outsideUnchanged(op.Kind) {
				return
			}
			if !recheck(op.Kind + " in transaction") {
				return
			}
		}
	}
	if w.inTxn {
		w.abort()
		if !outsideUnchanged("final abort") {
			return
		}
	}
	for _, s := range snaps {
		if s.kind == "cursor" && !consume(s, "the end of the history") {
			return
		}
	}
	if !recheck("the end of the history") {
		return
	}
	if committedBig && abortedOne && len(snaps) > 0 {
		c.Count("nontrivial_histories", 1)
		c.Nontrivial(fw.Hash64(callSig))
		if c.WantSample() {
			hs := w.history()
			if len(hs) > 25 {
				hs = hs[:25]
			}
			c.Sample(map[string]interface{}{"first_steps": hs})
		}
	}
}

// c03WithTransaction runs a few calls in a WithTransaction callback that
// returns nil, an error or panics.
func c03WithTransaction(c *fw.Ctx, w *world, g *drv.HistGen, r *fw.Rand, witness func(map[string]interface{}) interface{}, mDump *mon.CatDump, setM func()) bool {
	mode := r.Intn(3)
	sess, err := w.client.StartSession()
	if err != nil {
		return true
	}
	defer sess.EndSession(nil)
	var inside mon.CatDump
	n := r.Range(1, 4)
	var ops []drv.Op
	for i := 0; i < n; i++ {
		op := g.Next()
		if drv.IsIndexOp(op.Kind) || op.Kind == drv.CreateCollection || op.Kind == drv.DropCollection || op.Kind == drv.DropDatabase {
			continue
		}
		ops = append(ops, op)
	}
	run := func() (err error) {
		defer func() {
			if p := recover(); p != nil {
				err = fmt.Errorf("panic: %v", p)
			}
		}()
		_, err = sess.WithTransaction(context.Background(), func(sc lungo.ISessionContext) (interface{}, error) {
			for i := range ops {
				res := drv.Exec(sc, w.client, &ops[i])
				w.note("(WithTransaction) " + ops[i].String() + " => " + res.String())
			}
			inside = normDump(sc.(*lungo.SessionContext).Session.Transaction().Catalog())
			switch mode {
			case 1:
				return nil, errors.New("callback error")
			case 2:
				panic("callback panic")
			}
			return nil, nil
		})
		return err
	}
	err = run()
	w.note(fmt.Sprintf("-- WithTransaction mode=%d err=%v", mode, err))
	switch mode {
	case 0:
		if err != nil {
			c.Violate("txn:with-transaction", "WithTransaction with a succeeding callback failed: "+err.Error(), witness(nil))
			return false
		}
		c.Count("commits", 1)
		if d := inside.Diff(normDump(w.engine.Catalog())); d != "" {
			c.Violate("txn:commit-differs", "after WithTransaction other clients see something else than the transaction's working state: "+d, witness(nil))
			return false
		}
		setM()
	default:
		if mode == 1 {
			c.Count("callback_errors", 1)
		} else {
			c.Count("callback_panics", 1)
		}
		if err == nil {
			c.Violate("txn:with-transaction", "WithTransaction swallowed the callback's error/panic", witness(nil))
			return false
		}
		if d := mDump.Diff(exactDump(w.engine.Catalog())); d != "" {
			c.Violate("txn:visible-outside", "a WithTransaction callback that failed left changes behind: "+d, witness(nil))
			return false
		}
		free, active, _, _ := w.engine.VerifState()
		if free != 1 || active {
			c.Violate("txn:slot-not-released", fmt.Sprintf("after a failed WithTransaction callback the writer slot is not free (free=%d txn=%v)", free, active), witness(nil))
			return false
		}
	}
	return true
}

// c03Concurrent: readers keep re-dumping held snapshots while writers run.
func c03Concurrent(c *fw.Ctx) {
	runs := c.N(1, 6)
	for k := 0; k < runs; k++ {
		idx := 8000000 + c.Batch*100 + k
		if c.Skip(idx) {
			continue
		}
		r := c.Rand(idx)
		c.Case(idx, nil, nil, func() {
			c.Eval(1)
			c.Count("concurrent_runs", 1)
			w, err := openWorld("")
			if err != nil {
				c.Inconclusive("open engine: " + err.Error())
				return
			}
			defer w.close()
			ctx := context.Background()
			// initial contents
			for i := 0; i < 2; i++ {
				g := &drv.HistGen{R: r, O: drv.HistOpts{Profile: "crud", DBs: []string{"d"}, Colls: []string{fmt.Sprintf("w%d", i)}, ExplicitIDs: true, Deterministic: true, NoReads: true}, Peek: w.peek, IndexNames: w.indexNames}
				for j := 0; j < 15; j++ {
					op := g.Next()
					drv.Exec(ctx, w.client, &op)
				}
				drv.Exec(ctx, w.client, &drv.Op{Kind: drv.CreateIndex, DB: "d", Coll: fmt.Sprintf("w%d", i), Index: drv.IndexSpec{Keys: bson.D{{Key: "a", Value: int32(1)}}}})
			}
			var mu sync.Mutex
			type held struct {
				cat  *lungo.Catalog
				dump mon.CatDump
			}
			snaps := []held{}
			take := func() {
				cat := w.engine.Catalog()
				h := held{cat: cat, dump: exactDump(cat)}
				mu.Lock()
				snaps = append(snaps, h)
				if len(snaps) > 12 {
					snaps = snaps[len(snaps)-12:]
				}
				mu.Unlock()
			}
			take()
			var stop atomic.Bool
			var bad atomic.Value
			var reads atomic.Int64
			var wg, wr sync.WaitGroup
			for i := 0; i < 4; i++ {
				wg.Add(1)
				go func(i int) {
					defer wg.Done()
					for n := 0; !stop.Load(); n++ {
						mu.Lock()
						h := snaps[(n+i)%len(snaps)]
						mu.Unlock()
						if d := h.dump.Diff(exactDump(h.cat)); d != "" {
							bad.Store("a held catalog returned other bytes while writers were running: " + d)
							return
						}
						reads.Add(1)
						if n%5 == 0 {
							take()
						}
					}
				}(i)
			}
			seeds := []*fw.Rand{r.Fork(), r.Fork()}
			for i := 0; i < 2; i++ {
				wr.Add(1)
				go func(i int) {
					defer wr.Done()
					rr := seeds[i]
					coll := fmt.Sprintf("w%d", i)
					g := &drv.HistGen{R: rr, O: drv.HistOpts{Profile: "crud", DBs: []string{"d"}, Colls: []string{coll}, ExplicitIDs: true, Deterministic: true, NoReads: true}, Peek: w.peek, IndexNames: w.indexNames}
					nops := c.N(150, 400)
					for j := 0; j < nops; j++ {
						if j%40 == 20 {
							// a session transaction with a few writes, committed or aborted
							sess, err := w.client.StartSession()
							if err == nil {
								if sess.StartTransaction() == nil {
									lungo.WithSession(ctx, sess, func(sc lungo.ISessionContext) error {
										for q := 0; q < 3; q++ {
											op := g.Next()
											drv.Exec(sc, w.client, &op)
										}
										return nil
									})
									if rr.Bool() {
										sess.CommitTransaction(ctx)
									} else {
										sess.AbortTransaction(ctx)
									}
								}
								sess.EndSession(ctx)
							}
							continue
						}
						op := g.Next()
						drv.Exec(ctx, w.client, &op)
					}
				}(i)
			}
			wr.Wait()
			stop.Store(true)
			wg.Wait()
			c.Count("concurrent_snapshot_reads", reads.Load())
			if b := bad.Load(); b != nil {
				c.Violate("snapshot:catalog-changed-concurrently", b.(string), nil)
				return
			}
			for _, p := range mon.CheckCatalog(w.engine.Catalog(), nil) {
				c.Violate("concurrent:inv:"+p.Kind, "after the concurrent run: "+p.String(), nil)
				return
			}
		})
	}
}
