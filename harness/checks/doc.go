// Package checks holds one file per property check; each registers itself
// with the framework in its init function.
package checks
