package checks

import (
	"context"
	"fmt"
	"strconv"
	"strings"

	"github.com/256dpi/lungo"
	"github.com/256dpi/lungo/mongokit"
	"go.mongodb.org/mongo-driver/bson"

	"verifharness/drv"
	"verifharness/fw"
	"verifharness/gen"
	"verifharness/mon"
	"verifharness/ref"
)

// C15 — every index always holds exactly the documents of its collection.
// C07 — unique indexes never admit two documents with the same key.
// Both run index-churn histories through the driver and evaluate the
// structural invariants after every call; each reports its own invariants.

func init() {
	fw.Register(&fw.Check{
		ID: "C15",
		Rule: "seeded index-churn histories (inserts, multi-updates, replaces, upserts, bulk writes, findOneAnd*, index create/drop incl. attempts on _id_, conflicting and repeated definitions, session transactions committed/aborted, file reloads) over collision-rich documents; " +
			"after every call (also failed ones) every index of every collection is compared with the collection: membership by identity incl. partial filters, each document once, key order under the reference extractor, equality with an index rebuilt from scratch, presence of _id_; " +
			"non-trivial history = at least one secondary index that held documents while writes changed their keys or partial-filter membership; distinct = hash of the executed call list",
		Assumptions: []string{"partial-filter membership is decided by ref.Match (core domain); indexes whose filter or key path leaves the domain are compared with the rebuilt index only", "ties in a non-unique index are ordered by document address; the rebuilt index uses the same documents so the orders are comparable"},
		Batches:     func(tier string) int { return 16 },
		Require: func(tier string) map[string]int64 {
			return map[string]int64{"calls": 5000, "inv_membership_docs": 20000, "inv_order_pairs": 5000, "inv_rebuilds": 5000, "projected_reads": 1500, "inv_tree_entries_compared": 20000, "partial_filtered_docs": 500, "multikey_docs": 1000,
				"index_recreate_same": 50, "index_conflicting_definition": 50, "txn_commits": 20, "txn_aborts": 20, "reloads": 20, "failed_calls": 500}
		},
		Run: func(c *fw.Ctx) { runIndexHistories(c, "C15") },
	})
	fw.Register(&fw.Check{
		ID: "C07",
		Rule: "seeded index-churn histories over a collision-rich value pool (equal numbers of different numeric types, arrays sharing elements, missing vs null, empty arrays) with unique, compound, multikey and partial-unique indexes; " +
			"after every call all pairs of documents under every unique index are compared with an independent key extractor and BSON comparator; inserts and unique index builds are predicted by that extractor, " +
			"single-document updates/replaces/upserts by a twin collection without unique indexes (a pair in the twin's result <=> the real call must fail with a uniqueness error); non-trivial = the history contained both a rejected and an accepted write under a secondary unique index; distinct = hash of the executed call list",
		Assumptions: []string{"ref.IndexTuples / ref.Compare implement DESIGN.md 8.5 / 8.1", "documents whose key path fans out over arrays of sub-documents or holds nested arrays are outside the asserted domain (state pairs are still compared when in domain)"},
		Batches:     func(tier string) int { return 16 },
		Require: func(tier string) map[string]int64 {
			return map[string]int64{"calls": 5000, "inv_unique_pairs": 20000, "insert_predictions": 1000, "twin_predictions": 500, "build_predictions": 200, "bulk_predictions": 300,
				"uniqueness_errors_expected": 300, "uniqueness_accepts_expected": 1000}
		},
		Run: func(c *fw.Ctx) { runIndexHistories(c, "C07") },
	})
}

type uniqueCfg struct {
	name    string
	key     bson.D
	partial *bson.D
}

func uniqueConfigs(cat *lungo.Catalog, h lungo.Handle) []uniqueCfg {
	ns := cat.Namespaces[h]
	if ns == nil {
		// a collection that does not exist yet gets its _id index on creation
		return []uniqueCfg{{name: "_id_", key: bson.D{{Key: "_id", Value: int32(1)}}}}
	}
	var out []uniqueCfg
	for n, idx := range ns.Indexes {
		cfg := idx.Config()
		if cfg.Unique {
			u := uniqueCfg{name: n, key: *cfg.Key}
			if cfg.Partial != nil {
				p := *cfg.Partial
				u.partial = &p
			}
			out = append(out, u)
		}
	}
	return out
}

// pairUnder tells whether docs contain two documents sharing a key under any
// of the unique definitions. ok=false: outside the domain.
func pairUnder(docs []bson.D, cfgs []uniqueCfg) (pair bool, which string, ok bool) {
	ok = true
	for _, u := range cfgs {
		for i := range docs {
			conf, cok := mon.Conflicts(docs[i], docs[i+1:], u.key, u.partial)
			if !cok {
				ok = false
				continue
			}
			if conf {
				return true, u.name, true
			}
		}
	}
	return false, "", ok
}

func indexNameOf(keys bson.D) string {
	var segs []string
	for _, e := range keys {
		dir := 1
		if n, ok := ref.ToNum(e.Value); ok && n.Rat != nil && n.Rat.Sign() < 0 {
			dir = -1
		}
		segs = append(segs, e.Key, strconv.Itoa(dir))
	}
	return strings.Join(segs, "_")
}

func specEqualsConfig(s drv.IndexSpec, cfg mongokit.IndexConfig) bool {
	if string(gen.Bytes(s.Keys)) != string(gen.Bytes(*cfg.Key)) || s.Unique != cfg.Unique {
		return false
	}
	if (s.Partial == nil) != (cfg.Partial == nil) {
		return false
	}
	if s.Partial != nil && string(gen.Bytes(s.Partial)) != string(gen.Bytes(*cfg.Partial)) {
		return false
	}
	var exp int64
	if s.Expire != nil {
		exp = int64(*s.Expire) * 1e9
		if exp == 0 {
			exp = 1
		}
	}
	return exp == int64(cfg.Expiry)
}

// c15ReadsBetweenWrites: directed histories on collections whose indexes are
// multikey over arrays inside embedded documents (one of them unique). Reads
// with projections of every overlapping form aimed at a stored document
// (parent inclusion plus operator overlay on the indexed array, nested
// inclusions/exclusions, $elemMatch) alternate with writes that move, remove
// and reuse index keys. The entries of an index are located by recomputing
// the key tuples of the stored document, so a read that alters a stored
// document leaves stale or unreachable entries behind: the invariants
// (membership, entry-level rebuild differential, uniqueness) run after every
// call.
func c15ReadsBetweenWrites(c *fw.Ctx, id string) {
	n := c.N(240, 4800) / c.NBatches
	for q := 0; q < n; q++ {
		idx := 7000000 + c.Batch*n + q
		if c.Skip(idx) {
			continue
		}
		r := c.Rand(idx)
		var w *world
		describe := func() interface{} {
			if w == nil {
				return nil
			}
			return map[string]interface{}{"history": w.history()}
		}
		c.Case(idx, describe, nil, func() {
			c.Eval(1)
			var err error
			w, err = openWorld("")
			if w != nil {
				w.solo = true
			}
			if err != nil {
				c.Inconclusive("open engine: " + err.Error())
				return
			}
			defer w.close()
			st := &mon.InvStats{}
			violated := false
			check := func(after string) {
				for _, p := range mon.CheckCatalog(w.cat(), st) {
					isUnique := p.Kind == "unique-violated" || p.Kind == "index-rebuild-fails"
					if ((id == "C07") == isUnique) && !violated {
						c.Violate("inv:"+p.Kind, fmt.Sprintf("after %s (reads with projections between writes): %s", after, p.String()),
							map[string]interface{}{"history": w.history(), "state": mon.Dump(w.cat(), mon.DumpOpts{}).String()})
						violated = true
					}
				}
			}
			run := func(op drv.Op) drv.Res {
				res := w.exec(&op)
				c.Count("calls", 1)
				check(op.Kind)
				return res
			}
			// an insert is rejected for uniqueness exactly if it shares an m.t
			// element (or the _id) with a present document (independent oracle)
			insert := func(d bson.D) {
				pre := w.peek("d", "c1")
				c1, ok1 := mon.Conflicts(d, pre, bson.D{{Key: "m.t", Value: int32(1)}}, nil)
				c2, ok2 := mon.Conflicts(d, pre, bson.D{{Key: "_id", Value: int32(1)}}, nil)
				res := run(drv.Op{Kind: drv.InsertOne, DB: "d", Coll: "c1", Docs: []bson.D{d}})
				if !ok1 || !ok2 || violated || id != "C07" {
					return
				}
				c.Count("insert_predictions", 1)
				if want := c1 || c2; want != res.Unique {
					key := "unique:rejected-without-conflict"
					if want {
						key = "unique:accepted-or-wrong-error"
					}
					c.Violate(key, fmt.Sprintf("an insert that shares a unique key with a present document: %v, but the call returned err=%q (reads with projections between writes)", want, res.Err),
						map[string]interface{}{"history": w.history(), "collection_before": jsonList(pre), "document": gen.JSON(d)})
					violated = true
				}
			}
			code := int32(0)
			newDoc := func(i int) bson.D {
				tags := bson.A{}
				for k := r.Range(1, 4); k > 0; k-- {
					code++
					tags = append(tags, code)
					if r.Chance(1, 3) {
						tags = append(tags, code) // the same element twice: one key, two positions
					}
				}
				xs := bson.A{}
				for k := r.Range(0, 3); k > 0; k-- {
					xs = append(xs, fw.Pick(r, []interface{}{int32(1), int32(2), "a", float64(2)}))
				}
				return bson.D{{Key: "_id", Value: int32(i)}, {Key: "c", Value: bson.D{{Key: "x", Value: xs}, {Key: "y", Value: int32(i % 3)}}},
					{Key: "m", Value: bson.D{{Key: "t", Value: tags}, {Key: "sub", Value: bson.D{{Key: "l", Value: bson.A{int32(1), int32(2), int32(3)}}}}}}, {Key: "a", Value: int32(i % 2)}}
			}
			for _, spec := range []drv.IndexSpec{{Keys: bson.D{{Key: "c.x", Value: int32(1)}}}, {Keys: bson.D{{Key: "m.t", Value: int32(1)}}, Unique: true},
				{Keys: bson.D{{Key: "m.sub.l", Value: int32(-1)}, {Key: "a", Value: int32(1)}}}} {
				run(drv.Op{Kind: drv.CreateIndex, DB: "d", Coll: "c1", Index: spec})
			}
			next := 1
			for ; next <= 5; next++ {
				insert(newDoc(next))
			}
			steps := c.N(24, 40)
			for s := 0; s < steps && !violated; s++ {
				docs := w.peek("d", "c1")
				if len(docs) == 0 {
					insert(newDoc(next))
					next++
					continue
				}
				tgt := fw.Pick(r, docs)
				byID := bson.D{{Key: "_id", Value: ref.GetPath(tgt, "_id")}}
				if r.Chance(3, 5) {
					// a read aimed at the target
					proj := gen.Projection(r, tgt, gen.ProjOpts{NoInvalid: true, Overlap: r.Chance(3, 4)})
					f := byID
					if r.Chance(1, 3) {
						f = bson.D{}
					}
					c.Count("projected_reads", 1)
					switch r.Intn(4) {
					case 0:
						run(drv.Op{Kind: drv.Find, DB: "d", Coll: "c1", Filter: f, Projection: proj})
					case 1:
						run(drv.Op{Kind: drv.FindOne, DB: "d", Coll: "c1", Filter: f, Projection: proj})
					case 2:
						run(drv.Op{Kind: drv.FindOneAndUpdate, DB: "d", Coll: "c1", Filter: f, Projection: proj, ReturnAfter: r.Bool(),
							Update: bson.D{{Key: "$inc", Value: bson.D{{Key: "n", Value: int32(1)}}}}})
					default:
						run(drv.Op{Kind: drv.FindOneAndUpdate, DB: "d", Coll: "c1", Filter: f, Projection: proj, ReturnAfter: true,
							Update: bson.D{{Key: "$set", Value: bson.D{{Key: "a", Value: ref.GetPath(tgt, "a")}}}}}) // changes nothing
					}
					continue
				}
				// a write that moves, frees or reuses keys
				switch r.Intn(6) {
				case 0:
					run(drv.Op{Kind: drv.DeleteOne, DB: "d", Coll: "c1", Filter: byID})
				case 1:
					// reuse the (unique) tags of a document deleted earlier or of the target
					d := newDoc(next)
					next++
					if r.Bool() {
						run(drv.Op{Kind: drv.DeleteOne, DB: "d", Coll: "c1", Filter: byID})
						d[2].Value.(bson.D)[0].Value = gen.CloneValue(ref.GetPath(tgt, "m.t"))
					} else if r.Chance(1, 3) {
						d[2].Value.(bson.D)[0].Value = gen.CloneValue(ref.GetPath(tgt, "m.t")) // collides with the target
					}
					insert(d)
				case 2:
					code++
					run(drv.Op{Kind: drv.UpdateOne, DB: "d", Coll: "c1", Filter: byID, Update: bson.D{{Key: "$push", Value: bson.D{{Key: "m.t", Value: code}, {Key: "c.x", Value: int32(3)}}}}})
				case 3:
					run(drv.Op{Kind: drv.UpdateOne, DB: "d", Coll: "c1", Filter: byID, Update: bson.D{{Key: "$pop", Value: bson.D{{Key: "m.t", Value: int32(1)}, {Key: "m.sub.l", Value: int32(-1)}}}}})
				case 4:
					d := newDoc(next)
					next++
					run(drv.Op{Kind: drv.ReplaceOne, DB: "d", Coll: "c1", Filter: byID, Update: d[1:]})
				default:
					run(drv.Op{Kind: drv.UpdateMany, DB: "d", Coll: "c1", Filter: bson.D{}, Update: bson.D{{Key: "$set", Value: bson.D{{Key: "a", Value: int32(s % 2)}}}}})
				}
			}
			c.Count("inv_membership_docs", st.MembershipDocs)
			c.Count("inv_order_pairs", st.OrderPairs)
			c.Count("inv_rebuilds", st.Rebuilds)
			c.Count("inv_tree_entries_compared", st.EntriesCompared)
			c.Count("inv_unique_pairs", st.UniquePairs)
			c.Count("multikey_docs", st.MultikeyDocs)
			c.Count("inv_out_of_domain", st.OutOfDomain)
		})
	}
}

func runIndexHistories(c *fw.Ctx, id string) {
	c15ReadsBetweenWrites(c, id)
	nhist := c.N(1600, 48000) / c.NBatches
	for q := 0; q < nhist; q++ {
		idx := c.Batch*nhist + q
		if c.Skip(idx) {
			continue
		}
		r := c.Rand(idx)
		var w *world
		describe := func() interface{} {
			if w == nil {
				return nil
			}
			return map[string]interface{}{"history": w.history()}
		}
		c.Case(idx, describe, nil, func() {
			c.Eval(1)
			file := ""
			if r.Chance(1, 3) {
				file = scratchFile(c.Scratch, idx)
			}
			var err error
			w, err = openWorld(file)
			if w != nil {
				w.solo = true
			}
			if err != nil {
				c.Inconclusive("open engine: " + err.Error())
				return
			}
			defer w.close()
			indexHistory(c, id, w, r, c.N(70, 90))
		})
	}
}

func indexHistory(c *fw.Ctx, id string, w *world, r *fw.Rand, steps int) {
	isC15, isC07 := id == "C15", id == "C07"
	g := &drv.HistGen{R: r, O: drv.HistOpts{Profile: "index", DBs: []string{"d"}, Colls: []string{"c1", "c2"}, ExplicitIDs: true, Deterministic: true, Pool: gen.Core, TTL: true},
		Peek: w.peek, IndexNames: w.indexNames}
	st := &mon.InvStats{}
	var callSig []byte
	sawReject, sawAccept, movedKeys := false, false, false
	violated := false
	witness := func(extra map[string]interface{}) interface{} {
		m := map[string]interface{}{"history": w.history(), "state": mon.Dump(w.cat(), mon.DumpOpts{}).String()}
		for k, v := range extra {
			m[k] = v
		}
		return m
	}
	checkState := func(after string) {
		for _, p := range mon.CheckCatalog(w.cat(), st) {
			isUnique := p.Kind == "unique-violated" || p.Kind == "index-rebuild-fails"
			if (isC07 && isUnique) || (isC15 && !isUnique) {
				if !violated {
					c.Violate("inv:"+p.Kind, fmt.Sprintf("after %s: %s", after, p.String()), witness(nil))
				}
				violated = true
			}
		}
	}
	for step := 0; step < steps && !violated; step++ {
		// transaction and reload steps
		if !w.inTxn {
			switch x := r.Intn(40); {
			case x < 2:
				if err := w.begin(); err != nil {
					c.Violate("txn:begin", "StartTransaction failed: "+err.Error(), witness(nil))
					return
				}
				continue
			case x == 2 && w.file != "":
				if err := w.reload(); err != nil {
					if isC15 {
						c.Violate("reload:error", "reopening the store file failed: "+err.Error(), witness(nil))
					}
					return
				}
				c.Count("reloads", 1)
				checkState("reload")
				continue
			}
		} else {
			switch x := r.Intn(10); {
			case x < 2:
				if err := w.commit(); err != nil {
					c.Violate("txn:commit", "CommitTransaction failed: "+err.Error(), witness(nil))
					return
				}
				c.Count("txn_commits", 1)
				checkState("commit")
				continue
			case x == 2:
				w.abort()
				c.Count("txn_aborts", 1)
				checkState("abort")
				continue
			}
		}
		op := g.Next()
		if w.inTxn && drv.IsIndexOp(op.Kind) {
			continue
		}
		h := lungo.Handle{op.DB, op.Coll}
		pre := w.peek(op.DB, op.Coll)
		preCfgs := uniqueConfigs(w.cat(), h)
		var preIdx map[string]mongokit.IndexConfig
		if ns := w.cat().Namespaces[h]; ns != nil {
			preIdx = map[string]mongokit.IndexConfig{}
			for n, ix := range ns.Indexes {
				preIdx[n] = ix.Config()
			}
		}
		preDump := mon.Dump(w.cat(), mon.DumpOpts{})
		opc := op.Clone()
		res := w.exec(&op)
		c.Count("calls", 1)
		c.Count("op:"+op.Kind, 1)
		callSig = append(callSig, []byte(op.String())...)
		if res.Err != "" {
			c.Count("failed_calls", 1)
		}
		if res.Panic != "" {
			c.Count("panics_seen", 1) // reported by C20
			return
		}
		checkState(op.Kind)
		if violated {
			break
		}
		if len(preCfgs) > 1 && drv.IsWrite(op.Kind) && !drv.IsIndexOp(op.Kind) && len(pre) > 0 {
			movedKeys = true
		}

		if isC15 {
			c15IndexLaws(c, w, &opc, res, preIdx, preDump, witness, &violated)
		}
		if isC07 {
			c07Predict(c, w, &opc, res, pre, preCfgs, witness, &violated, &sawReject, &sawAccept)
		}
	}
	if w.inTxn {
		w.abort()
		checkState("final abort")
	}
	c.Count("inv_collections", st.Collections)
	c.Count("inv_indexes", st.Indexes)
	c.Count("inv_membership_docs", st.MembershipDocs)
	c.Count("inv_order_pairs", st.OrderPairs)
	c.Count("inv_rebuilds", st.Rebuilds)
	c.Count("inv_tree_entries_compared", st.EntriesCompared)
	c.Count("inv_unique_pairs", st.UniquePairs)
	c.Count("partial_filtered_docs", st.PartialFiltered)
	c.Count("multikey_docs", st.MultikeyDocs)
	c.Count("inv_out_of_domain", st.OutOfDomain)
	nontrivial := (isC15 && movedKeys) || (isC07 && sawReject && sawAccept)
	if nontrivial {
		c.Count("nontrivial_histories", 1)
		c.Nontrivial(fw.Hash64(callSig))
		if c.WantSample() {
			hs := w.history()
			if len(hs) > 25 {
				hs = hs[:25]
			}
			c.Sample(map[string]interface{}{"first_calls": hs})
		}
	}
}

// c15IndexLaws: re-creating an existing definition is a no-op, a conflicting
// definition fails.
func c15IndexLaws(c *fw.Ctx, w *world, op *drv.Op, res drv.Res, preIdx map[string]mongokit.IndexConfig, preDump mon.CatDump, witness func(map[string]interface{}) interface{}, violated *bool) {
	if op.Kind != drv.CreateIndex {
		return
	}
	s := op.Index
	name := s.Name
	if name == "" {
		name = indexNameOf(s.Keys)
	}
	// conflict prediction from the definitions that existed before the call
	sameDef, conflict := false, false
	for n, cfg := range preIdx {
		keyEq := string(gen.Bytes(s.Keys)) == string(gen.Bytes(*cfg.Key))
		defEq := specEqualsConfig(s, cfg)
		switch {
		case n == name && defEq:
			sameDef = true
		case n == name && !defEq:
			conflict = true
		case n != name && keyEq:
			conflict = true
		}
	}
	if sameDef && !conflict {
		c.Count("index_recreate_same", 1)
		if res.Err != "" || len(res.Names) != 1 || res.Names[0] != name {
			c.Violate("index:recreate-same-not-noop", fmt.Sprintf("creating index %q again with the same definition did not succeed with the same name (err=%q names=%v)", name, res.Err, res.Names), witness(nil))
			*violated = true
			return
		}
		if d := preDump.Diff(mon.Dump(w.cat(), mon.DumpOpts{})); d != "" {
			c.Violate("index:recreate-same-changes-state", "creating an index that already exists with the same definition changed the collection: "+d, witness(nil))
			*violated = true
		}
		return
	}
	if conflict {
		c.Count("index_conflicting_definition", 1)
		if res.Err == "" {
			c.Violate("index:conflicting-definition-accepted", fmt.Sprintf("creating index %q whose name or key is already used by a different definition succeeded", name), witness(map[string]interface{}{"op": op.String()}))
			*violated = true
		}
		return
	}
	// a fresh definition that succeeded: creating it again must be a no-op
	if res.Err == "" {
		before := mon.Dump(w.cat(), mon.DumpOpts{})
		again := op.Clone()
		r2 := w.exec(&again)
		c.Count("index_recreate_same", 1)
		if r2.Err != "" || len(r2.Names) != 1 || len(res.Names) != 1 || r2.Names[0] != res.Names[0] {
			c.Violate("index:recreate-same-not-noop", fmt.Sprintf("creating the index a second time with the same definition returned err=%q names=%v (first: %v)", r2.Err, r2.Names, res.Names), witness(nil))
			*violated = true
			return
		}
		if d := before.Diff(mon.Dump(w.cat(), mon.DumpOpts{})); d != "" {
			c.Violate("index:recreate-same-changes-state", "creating an index a second time with the same definition changed the collection: "+d, witness(nil))
			*violated = true
		}
	}
}

// c07Predict asserts the uniqueness-error class of a call.
func c07Predict(c *fw.Ctx, w *world, op *drv.Op, res drv.Res, pre []bson.D, cfgs []uniqueCfg, witness func(map[string]interface{}) interface{}, violated *bool, sawReject, sawAccept *bool) {
	secondary := len(cfgs) > 1
	expect := func(what string, wantUnique bool) {
		if wantUnique {
			c.Count("uniqueness_errors_expected", 1)
			if secondary {
				*sawReject = true
			}
			if !res.Unique {
				c.Violate("unique:accepted-or-wrong-error", fmt.Sprintf("%s would put two documents with the same key under a unique index, but the call returned err=%q (uniqueness error expected)", what, res.Err),
					witness(map[string]interface{}{"op": op.String(), "collection_before": jsonList(pre)}))
				*violated = true
			}
		} else {
			c.Count("uniqueness_accepts_expected", 1)
			if secondary {
				*sawAccept = true
			}
			if res.Unique {
				c.Violate("unique:rejected-without-conflict", fmt.Sprintf("%s creates no two documents with the same key under any unique index, but the call was rejected with a uniqueness error: %q", what, res.Err),
					witness(map[string]interface{}{"op": op.String(), "collection_before": jsonList(pre)}))
				*violated = true
			}
		}
	}
	switch op.Kind {
	case drv.InsertOne:
		d := op.Docs[0]
		if len(d) == 0 || d[0].Key != "_id" {
			return
		}
		conf, ok := false, true
		for _, u := range cfgs {
			cf, cok := mon.Conflicts(d, pre, u.key, u.partial)
			if !cok {
				ok = false
			}
			conf = conf || cf
		}
		if !ok {
			return
		}
		c.Count("insert_predictions", 1)
		expect("the insert", conf)
	case drv.InsertMany:
		// sequential model of the batch
		cur := append([]bson.D{}, pre...)
		anyConf := false
		for _, d := range op.Docs {
			conf := false
			for _, u := range cfgs {
				cf, cok := mon.Conflicts(d, cur, u.key, u.partial)
				if !cok {
					return
				}
				conf = conf || cf
			}
			if conf {
				anyConf = true
				if op.Ordered {
					break
				}
				continue
			}
			cur = append(cur, d)
		}
		c.Count("insert_predictions", 1)
		expect("the batch insert", anyConf)
		if !*violated {
			// exactly the predicted documents were inserted
			got := w.peek(op.DB, op.Coll)
			if len(got) != len(cur) {
				c.Violate("unique:batch-content", fmt.Sprintf("after the batch insert the collection holds %d documents, the sequential prediction %d", len(got), len(cur)),
					witness(map[string]interface{}{"op": op.String(), "collection_before": jsonList(pre), "expected": jsonList(cur)}))
				*violated = true
			}
		}
	case drv.CreateIndex:
		if !op.Index.Unique {
			return
		}
		var part *bson.D
		if op.Index.Partial != nil {
			part = &op.Index.Partial
		}
		pair, _, ok := pairUnder(pre, []uniqueCfg{{name: "new", key: op.Index.Keys, partial: part}})
		if !ok {
			return
		}
		c.Count("build_predictions", 1)
		if pair {
			// the build must fail (with a uniqueness error unless the definition
			// itself is rejected for another reason first)
			if res.Err == "" {
				c.Violate("unique:build-accepted-duplicates", "a unique index was built over documents that share a key", witness(map[string]interface{}{"op": op.String(), "collection_before": jsonList(pre)}))
				*violated = true
			}
			c.Count("uniqueness_errors_expected", 1)
		} else if res.Unique {
			c.Violate("unique:build-rejected-without-duplicates", "a unique index build was rejected for uniqueness although no two documents share a key: "+res.Err, witness(map[string]interface{}{"op": op.String(), "collection_before": jsonList(pre)}))
			*violated = true
		} else {
			c.Count("uniqueness_accepts_expected", 1)
		}
	case drv.BulkWrite:
		// ordered bulks (and unordered bulks of inserts): the items are applied one
		// after another to a twin without the secondary unique indexes; the first
		// item after which two documents share a key is the one the real call
		// must have rejected with a uniqueness error (also when the error is
		// wrapped into the bulk write exception)
		allInserts := true
		for _, m := range op.Models {
			if m.Kind != drv.InsertOne {
				allInserts = false
			}
		}
		if !op.Ordered && !allInserts {
			return
		}
		tc, te, err := openMemEngine()
		if err != nil {
			return
		}
		defer te.Close()
		ctx := context.Background()
		if len(pre) > 0 {
			ins := make([]interface{}, len(pre))
			for i, d := range pre {
				ins[i] = d
			}
			if _, err := tc.Database(op.DB).Collection(op.Coll).InsertMany(ctx, ins); err != nil {
				return
			}
		}
		anyConf := false
		for _, m := range op.Models {
			if m.Kind == drv.InsertOne {
				cur := mon.Docs(te.Catalog(), lungo.Handle{op.DB, op.Coll})
				conf := false
				for _, u := range cfgs {
					cf, cok := mon.Conflicts(m.Docs[0], cur, u.key, u.partial)
					if !cok {
						return
					}
					conf = conf || cf
				}
				if conf {
					anyConf = true
					if op.Ordered {
						break
					}
					continue
				}
			}
			tm := m.Clone()
			tm.DB, tm.Coll = op.DB, op.Coll
			if tres := drv.Exec(ctx, tc, &tm); tres.Err != "" {
				return // another kind of failure comes first: class not predicted
			}
			pair, _, ok := pairUnder(mon.Docs(te.Catalog(), lungo.Handle{op.DB, op.Coll}), cfgs)
			if !ok {
				return
			}
			if pair {
				anyConf = true
				break
			}
		}
		c.Count("bulk_predictions", 1)
		expect("the bulk write", anyConf)
		if anyConf && res.Unique && !res.UniqueAll && !*violated {
			c.Violate("unique:bulk-error-not-classified", "a bulk write was rejected for uniqueness (the item's write error is a uniqueness error), but IsUniquenessError does not recognise the error the call returned", witness(map[string]interface{}{"op": op.String()}))
			*violated = true
		}
	case drv.UpdateOne, drv.UpdateMany, drv.UpdateByID, drv.ReplaceOne, drv.FindOneAndUpdate, drv.FindOneAndReplace:
		// twin without secondary unique indexes
		tc, te, err := openMemEngine()
		if err != nil {
			return
		}
		defer te.Close()
		ctx := context.Background()
		if len(pre) > 0 {
			ins := make([]interface{}, len(pre))
			for i, d := range pre {
				ins[i] = d
			}
			if _, err := tc.Database(op.DB).Collection(op.Coll).InsertMany(ctx, ins); err != nil {
				return
			}
		}
		top := op.Clone()
		tres := drv.Exec(ctx, tc, &top)
		if tres.Err != "" {
			// the twin rejects the call for another reason (or an _id clash)
			if tres.Unique && res.Unique && op.Kind != drv.ReplaceOne && op.Kind != drv.FindOneAndReplace {
				// the twin has no unique index but _id_: an update cannot change an
				// _id, so only an upsert that inserts can clash there - and an
				// upsert never inserts when a present document matches the filter
				matches := false
				for _, d := range pre {
					info := &ref.MatchInfo{}
					f := op.Filter
					if op.Kind == drv.UpdateByID {
						f = bson.D{{Key: "_id", Value: op.ID}}
					}
					if m, err := ref.Match(d, f, info); err == nil && !info.OutOfDomain && m {
						matches = true
					}
				}
				if matches {
					c.Count("matched_upsert_predictions", 1)
					c.Violate("unique:rejected-without-conflict", fmt.Sprintf("the %s matches a present document, so it inserts nothing and cannot create a second document with a key, but it was rejected with a uniqueness error: %q", op.Kind, res.Err),
						witness(map[string]interface{}{"op": op.String(), "collection_before": jsonList(pre)}))
					*violated = true
					return
				}
			}
			if res.Err == "" {
				c.Violate("unique:twin-error-only", "a call failed on a collection holding the same documents without the secondary indexes but succeeded on the real one: "+tres.Err,
					witness(map[string]interface{}{"op": op.String(), "collection_before": jsonList(pre)}))
				*violated = true
			}
			return
		}
		post := mon.Docs(te.Catalog(), lungo.Handle{op.DB, op.Coll})
		pair, which, ok := pairUnder(post, cfgs)
		if !ok {
			return
		}
		c.Count("twin_predictions", 1)
		what := "the " + op.Kind
		if pair {
			what += " (conflict under index " + which + ")"
		}
		expect(what, pair)
		if !pair && !*violated && res.Err != "" {
			c.Violate("unique:real-error-only", "a call that succeeds without the secondary indexes and creates no duplicate key failed: "+res.Err,
				witness(map[string]interface{}{"op": op.String(), "collection_before": jsonList(pre)}))
			*violated = true
		}
	}
}
