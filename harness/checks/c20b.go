package checks

import (
	"fmt"
	"math"

	"github.com/256dpi/lungo/bsonkit"
	"github.com/256dpi/lungo/mongokit"
	"go.mongodb.org/mongo-driver/bson"

	"verifharness/fw"
	"verifharness/gen"
)

// c20Extremes are the numbers at which integer arithmetic on operator
// arguments wraps, truncates or divides by zero.
var c20Extremes = []interface{}{
	int64(math.MinInt64), int64(math.MinInt64) + 1, int64(math.MaxInt64), int64(math.MaxInt64) - 1, int32(math.MinInt32), int32(math.MaxInt32),
	int32(0), int32(1), int32(-1), int32(2), int32(-2), int64(1) << 32, -(int64(1) << 32),
	-9.223372036854775808e18, 9.223372036854775807e18, 1e300, -1e300, 0.5, -0.5, -0.0, 2.0, -3.0, math.NaN(), math.Inf(1), math.Inf(-1),
	gen.D128("-9223372036854775808"), gen.D128("0.5"), gen.D128("1E+6000"),
}

// c20Grid is the directed family "well-formed operators with extreme numeric
// arguments on well-formed targets": every combination of the extremes above as
// $push modifiers ($slice, $position, alone and together) over arrays and $each
// lists of length 0-3, as projection $slice windows, as $mod divisor/remainder
// against extreme field values, and as $inc/$mul/$bit operands against extreme
// field values. Each call must return a result or an error.
func c20Grid(c *fw.Ctx, begin func(func() string), end func()) {
	arrays := []bson.A{{}, {int32(1)}, {int32(1), int32(2), int32(3)}}
	n := 0
	run := func(detail string, f func()) {
		n++
		if n%c.NBatches != c.Batch {
			return
		}
		idx := 9600000 + n
		if c.Skip(idx) {
			return
		}
		c.Case(idx, func() interface{} { return detail }, c20Key, func() {
			c.Eval(1)
			c.Count("grid_calls", 1)
			d := func() string { return detail }
			begin(d)
			defer end()
			f()
		})
	}
	apply := func(doc, upd bson.D) {
		nd, ok1 := norm(doc)
		nu, ok2 := norm(upd)
		if !ok1 || !ok2 {
			return
		}
		run(fmt.Sprintf("mongokit.Apply doc=%s update=%s", gen.JSON(doc), gen.JSON(upd)), func() {
			mongokit.Apply(bsonkit.Clone(nd), nil, nu, false, nil)
		})
	}
	none := interface{}(struct{}{})
	for _, arr := range arrays {
		for _, each := range arrays {
			for _, sl := range append([]interface{}{none}, c20Extremes...) {
				for _, pos := range append([]interface{}{none}, c20Extremes...) {
					if sl == none && pos == none {
						continue
					}
					// the full cross product only for the integers; doubles and decimals alone
					if sl != none && pos != none {
						if _, ok := sl.(float64); ok {
							continue
						}
						if _, ok := pos.(float64); ok {
							continue
						}
					}
					spec := bson.D{{Key: "$each", Value: each}}
					if sl != none {
						spec = append(spec, bson.E{Key: "$slice", Value: sl})
					}
					if pos != none {
						spec = append(spec, bson.E{Key: "$position", Value: pos})
					}
					apply(bson.D{{Key: "a", Value: arr}}, bson.D{{Key: "$push", Value: bson.D{{Key: "a", Value: spec}}}})
				}
			}
		}
		// projection windows
		for _, x := range c20Extremes {
			for _, y := range append([]interface{}{none}, c20Extremes...) {
				var w interface{} = x
				if y != none {
					w = bson.A{x, y}
				}
				doc := bson.D{{Key: "a", Value: arr}}
				proj := bson.D{{Key: "a", Value: bson.D{{Key: "$slice", Value: w}}}}
				nd, ok1 := norm(doc)
				np, ok2 := norm(proj)
				if !ok1 || !ok2 {
					continue
				}
				run(fmt.Sprintf("mongokit.Project doc=%s projection=%s", gen.JSON(doc), gen.JSON(proj)), func() { mongokit.Project(nd, np) })
			}
		}
	}
	for _, v := range c20Extremes {
		for _, x := range c20Extremes {
			doc := bson.D{{Key: "n", Value: v}}
			for _, op := range []string{"$inc", "$mul", "$min", "$max"} {
				apply(doc, bson.D{{Key: op, Value: bson.D{{Key: "n", Value: x}}}})
			}
			for _, b := range []string{"and", "or", "xor"} {
				apply(doc, bson.D{{Key: "$bit", Value: bson.D{{Key: "n", Value: bson.D{{Key: b, Value: x}}}}}})
			}
			for _, y := range c20Extremes {
				f := bson.D{{Key: "n", Value: bson.D{{Key: "$mod", Value: bson.A{x, y}}}}}
				nd, ok1 := norm(doc)
				nf, ok2 := norm(f)
				if !ok1 || !ok2 {
					continue
				}
				run(fmt.Sprintf("mongokit.Match doc=%s filter=%s", gen.JSON(doc), gen.JSON(f)), func() { mongokit.Match(nd, nf) })
			}
			for _, bop := range []string{"$bitsAllSet", "$bitsAnyClear"} {
				f := bson.D{{Key: "n", Value: bson.D{{Key: bop, Value: x}}}}
				nd, ok1 := norm(doc)
				nf, ok2 := norm(f)
				if !ok1 || !ok2 {
					continue
				}
				run(fmt.Sprintf("mongokit.Match doc=%s filter=%s", gen.JSON(doc), gen.JSON(f)), func() { mongokit.Match(nd, nf) })
			}
		}
	}
}
