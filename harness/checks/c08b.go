package checks

import (
	"context"
	"fmt"

	"github.com/256dpi/lungo"
	"github.com/256dpi/lungo/bsonkit"
	"github.com/256dpi/lungo/mongokit"
	"go.mongodb.org/mongo-driver/bson"
	"go.mongodb.org/mongo-driver/mongo/options"

	"verifharness/fw"
	"verifharness/mon"
)

// c08Transactions is a directed family on multi-step transactions, the place
// where the change log of the working state and the committed change log can
// get confused:
//
//	(engine) an engine transaction runs 2-5 steps drawn from {create collection,
//	create index, drop index, insert, update, replace, delete, drop}; after
//	every step the committed state (change log included) must be byte-identical
//	to the one before the transaction, and the working log must have grown by
//	exactly the number of documents the step changed; then the transaction is
//	aborted (committed log unchanged) or committed (committed log = working
//	log, and replaying the new events onto the contents before gives the
//	contents after);
//	(session) a session transaction with 1-2 writes, a find-and-modify that
//	fails late (projection rejected on the matched document), 0-1 writes, then
//	commit or abort: the failed call adds no event, the committed log is the
//	old one plus exactly the events of the successful writes, replay holds.
func c08Transactions(c *fw.Ctx) {
	n := c.N(160, 1600)
	for q := 0; q < n; q++ {
		if q%c.NBatches != c.Batch {
			continue
		}
		idx := 8900000 + q
		if c.Skip(idx) {
			continue
		}
		r := c.Rand(idx)
		var w *world
		var log []string
		describe := func() interface{} {
			if w == nil {
				return nil
			}
			return map[string]interface{}{"setup": w.history(), "transaction": log}
		}
		c.Case(idx, describe, nil, func() {
			c.Eval(1)
			var err error
			w, err = openWorld("")
			if err != nil {
				c.Inconclusive("open engine: " + err.Error())
				return
			}
			defer w.close()
			bg := context.Background()
			h := lungo.Handle{"d", "c"}
			coll := w.client.Database("d").Collection("c")
			for i := 1; i <= 4; i++ {
				coll.InsertOne(bg, bson.D{{Key: "_id", Value: int32(i)}, {Key: "n", Value: int32(i)}, {Key: "a", Value: bson.A{bson.D{{Key: "x", Value: int32(i)}}}}})
			}
			w.client.Database("d").Collection("other").InsertOne(bg, bson.D{{Key: "_id", Value: "o"}})
			witness := func() interface{} { return describe() }
			pre := exactDump(w.engine.Catalog())
			preCont := contentsOf(w.engine.Catalog())
			preEvents := oplogEvents(w.engine.Catalog())
			outside := func(after string) bool {
				c.Count("txn_outside_checks", 1)
				if d := pre.Diff(exactDump(w.engine.Catalog())); d != "" {
					c.Violate("oplog:uncommitted-visible", "after "+after+" inside an open transaction the committed state (change log included) changed: "+d, witness())
					return false
				}
				return true
			}
			finish := func(working *lungo.Catalog, commit func() error, abort func()) {
				workEvents := oplogEvents(working)
				if r.Chance(2, 5) {
					abort()
					log = append(log, "abort")
					c.Count("directed_txn_aborted", 1)
					if d := pre.Diff(exactDump(w.engine.Catalog())); d != "" {
						c.Violate("oplog:aborted-transaction-logged", "after the abort the committed state (change log included) differs from the one before the transaction: "+d, witness())
					}
					return
				}
				if err := commit(); err != nil {
					c.Violate("txn:commit", "commit failed: "+err.Error(), witness())
					return
				}
				log = append(log, "commit")
				c.Count("directed_txn_committed", 1)
				evs := oplogEvents(w.engine.Catalog())
				same := len(evs) == len(workEvents)
				for i := 0; same && i < len(evs); i++ {
					same = eventID(evs[i]) == eventID(workEvents[i])
				}
				if !same {
					c.Violate("oplog:commit-differs-from-transaction", fmt.Sprintf("after commit the change log has %d events, the transaction had recorded %d (or other ids)", len(evs), len(workEvents)), witness())
					return
				}
				for i := range preEvents {
					if i >= len(evs) || eventID(evs[i]) != eventID(preEvents[i]) {
						c.Violate("oplog:rewritten", fmt.Sprintf("after commit event %d of the change log is no longer the event recorded before the transaction", i), witness())
						return
					}
				}
				st := preCont.clone()
				for k := len(preEvents); k < len(evs); k++ {
					if err := applyEvent(st, evs[k]); err != nil {
						c.Violate("oplog:unreplayable-event", err.Error(), witness())
						return
					}
				}
				c.Count("replay_pairs", 1)
				if d := st.diff(contentsOf(w.engine.Catalog())); d != "" {
					c.Violate("oplog:replay-pair", "replaying the events the transaction appended onto the contents before it does not give the contents after the commit: "+d, witness())
				}
			}

			if q%2 == 0 {
				// engine level
				txn, err := w.engine.Begin(bg, true)
				if err != nil {
					c.Inconclusive("begin: " + err.Error())
					return
				}
				defer w.engine.Abort(txn)
				steps := 2 + r.Intn(4)
				for s := 0; s < steps; s++ {
					cat0 := txn.Catalog()
					len0 := mon.OplogLen(cat0)
					cont0 := contentsOf(cat0)
					var serr error
					var name string
					exact := true
					switch r.Intn(9) {
					case 0:
						name = fmt.Sprintf("Create(d.new%d)", s)
						serr = txn.Create(lungo.Handle{"d", fmt.Sprintf("new%d", s)})
					case 1:
						name = "CreateIndex(d.c, n)"
						key := bson.D{{Key: "n", Value: int32(1)}}
						_, serr = txn.CreateIndex(h, "", mongokit.IndexConfig{Key: bsonkit.MustConvert(key)})
					case 2:
						name = "DropIndex(d.c, n_1)"
						serr = txn.DropIndex(h, "n_1")
					case 3:
						name = "Insert(d.c)"
						_, serr = txn.Insert(h, bsonkit.List{bsonkit.MustConvert(bson.D{{Key: "_id", Value: fmt.Sprintf("t%d", s)}, {Key: "n", Value: int32(50 + s)}})}, true)
					case 4:
						name = "Update(d.c, n>1, $inc n)"
						_, serr = txn.Update(h, bsonkit.MustConvert(bson.D{{Key: "n", Value: bson.D{{Key: "$gt", Value: int32(1)}}}}), nil, bsonkit.MustConvert(bson.D{{Key: "$inc", Value: bson.D{{Key: "n", Value: int32(10)}}}}), 0, r.Intn(3), false, nil)
					case 5:
						name = "Replace(d.c, first)"
						_, serr = txn.Replace(h, bsonkit.MustConvert(bson.D{}), nil, bsonkit.MustConvert(bson.D{{Key: "r", Value: int32(s)}}), false)
					case 6:
						name = "Delete(d.c, one)"
						_, serr = txn.Delete(h, bsonkit.MustConvert(bson.D{}), nil, 0, 1)
					case 7:
						name = "Delete(d.other, all)"
						_, serr = txn.Delete(lungo.Handle{"d", "other"}, bsonkit.MustConvert(bson.D{}), nil, 0, 0)
					default:
						name = "Drop(d.other)"
						serr = txn.Drop(lungo.Handle{"d", "other"})
						exact = false // one drop event per dropped namespace, not per document
					}
					log = append(log, fmt.Sprintf("%s => %v", name, serr))
					c.Count("engine_txn_steps", 1)
					delta := mon.OplogLen(txn.Catalog()) - len0
					changed := cont0.changed(contentsOf(txn.Catalog()))
					if serr != nil && (delta != 0 || changed != 0) {
						c.Violate("oplog:event-count", fmt.Sprintf("%s failed (%v) but the working state changed (%d documents, %d events)", name, serr, changed, delta), witness())
						return
					}
					if exact && delta != changed {
						c.Violate("oplog:event-count", fmt.Sprintf("%s changed %d documents inside the transaction, its change log grew by %d", name, changed, delta), witness())
						return
					}
					if !outside(name) {
						return
					}
				}
				finish(txn.Catalog(), func() error { return w.engine.Commit(txn) }, func() { w.engine.Abort(txn) })
				return
			}

			// session level with a late failure
			if err := w.begin(); err != nil {
				c.Inconclusive("start transaction: " + err.Error())
				return
			}
			write := func(k int) bool {
				var err error
				switch r.Intn(3) {
				case 0:
					_, err = coll.InsertOne(w.ctx(), bson.D{{Key: "_id", Value: fmt.Sprintf("s%d", k)}, {Key: "a", Value: bson.A{bson.D{{Key: "x", Value: int32(1)}}}}})
				case 1:
					_, err = coll.UpdateMany(w.ctx(), bson.D{{Key: "n", Value: bson.D{{Key: "$gte", Value: int32(2)}}}}, bson.D{{Key: "$inc", Value: bson.D{{Key: "n", Value: int32(1)}}}})
				default:
					_, err = w.client.Database("d").Collection("other").InsertOne(w.ctx(), bson.D{{Key: "_id", Value: fmt.Sprintf("s%d", k)}})
				}
				log = append(log, fmt.Sprintf("write %d => %v", k, err))
				return err == nil && outside("a write")
			}
			for k := 0; k < 1+r.Intn(2); k++ {
				if !write(k) {
					return
				}
			}
			bad := bson.D{{Key: "a", Value: bson.D{{Key: "$elemMatch", Value: bson.D{{Key: "x", Value: bson.D{{Key: "$isnot", Value: int32(1)}}}}}}}}
			len0 := mon.OplogLen(w.cat())
			cont0 := contentsOf(w.cat())
			target := bson.D{{Key: "_id", Value: int32(1 + r.Intn(4))}}
			var ferr error
			switch r.Intn(3) {
			case 0:
				ferr = coll.FindOneAndUpdate(w.ctx(), target, bson.D{{Key: "$set", Value: bson.D{{Key: "n", Value: int32(99)}}}}, options.FindOneAndUpdate().SetProjection(bad)).Err()
				log = append(log, fmt.Sprintf("FindOneAndUpdate with late-failing projection => %v", ferr))
			case 1:
				ferr = coll.FindOneAndReplace(w.ctx(), target, bson.D{{Key: "n", Value: int32(98)}}, options.FindOneAndReplace().SetProjection(bad)).Err()
				log = append(log, fmt.Sprintf("FindOneAndReplace with late-failing projection => %v", ferr))
			default:
				ferr = coll.FindOneAndDelete(w.ctx(), target, options.FindOneAndDelete().SetProjection(bad)).Err()
				log = append(log, fmt.Sprintf("FindOneAndDelete with late-failing projection => %v", ferr))
			}
			if ferr == nil {
				w.abort()
				return
			}
			c.Count("late_failures_in_txn", 1)
			if delta, changed := mon.OplogLen(w.cat())-len0, cont0.changed(contentsOf(w.cat())); delta != 0 || changed != 0 {
				c.Violate("oplog:event-count", fmt.Sprintf("a find-and-modify that failed inside the transaction left %d events and %d changed documents in the working state", delta, changed), witness())
				return
			}
			if !outside("the failed call") {
				return
			}
			if r.Bool() {
				if !write(9) {
					return
				}
			}
			finish(w.cat(), w.commit, func() { w.abort() })
		})
	}
}
