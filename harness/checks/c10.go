package checks

import (
	"bytes"
	"context"
	"fmt"
	"math"
	"strings"

	"github.com/256dpi/lungo"
	"github.com/256dpi/lungo/mongokit"
	"go.mongodb.org/mongo-driver/bson"
	"go.mongodb.org/mongo-driver/bson/primitive"

	"verifharness/fw"
	"verifharness/gen"
	"verifharness/ref"
)

// C10 — query filters: reference agreement in the core domain, logical laws
// everywhere, Match vs. driver path agreement.

func init() {
	fw.Register(&fw.Check{
		ID: "C10",
		Rule: "seeded (document set, filter) cases: 6 documents (independent + near-miss mutations) x 5 filters built from the documents' own paths and values; " +
			"core mode asserts agreement with ref.Match where the evaluation stayed inside the core domain, wild mode (nested arrays, boundary numerics, numeric keys) asserts the logical laws only; " +
			"a (set, filter) case is non-trivial if the filter matched some and rejected some documents of its set; distinct = hash of filter+set",
		Assumptions: []string{"ref.Match implements DESIGN.md 8.2 and is trusted inside the core domain", "laws need no reference"},
		Batches:     func(tier string) int { return 16 },
		Require: func(tier string) map[string]int64 {
			return map[string]int64{"ref_asserted": 2000, "laws_checked": 5000, "driver_compared": 200, "nontrivial_filters": 100, "numeric_pairs_asserted": 100000, "directed_asserted": 1500}
		},
		Run: runC10,
	})
}

func lungoMatch(d bson.D, f bson.D) (res bool, err error, mutated string) {
	dc := gen.CloneDoc(d)
	fc := gen.CloneDoc(f)
	db, fb := gen.Bytes(dc), gen.Bytes(fc)
	res, err = mongokit.Match(&dc, &fc)
	if !bytes.Equal(db, gen.Bytes(dc)) {
		mutated = "document"
	} else if !bytes.Equal(fb, gen.Bytes(fc)) {
		mutated = "filter"
	}
	return
}

// c10Key classifies a (doc, filter) input for known-finding matching.
func c10Key(d bson.D, f bson.D) string {
	return ""
}

func mutateDoc(r *fw.Rand, d bson.D, o gen.Opts) bson.D {
	c := gen.CloneDoc(d)
	if len(c) == 0 {
		return gen.Doc(r, o, false)
	}
	i := r.Intn(len(c))
	switch r.Intn(5) {
	case 0:
		c = append(c[:i], c[i+1:]...)
	case 1:
		c[i].Value = nil
	case 2:
		c[i].Value = mutateValueP(r, c[i].Value, o.Pool)
	case 3:
		c[i].Value = gen.Value(r, o, 1)
	default:
		// reorder
		j := r.Intn(len(c))
		c[i], c[j] = c[j], c[i]
	}
	return c
}

func runC10(c *fw.Ctx) {
	ncases := c.N(6400, 160000) / c.NBatches
	client, engine, err := openMemEngine()
	if err != nil {
		c.Inconclusive("open engine: " + err.Error())
		return
	}
	defer engine.Close()
	c10NumericPairs(c)
	c10Directed(c)
	for q := 0; q < ncases; q++ {
		idx := c.Batch*ncases + q
		if c.Skip(idx) {
			continue
		}
		r := c.Rand(idx)
		wild := idx%4 == 3
		var docs []bson.D
		var filters []bson.D
		describe := func() interface{} {
			var ds, fs []string
			for _, d := range docs {
				ds = append(ds, gen.JSON(d))
			}
			for _, f := range filters {
				fs = append(fs, gen.JSON(f))
			}
			return map[string]interface{}{"docs": ds, "filters": fs, "wild": wild}
		}
		c.Case(idx, describe, nil, func() {
			o := gen.DefaultOpts(gen.Core)
			fo := gen.FilterOpts{Pool: gen.Core}
			if wild {
				o = gen.Opts{Pool: gen.Boundary, Depth: 3, MaxArr: 4, MaxFields: 4, NestedArr: true, NumericKeys: true}
				fo = gen.FilterOpts{Pool: gen.Boundary, Wild: true}
			} else if idx%4 == 1 {
				// core-shaped documents and filters with boundary numerics (the
				// reference compares numbers exactly, so agreement is asserted)
				o = gen.DefaultOpts(gen.Boundary)
				fo = gen.FilterOpts{Pool: gen.Boundary}
				c.Count("core_cases_with_boundary_values", 1)
			}
			base := gen.Doc(r, o, false)
			docs = []bson.D{base, mutateDoc(r, base, o), mutateDoc(r, base, o), gen.Doc(r, o, false), gen.Doc(r, o, false), mutateDoc(r, base, o)}
			g := gen.NewFilterGen(r, fo, docs...)
			for i := 0; i < 5; i++ {
				filters = append(filters, g.Filter(0))
			}
			c10Case(c, client, idx, wild, docs, filters, r)
		})
	}
}

// c10NumericPairs: every pair of the curated numeric values (both pools: equal
// numbers of different types, the int/double/decimal exactness borders,
// non-finite values), stored as a field, as an array element and below an
// embedded document, against every comparison form; the truth value must be
// the reference's (numbers compare exactly across types).
func c10NumericPairs(c *fw.Ctx) {
	var nums []interface{}
	nums = append(nums, gen.CoreNumbers...)
	nums = append(nums, gen.BoundaryNumbers...)
	for xi, x := range nums {
		if xi%c.NBatches != c.Batch {
			continue
		}
		idx := 9000000 + xi
		if c.Skip(idx) {
			continue
		}
		docs := []bson.D{{{Key: "a", Value: x}}, {{Key: "a", Value: bson.A{"s", x}}}, {{Key: "a", Value: bson.D{{Key: "b", Value: x}}}}}
		c.Case(idx, func() interface{} { return map[string]interface{}{"value": gen.JSON(bson.D{{Key: "v", Value: x}})} }, nil, func() {
			c.Eval(1)
			for _, y := range nums {
				for _, op := range []string{"", "$eq", "$ne", "$gt", "$gte", "$lt", "$lte", "$in", "$nin"} {
					var cond interface{}
					switch op {
					case "":
						cond = y
					case "$in", "$nin":
						cond = bson.D{{Key: op, Value: bson.A{"zz", y}}}
					default:
						cond = bson.D{{Key: op, Value: y}}
					}
					for di, d := range docs {
						path := "a"
						if di == 2 {
							path = "a.b"
						}
						f := bson.D{{Key: path, Value: cond}}
						lr, lerr, _ := lungoMatch(d, f)
						info := &ref.MatchInfo{Seen: map[string]int{}}
						rr, rerr := ref.Match(d, f, info)
						if rerr != nil || info.OutOfDomain {
							c.Count("numeric_pairs_out_of_domain", 1)
							continue
						}
						c.Count("numeric_pairs_asserted", 1)
						w := map[string]string{"doc": gen.JSON(d), "filter": gen.JSON(f)}
						if lerr != nil {
							w["error"] = lerr.Error()
							c.Violate("match:error-on-wellformed", "Match returned an error for a well-formed numeric comparison: "+lerr.Error(), w)
							return
						}
						if lr != rr {
							c.Violate(orGeneric(c10KeyFor(d, f), "match:vs-ref"), fmt.Sprintf("Match=%v but MongoDB semantics (reference) give %v (numeric pair sweep)", lr, rr), w)
							return
						}
					}
				}
			}
		})
	}
}

// c10Directed: three small exhaustive families.
// (a) the $bits operators on negative and large integers of all three numeric
// types against positions below and above 31 (sign extension), asserted
// against the reference; (b) dotted paths whose numeric segment is not an
// index of the array it meets but the name of a field of its embedded
// documents, asserted against the reference; (c) $jsonSchema with properties
// and patternProperties on the same member: every keyword is a constraint of
// its own, so the schema must select exactly what the conjunction of the two
// single-keyword schemas selects (reference-free law).
func c10Directed(c *fw.Ctx) {
	if c.Batch > 2 {
		return
	}
	idx := 9200000 + c.Batch
	if c.Skip(idx) {
		return
	}
	c.Case(idx, nil, nil, func() {
		c.Eval(1)
		assert := func(d, f bson.D, what string) bool {
			lr, lerr, _ := lungoMatch(d, f)
			info := &ref.MatchInfo{Seen: map[string]int{}}
			rr, rerr := ref.Match(d, f, info)
			if rerr != nil || info.OutOfDomain {
				c.Count("directed_out_of_domain", 1)
				return true
			}
			c.Count("directed_asserted", 1)
			w := map[string]string{"doc": gen.JSON(d), "filter": gen.JSON(f)}
			if lerr != nil {
				w["error"] = lerr.Error()
				c.Violate("match:error-on-wellformed", "Match returned an error for a well-formed filter ("+what+"): "+lerr.Error(), w)
				return false
			}
			if lr != rr {
				c.Violate(orGeneric(c10KeyFor(d, f), "match:vs-ref"), fmt.Sprintf("Match=%v but MongoDB semantics (reference) give %v (%s)", lr, rr, what), w)
				return false
			}
			return true
		}
		switch c.Batch {
		case 0:
			vals := []interface{}{int32(-1), int32(-5), int32(math.MinInt32), int32(5), int32(math.MaxInt32), int64(-1), int64(-6), int64(math.MinInt64), int64(1) << 40, int64(1)<<33 | 1, -1.0, -6.0, 5.0, float64(int64(1) << 35), -float64(int64(1) << 35)}
			masks := []interface{}{bson.A{int32(0), int32(40)}, bson.A{int32(35)}, bson.A{int32(31)}, bson.A{int32(32), int32(63)}, bson.A{int32(0)}, int64(1) << 33, int32(255), int64(1)<<33 | 4, bson.A{int32(2), int32(33)}}
			for _, v := range vals {
				for _, m := range masks {
					for _, op := range []string{"$bitsAllSet", "$bitsAnySet", "$bitsAllClear", "$bitsAnyClear"} {
						for _, d := range []bson.D{{{Key: "a", Value: v}}, {{Key: "a", Value: bson.A{"s", v}}}} {
							if !assert(d, bson.D{{Key: "a", Value: bson.D{{Key: op, Value: m}}}}, "bit test sweep") {
								return
							}
						}
					}
				}
			}
		case 1:
			docs := []bson.D{
				{{Key: "s", Value: bson.A{bson.D{{Key: "2023", Value: int32(10)}}, bson.D{{Key: "2024", Value: int32(12)}}}}},
				{{Key: "s", Value: bson.A{bson.D{{Key: "7", Value: "x"}, {Key: "k", Value: int32(1)}}}}},
				{{Key: "s", Value: bson.A{bson.D{{Key: "k", Value: int32(1)}}, bson.D{{Key: "k", Value: int32(2)}}}}},
				{{Key: "s", Value: bson.D{{Key: "2024", Value: int32(12)}}}},
				{{Key: "t", Value: bson.D{{Key: "s", Value: bson.A{bson.D{{Key: "2024", Value: int32(12)}}, bson.D{{Key: "9", Value: int32(12)}}}}}}},
			}
			for _, d := range docs {
				for _, path := range []string{"s.2024", "s.2023", "s.7", "s.9", "t.s.2024", "t.s.9", "s.k"} {
					for _, cond := range []interface{}{int32(12), int32(10), "x", bson.D{{Key: "$gte", Value: int32(11)}}, bson.D{{Key: "$ne", Value: int32(12)}}, bson.D{{Key: "$in", Value: bson.A{int32(12), "x"}}},
						bson.D{{Key: "$exists", Value: true}}, bson.D{{Key: "$exists", Value: false}}, bson.D{{Key: "$lt", Value: int32(11)}}, bson.D{{Key: "$nin", Value: bson.A{int32(10)}}}} {
						if !assert(d, bson.D{{Key: path, Value: cond}}, "numeric field name below an array") {
							return
						}
					}
				}
			}
		default:
			s1s := []bson.D{{{Key: "bsonType", Value: "int"}}, {{Key: "minimum", Value: int32(0)}}, {{Key: "bsonType", Value: "string"}}, {{Key: "enum", Value: bson.A{int32(1), int32(5), "x"}}}}
			s2s := []bson.D{{{Key: "maximum", Value: int32(3)}}, {{Key: "bsonType", Value: "string"}}, {{Key: "minimum", Value: int32(2)}}, {{Key: "maxLength", Value: int32(1)}}}
			vals := []interface{}{int32(1), int32(5), int32(-1), "x", "long", 2.5, nil, bson.A{int32(1)}, bson.D{{Key: "q", Value: int32(1)}}}
			for _, s1 := range s1s {
				for _, s2 := range s2s {
					both := bson.D{{Key: "$jsonSchema", Value: bson.D{{Key: "properties", Value: bson.D{{Key: "ab", Value: s1}}}, {Key: "patternProperties", Value: bson.D{{Key: "^a", Value: s2}}}}}}
					p1 := bson.D{{Key: "$jsonSchema", Value: bson.D{{Key: "properties", Value: bson.D{{Key: "ab", Value: s1}}}}}}
					p2 := bson.D{{Key: "$jsonSchema", Value: bson.D{{Key: "patternProperties", Value: bson.D{{Key: "^a", Value: s2}}}}}}
					for _, v := range vals {
						for _, d := range []bson.D{{{Key: "ab", Value: v}}, {{Key: "ab", Value: v}, {Key: "ac", Value: int32(2)}}, {{Key: "zz", Value: v}}} {
							rb, eb, _ := lungoMatch(d, both)
							r1, e1, _ := lungoMatch(d, p1)
							r2, e2, _ := lungoMatch(d, p2)
							if eb != nil || e1 != nil || e2 != nil {
								c.Count("directed_out_of_domain", 1)
								continue
							}
							c.Count("directed_asserted", 1)
							c.Count("laws_checked", 1)
							if rb != (r1 && r2) {
								c.Violate("match:law:schema-keywords-conjoin", fmt.Sprintf("a $jsonSchema with properties and patternProperties gives %v, the conjunction of the two single-keyword schemas %v", rb, r1 && r2),
									map[string]string{"doc": gen.JSON(d), "filter": gen.JSON(both)})
								return
							}
						}
					}
				}
			}
		}
	})
}

func c10Case(c *fw.Ctx, client lungo.IClient, idx int, wild bool, docs, filters []bson.D, r *fw.Rand) {
	c.Eval(1)
	results := make([][]int, len(filters)) // 1 true, 0 false, -1 error
	for fi, f := range filters {
		results[fi] = make([]int, len(docs))
		trues, falses := 0, 0
		for di, d := range docs {
			lr, lerr, mut := lungoMatch(d, f)
			w := map[string]string{"doc": gen.JSON(d), "filter": gen.JSON(f)}
			if mut != "" {
				c.Violate("match:mutates-"+mut, "Match modified its "+mut, w)
			}
			switch {
			case lerr != nil:
				results[fi][di] = -1
			case lr:
				results[fi][di] = 1
				trues++
			default:
				falses++
			}
			c.Count("match_evaluations", 1)
			if !wild {
				info := &ref.MatchInfo{Seen: map[string]int{}}
				rr, rerr := ref.Match(d, f, info)
				if rerr != nil {
					c.Count("ref_rejected_generated_filter", 1)
					continue
				}
				if lerr != nil {
					// a generated well-formed filter must be accepted
					if !info.OutOfDomain {
						w["error"] = lerr.Error()
						c.Violate(orGeneric(c10Key(d, f), "match:error-on-wellformed"), "Match returned an error for a well-formed filter: "+lerr.Error(), w)
					}
					continue
				}
				if info.OutOfDomain {
					c.Count("ref_out_of_domain", 1)
					continue
				}
				c.Count("ref_asserted", 1)
				for k, n := range info.Seen {
					c.Count("op:"+k, int64(n))
				}
				if lr != rr {
					w["lungo"] = fmt.Sprint(lr)
					w["reference"] = fmt.Sprint(rr)
					c.Violate(orGeneric(c10KeyFor(d, f), "match:vs-ref"), fmt.Sprintf("Match=%v but MongoDB semantics (reference) give %v", lr, rr), w)
				}
			}
		}
		if trues > 0 && falses > 0 {
			c.Count("nontrivial_filters", 1)
			h := gen.JSON(f)
			for _, d := range docs {
				h += gen.JSON(d)
			}
			c.Nontrivial(fw.Hash64([]byte(h)))
			if c.WantSample() {
				c.Sample(map[string]interface{}{"filter": gen.JSON(f), "doc_true": firstWith(docs, results[fi], 1), "doc_false": firstWith(docs, results[fi], 0)})
			}
		}
	}

	// logical laws (reference-free), evaluated with lungo only
	for fi, f := range filters {
		g := filters[(fi+1)%len(filters)]
		for di, d := range docs {
			a, b := results[fi][di], results[(fi+1)%len(filters)][di]
			if a < 0 || b < 0 {
				continue
			}
			lawBool(c, d, "nor", bson.D{{Key: "$nor", Value: bson.A{f}}}, a == 0, f, g)
			lawBool(c, d, "and", bson.D{{Key: "$and", Value: bson.A{f, g}}}, a == 1 && b == 1, f, g)
			lawBool(c, d, "or", bson.D{{Key: "$or", Value: bson.A{f, g}}}, a == 1 || b == 1, f, g)
			// implicit conjunction of top-level entries
			if len(f) == 2 {
				x, _, _ := lungoMatch(d, bson.D{f[0]})
				y, _, _ := lungoMatch(d, bson.D{f[1]})
				lawBool(c, d, "implicit-and", f, x && y, f, nil)
			}
		}
	}
	// field-level laws on fresh (path, operand) pairs
	gf := gen.NewFilterGen(r, gen.FilterOpts{Pool: poolOf(wild), Wild: wild}, docs...)
	for k := 0; k < 6; k++ {
		p := fw.Pick(r, gf.Paths)
		v := gf.AnyOperand()
		if _, isRe := v.(primitive.Regex); isRe {
			continue
		}
		vs := bson.A{gf.AnyOperand(), gf.Operand(), v}
		for _, x := range vs {
			if _, isRe := x.(primitive.Regex); isRe {
				vs = bson.A{v}
				break
			}
		}
		e1, e2 := gf.OpExpr(1), gf.OpExpr(1)
		for _, d := range docs {
			eq := mm(d, bson.D{{Key: p, Value: bson.D{{Key: "$eq", Value: v}}}})
			if eq < 0 {
				continue
			}
			lawInt(c, d, "ne", bson.D{{Key: p, Value: bson.D{{Key: "$ne", Value: v}}}}, 1-eq)
			if od, isD := v.(bson.D); !(isD && len(od) > 0 && strings.HasPrefix(od[0].Key, "$")) {
				lawInt(c, d, "implicit-eq", bson.D{{Key: p, Value: v}}, eq)
			}
			in := mm(d, bson.D{{Key: p, Value: bson.D{{Key: "$in", Value: vs}}}})
			if in >= 0 {
				lawInt(c, d, "nin", bson.D{{Key: p, Value: bson.D{{Key: "$nin", Value: vs}}}}, 1-in)
				any := 0
				for _, x := range vs {
					if mm(d, bson.D{{Key: p, Value: bson.D{{Key: "$eq", Value: x}}}}) == 1 {
						any = 1
					}
				}
				lawInt(c, d, "in-is-or-of-eq", bson.D{{Key: p, Value: bson.D{{Key: "$in", Value: vs}}}}, any)
			}
			gt := mm(d, bson.D{{Key: p, Value: bson.D{{Key: "$gt", Value: v}}}})
			lt := mm(d, bson.D{{Key: p, Value: bson.D{{Key: "$lt", Value: v}}}})
			if gt >= 0 && lt >= 0 {
				lawInt(c, d, "gte", bson.D{{Key: p, Value: bson.D{{Key: "$gte", Value: v}}}}, max(gt, eq))
				lawInt(c, d, "lte", bson.D{{Key: p, Value: bson.D{{Key: "$lte", Value: v}}}}, max(lt, eq))
			}
			ex := mm(d, bson.D{{Key: p, Value: bson.D{{Key: "$exists", Value: true}}}})
			lawInt(c, d, "exists", bson.D{{Key: p, Value: bson.D{{Key: "$exists", Value: false}}}}, 1-ex)
			r1 := mm(d, bson.D{{Key: p, Value: bson.D{e1}}})
			r2 := mm(d, bson.D{{Key: p, Value: bson.D{e2}}})
			if r1 >= 0 {
				lawInt(c, d, "not", bson.D{{Key: p, Value: bson.D{{Key: "$not", Value: bson.D{e1}}}}}, 1-r1)
			}
			if r1 >= 0 && r2 >= 0 {
				lawInt(c, d, "implicit-and-ops", bson.D{{Key: p, Value: bson.D{e1, e2}}}, min(r1, r2))
				lawInt(c, d, "not-of-two", bson.D{{Key: p, Value: bson.D{{Key: "$not", Value: bson.D{e1, e2}}}}}, 1-min(r1, r2))
			}
		}
	}

	// driver path: the same documents in a collection, Count/Find must agree with Match
	if idx%3 == 0 {
		ctx := context.Background()
		coll := client.Database("c10").Collection(fmt.Sprintf("c%d", idx))
		var ins []interface{}
		for i, d := range docs {
			ins = append(ins, append(bson.D{{Key: "_id", Value: int32(i)}}, d...))
		}
		if _, err := coll.InsertMany(ctx, ins); err != nil {
			c.Violate("match:driver-insert", "InsertMany of generated documents failed: "+err.Error(), nil)
			return
		}
		for fi, f := range filters {
			want := 0
			bad := false
			var wantIDs []int32
			for di := range docs {
				switch results[fi][di] {
				case 1:
					want++
					wantIDs = append(wantIDs, int32(di))
				case -1:
					bad = true
				}
			}
			n, err := coll.CountDocuments(ctx, f)
			c.Count("driver_compared", 1)
			w := map[string]interface{}{"filter": gen.JSON(f), "docs": jsonList(docs)}
			if bad {
				// some document produced an error; the driver may stop early — only
				// require that it does not succeed with more than the matching set
				continue
			}
			if err != nil {
				c.Violate("match:driver-error", "CountDocuments failed although Match succeeded on every document: "+err.Error(), w)
				continue
			}
			if int(n) != want {
				c.Violate("match:driver-count", fmt.Sprintf("CountDocuments=%d but Match selected %d documents", n, want), w)
			}
			cur, err := coll.Find(ctx, f)
			if err != nil {
				c.Violate("match:driver-error", "Find failed: "+err.Error(), w)
				continue
			}
			var got []bson.D
			cur.All(ctx, &got)
			if len(got) != len(wantIDs) {
				c.Violate("match:driver-find", fmt.Sprintf("Find returned %d documents, Match selected %d", len(got), len(wantIDs)), w)
				continue
			}
			for i := range got {
				if id, _ := got[i][0].Value.(int32); id != wantIDs[i] {
					c.Violate("match:driver-find", "Find returned other documents (or another order) than Match selects", w)
					break
				}
			}
		}
		coll.Drop(ctx)
	}
}

func poolOf(wild bool) gen.Pool {
	if wild {
		return gen.Boundary
	}
	return gen.Core
}

func jsonList(docs []bson.D) []string {
	var out []string
	for _, d := range docs {
		out = append(out, gen.JSON(d))
	}
	return out
}

func firstWith(docs []bson.D, res []int, want int) string {
	for i, r := range res {
		if r == want {
			return gen.JSON(docs[i])
		}
	}
	return ""
}

// mm returns 1/0 for match/no match, -1 on error.
func mm(d bson.D, f bson.D) int {
	r, err, _ := lungoMatch(d, f)
	if err != nil {
		return -1
	}
	if r {
		return 1
	}
	return 0
}

var curCtx *fw.Ctx

func lawBool(c *fw.Ctx, d bson.D, law string, composite bson.D, want bool, f, g bson.D) {
	w := 0
	if want {
		w = 1
	}
	lawInt(c, d, law, composite, w)
}

func lawInt(c *fw.Ctx, d bson.D, law string, composite bson.D, want int) {
	got := mm(d, composite)
	c.Count("laws_checked", 1)
	c.Count("law:"+law, 1)
	if got < 0 {
		// constituents evaluated fine but the composite errors
		_, err, _ := lungoMatch(d, composite)
		c.Violate("match:law-error:"+law, "constituents evaluate but the composite filter returns an error: "+fmt.Sprint(err), map[string]string{"doc": gen.JSON(d), "composite": gen.JSON(composite)})
		return
	}
	if got != want {
		c.Violate(orGeneric(c10KeyFor(d, composite), "match:law:"+law), fmt.Sprintf("logical law %q violated: composite=%d, expected from constituents=%d", law, got, want),
			map[string]string{"doc": gen.JSON(d), "composite": gen.JSON(composite)})
	}
}

// c10KeyFor derives known-finding signatures from the input.
func c10KeyFor(d bson.D, f bson.D) string {
	return ""
}
