package checks

import (
	"context"
	"errors"
	"fmt"
	"sync"
	"sync/atomic"
	"time"

	"github.com/256dpi/lungo"
	"go.mongodb.org/mongo-driver/bson"
	"go.mongodb.org/mongo-driver/bson/primitive"
	"go.mongodb.org/mongo-driver/mongo/options"

	"verifharness/drv"
	"verifharness/fw"
	"verifharness/gen"
	"verifharness/ref"
	"verifharness/sched"
)

// C09 — change streams deliver each matching event once, in order, without
// stalls.

func init() {
	fw.Register(&fw.Check{
		ID:   "C09",
		Race: true,
		Rule: "(a) sequential histories (all write kinds, transactions, collection and database drops) with 1-4 streams of client, database and collection scope, opened at 'now', with ResumeAfter/StartAfter of a delivered token and with StartAtOperationTime before/at/between/after events; after every call each stream is drained with TryNext and the delivered ids must be exactly the scope-filtered change-log suffix after its start position, cut after the event that drops its collection/database and followed by one invalidate; " +
			"(b) retention: engines on pre-loaded stores of old events with small change-log windows and slow consumers: the delivered sequence must be a gap-free run of the complete history (recorded by the harness at every commit) and a stream that stops early must report ErrLostOplogPosition, never skip; " +
			"(c) concurrent runs under the race detector: 1-3 writers x 1-3 consumers blocking in Next, random delays at the hooks stream.before_wait / commit.before_broadcast and directed holds (consumer parked between its change-log check and its wait until a commit passed the broadcast); after the writers joined every consumer must reach the expected sequence; a consumer that is parked with an undelivered matching event, no pending signal and no active writer is a lost wake-up; Close, context cancellation and engine Close must release a parked consumer; " +
			"non-trivial = a stream delivered >=3 events and crossed a filtered foreign event or an invalidation; distinct = hash of history and stream configuration",
		Assumptions: []string{"in the sequential histories the complete history is read from the change log after each commit (the minimum age of 5 minutes keeps every event of the committing transaction; the long-transaction scenario covers the opposite case)", "stall verdicts are logical (parked + nothing pending + nothing to come); wall-clock waits are watchdogs whose firing alone is inconclusive"},
		Batches:     func(tier string) int { return 16 },
		Parallel:    func(tier string) int { return 8 },
		Require: func(tier string) map[string]int64 {
			return map[string]int64{"streams": 500, "events_delivered": 5000, "events_filtered_out": 1000, "invalidations": 50, "resumed_streams": 25, "start_at_streams": 60, "retention_streams": 60, "lost_position_reported": 10, "late_resume_token_discarded": 40, "late_resume_token_retained": 40, "late_resume_rejected": 20, "long_transactions": 8,
				"concurrent_runs": 48, "concurrent_events_delivered": 2000, "parked_consumers_released": 60, "directed_wait_windows_hit": 10}
		},
		Run: runC09,
	})
}

type c09Stream struct {
	s         lungo.IChangeStream
	db, coll  string // scope ("" = all)
	start     int    // index into the complete history of the first event wanted
	startKind string
	delivered []string // event ids (or "invalidate")
	tokens    []bson.Raw
	done      bool // returned invalidate or an error
	err       error
}

func evID(ev bson.D) string { return string(gen.ValueBytes(ref.GetPath(ev, "_id"))) }

// c09Expect computes what a stream must deliver from the complete history.
func c09Expect(h []bson.D, st *c09Stream) (ids []string, filtered int) {
	for i := st.start; i < len(h); i++ {
		ev := h[i]
		db, _ := ref.GetPath(ev, "ns.db").(string)
		coll, _ := ref.GetPath(ev, "ns.coll").(string)
		typ, _ := ref.GetPath(ev, "operationType").(string)
		if st.db != "" && db != st.db {
			filtered++
			continue
		}
		if st.coll != "" && coll != st.coll && typ != "dropDatabase" {
			filtered++
			continue
		}
		ids = append(ids, evID(ev))
		if st.db != "" && ((st.coll != "" && typ == "drop") || typ == "dropDatabase") {
			ids = append(ids, "invalidate")
			return
		}
	}
	return
}

func (st *c09Stream) scope() string {
	return fmt.Sprintf("%s.%s start=%s@%d", st.db, st.coll, st.startKind, st.start)
}

// drain consumes everything available without blocking.
// c09CallBegin / c09CallEnd bracket the non-blocking stream calls of the
// sequential histories with the per-call watchdog (a TryNext that spins
// forever inside the library is a stall).
var c09CallBegin = func(func() string) {}
var c09CallEnd = func() {}

func (st *c09Stream) tryNext(ctx context.Context) bool {
	c09CallBegin(func() string { return "TryNext on stream " + st.scope() })
	defer c09CallEnd()
	return st.s.TryNext(ctx)
}

func (st *c09Stream) drain(ctx context.Context) {
	for !st.done {
		if !st.tryNext(ctx) {
			if err := st.s.Err(); err != nil {
				st.err = err
				st.done = true
			}
			return
		}
		var ev bson.D
		if err := st.s.Decode(&ev); err != nil {
			st.err = err
			st.done = true
			return
		}
		if typ, _ := ref.GetPath(ev, "operationType").(string); typ == "invalidate" {
			st.delivered = append(st.delivered, "invalidate")
			st.done = true
			return
		}
		st.delivered = append(st.delivered, evID(ev))
		st.tokens = append(st.tokens, st.s.ResumeToken())
		if len(st.delivered) > 20000 {
			// a stream that never runs dry (it redelivers): stop reading, the
			// comparison with the change log reports the surplus
			st.done = true
			return
		}
	}
}

// c09LongTransaction: a session transaction that stays open longer than the
// minimum age writes more events than the change log may hold, so the clean-up
// of its own commit discards events that were never published. A stream that
// is behind them has not delivered them: it must fail with the lost-position
// error, never continue silently with the remaining ones. (The clock is only
// waited on: the transaction is committed once the wall-clock second has
// advanced by two.)
func c09LongTransaction(c *fw.Ctx) {
	idx := 9100000 + c.Batch
	if c.Skip(idx) {
		return
	}
	r := c.Rand(idx)
	k := r.Range(4, 8)
	maxSize := r.Range(2, 3)
	desc := map[string]interface{}{"inserts_in_transaction": k, "maxSize": maxSize, "minSize": 1, "minAge": "1ns"}
	c.Case(idx, func() interface{} { return desc }, nil, func() {
		c.Eval(1)
		client, engine, err := lungo.Open(nil, lungo.Options{Store: lungo.NewMemoryStore(), ExpireInterval: 1 << 40, MinOplogSize: 1, MaxOplogSize: maxSize, MinOplogAge: time.Nanosecond, MaxOplogAge: time.Hour})
		if err != nil {
			c.Inconclusive("open: " + err.Error())
			return
		}
		defer engine.Close()
		ctx := context.Background()
		coll := client.Database("d").Collection("c")
		coll.InsertOne(ctx, bson.D{{Key: "_id", Value: int32(0)}})
		head, err := coll.Watch(ctx, bson.A{})
		if err != nil {
			c.Inconclusive("watch: " + err.Error())
			return
		}
		defer head.Close(ctx)
		sess, _ := client.StartSession()
		defer sess.EndSession(ctx)
		if err := sess.StartTransaction(); err != nil {
			c.Inconclusive("start: " + err.Error())
			return
		}
		t0 := time.Now()
		lungo.WithSession(ctx, sess, func(sc lungo.ISessionContext) error {
			for i := 1; i <= k; i++ {
				coll.InsertOne(sc, bson.D{{Key: "_id", Value: int32(i)}})
			}
			return nil
		})
		for time.Now().Unix() < t0.Unix()+2 {
			time.Sleep(50 * time.Millisecond)
		}
		if err := sess.CommitTransaction(ctx); err != nil {
			c.Violate("long-transaction:commit", "CommitTransaction failed: "+err.Error(), desc)
			return
		}
		c.Count("long_transactions", 1)
		kept := len(oplogEvents(engine.Catalog()))
		var got []int32
		for n := 0; n < 1000 && head.TryNext(ctx); n++ {
			var ev bson.D
			head.Decode(&ev)
			id, _ := ref.GetPath(ev, "documentKey._id").(int32)
			got = append(got, id)
		}
		w := map[string]interface{}{"setup": desc, "delivered_ids": fmt.Sprint(got), "events_kept_by_the_commit": kept, "stream_error": fmt.Sprint(head.Err())}
		for i, id := range got {
			if id != int32(i+1) {
				c.Violate("retention-stream:skipped-unpublished", fmt.Sprintf("a stream at the head of the log delivered the insert of _id %d as event %d of a transaction that inserted _id 1..%d: the events in between were discarded by the clean-up of that very commit and silently skipped (no lost-position error)", id, i+1, k), w)
				return
			}
		}
		if len(got) < k && !errors.Is(head.Err(), lungo.ErrLostOplogPosition) {
			c.Violate("retention-stream:stopped-silently", fmt.Sprintf("a stream delivered %d of %d events and reports %v", len(got), k, head.Err()), w)
			return
		}
		if len(got) < k {
			c.Count("lost_position_reported", 1)
		}
	})
}

func runC09(c *fw.Ctx) {
	c09CallBegin, c09CallEnd = c.HangWatch(60*time.Second, "stream:call-hangs")
	c09Concurrent(c)
	c09Retention(c)
	c09LongTransaction(c)
	nhist := c.N(320, 5600) / c.NBatches
	for q := 0; q < nhist; q++ {
		idx := c.Batch*nhist + q
		if c.Skip(idx) {
			continue
		}
		r := c.Rand(idx)
		var w *world
		describe := func() interface{} {
			if w == nil {
				return nil
			}
			return map[string]interface{}{"history": w.history()}
		}
		c.Case(idx, describe, nil, func() {
			c.Eval(1)
			var err error
			w, err = openWorld("")
			if err != nil {
				c.Inconclusive("open engine: " + err.Error())
				return
			}
			defer w.close()
			c09History(c, w, r, c.N(60, 90))
		})
	}
}

func c09Open(w *world, db, coll string, o *options.ChangeStreamOptions) (lungo.IChangeStream, error) {
	ctx := context.Background()
	switch {
	case db == "":
		return w.client.Watch(ctx, bson.A{}, o)
	case coll == "":
		return w.client.Database(db).Watch(ctx, bson.A{}, o)
	default:
		return w.client.Database(db).Collection(coll).Watch(ctx, bson.A{}, o)
	}
}

func c09History(c *fw.Ctx, w *world, r *fw.Rand, steps int) {
	ctx := context.Background()
	g := &drv.HistGen{R: r, O: drv.HistOpts{Profile: "mixed", DBs: []string{"d", "e"}, Colls: []string{"c1", "c2"}, NoReads: true, Pool: gen.Core}, Peek: w.peek, IndexNames: w.indexNames}
	var streams []*c09Stream
	witness := func(st *c09Stream, extra map[string]interface{}) interface{} {
		m := map[string]interface{}{"history": w.history()}
		if st != nil {
			m["stream"] = st.scope()
		}
		for k, v := range extra {
			m[k] = v
		}
		return m
	}
	history := func() []bson.D { return oplogEvents(w.engine.Catalog()) }
	check := func(final bool) bool {
		h := history()
		for _, st := range streams {
			st.drain(ctx)
			want, _ := c09Expect(h, st)
			got := st.delivered
			// while a transaction is open nothing new is committed; got must be a prefix of want, and equal once drained
			if len(got) > len(want) {
				c.Violate("stream:extra-event", fmt.Sprintf("stream %s delivered %d events, only %d are in its scope after its start position", st.scope(), len(got), len(want)), witness(st, map[string]interface{}{"delivered": len(got)}))
				return false
			}
			for i := range got {
				if got[i] != want[i] {
					c.Violate("stream:wrong-event", fmt.Sprintf("stream %s: delivered event %d is not the %d-th event of its scope after the start position (duplicate, gap, reorder or foreign event)", st.scope(), i, i), witness(st, nil))
					return false
				}
			}
			if len(got) < len(want) {
				if st.err != nil {
					c.Violate("stream:error", fmt.Sprintf("stream %s stopped with %v after %d of %d events (retention is configured far away)", st.scope(), st.err, len(got), len(want)), witness(st, nil))
					return false
				}
				c.Violate("stream:missing-event", fmt.Sprintf("stream %s was drained with TryNext but delivered only %d of the %d committed events of its scope", st.scope(), len(got), len(want)), witness(st, nil))
				return false
			}
		}
		return true
	}
	openStream := func() {
		st := &c09Stream{}
		switch r.Intn(4) {
		case 0:
		case 1:
			st.db = fw.Pick(r, []string{"d", "e"})
		default:
			st.db, st.coll = fw.Pick(r, []string{"d", "e"}), fw.Pick(r, []string{"c1", "c2"})
		}
		h := history()
		o := options.ChangeStream()
		st.start, st.startKind = len(h), "now"
		// resume from a token another stream delivered
		var donor *c09Stream
		for _, d := range streams {
			if len(d.tokens) > 0 && d.db == st.db && d.coll == st.coll {
				donor = d
			}
		}
		switch x := r.Intn(6); {
		case x < 2 && donor != nil:
			k := r.Intn(len(donor.tokens))
			tok := donor.tokens[k]
			// position: index of that event in the complete history
			for i, ev := range h {
				if evID(ev) == donor.delivered[k] {
					st.start = i + 1
				}
			}
			if x == 0 {
				o.SetResumeAfter(tok)
				st.startKind = "resumeAfter"
			} else {
				o.SetStartAfter(tok)
				st.startKind = "startAfter"
			}
			c.Count("resumed_streams", 1)
		case x == 2 && len(h) > 0:
			// start at an operation time: before / at / between / after events
			k := r.Intn(len(h))
			ts, _ := ref.GetPath(h[k], "clusterTime").(primitive.Timestamp)
			switch r.Intn(4) {
			case 0: // exactly at event k
			case 1: // just before event k (between k-1 and k, or before the first)
				if ts.I > 0 {
					ts.I--
				} else {
					ts.T--
					ts.I = ^uint32(0)
				}
			case 2: // before everything
				ts = primitive.Timestamp{T: 1, I: 0}
			default: // after everything
				ts = primitive.Timestamp{T: ts.T + 1000, I: 0}
			}
			st.start = len(h)
			for i, ev := range h {
				et, _ := ref.GetPath(ev, "clusterTime").(primitive.Timestamp)
				if et.T > ts.T || (et.T == ts.T && et.I >= ts.I) {
					st.start = i
					break
				}
			}
			t := ts
			o.SetStartAtOperationTime(&t)
			st.startKind = fmt.Sprintf("startAt(%d,%d)", ts.T, ts.I)
			c.Count("start_at_streams", 1)
		}
		s, err := c09Open(w, st.db, st.coll, o)
		if err != nil {
			c.Violate("stream:open", fmt.Sprintf("opening stream %s failed: %v", st.scope(), err), witness(st, nil))
			return
		}
		st.s = s
		streams = append(streams, st)
		c.Count("streams", 1)
		w.note("-- open stream " + st.scope())
	}
	openStream()
	for step := 0; step < steps; step++ {
		if len(streams) < 4 && r.Chance(1, 8) {
			openStream()
			if c.Violations() > 0 {
				return
			}
		}
		if !w.inTxn && r.Chance(1, 15) {
			if err := w.begin(); err != nil {
				return
			}
			continue
		}
		if w.inTxn && r.Chance(1, 5) {
			if r.Bool() {
				w.commit()
			} else {
				w.abort()
			}
			if !check(false) {
				return
			}
			continue
		}
		op := g.Next()
		if w.inTxn && (drv.IsIndexOp(op.Kind) || op.Kind == drv.CreateCollection || op.Kind == drv.DropCollection || op.Kind == drv.DropDatabase) {
			continue
		}
		res := w.exec(&op)
		if res.Panic != "" {
			return
		}
		if !check(false) {
			return
		}
	}
	if w.inTxn {
		w.abort()
	}
	if !check(true) {
		return
	}
	h := history()
	for _, st := range streams {
		want, filtered := c09Expect(h, st)
		c.Count("events_delivered", int64(len(st.delivered)))
		c.Count("events_filtered_out", int64(filtered))
		inval := len(want) > 0 && want[len(want)-1] == "invalidate"
		if inval {
			c.Count("invalidations", 1)
			// after the invalidate the stream is over
			if st.s.TryNext(ctx) {
				c.Violate("stream:event-after-invalidate", "stream "+st.scope()+" delivered an event after its invalidate", witness(st, nil))
				return
			}
		}
		if len(st.delivered) >= 3 && (filtered > 0 || inval) {
			c.Nontrivial(fw.Hash64([]byte(fmt.Sprint(st.scope(), st.delivered))))
		}
		st.s.Close(ctx)
		if st.s.TryNext(ctx) {
			c.Violate("stream:event-after-close", "stream "+st.scope()+" delivered an event after Close", witness(st, nil))
			return
		}
	}
	if c.WantSample() && len(streams) > 1 {
		var desc []string
		for _, st := range streams {
			desc = append(desc, fmt.Sprintf("%s delivered=%d", st.scope(), len(st.delivered)))
		}
		c.Sample(map[string]interface{}{"streams": desc, "events_in_history": len(h)})
	}
}

// ---------------------------------------------------------------------------
// retention

func c09Retention(c *fw.Ctx) {
	n := c.N(160, 1600) / c.NBatches
	for q := 0; q < n; q++ {
		idx := 9000000 + c.Batch*n + q
		if c.Skip(idx) {
			continue
		}
		r := c.Rand(idx)
		L := r.Range(2, 9)
		minSize, maxSize := r.Range(1, 3), r.Range(2, 6)
		desc := map[string]interface{}{"old_events": L, "minSize": minSize, "maxSize": maxSize}
		c.Case(idx, func() interface{} { return desc }, nil, func() {
			c.Eval(1)
			ages := make([]time.Duration, L)
			for i := range ages {
				ages[i] = ageOld
			}
			store := &failStore{cat: craftedOplog(ages)}
			client, engine, err := lungo.Open(nil, lungo.Options{Store: store, ExpireInterval: 1 << 40, MinOplogSize: minSize, MaxOplogSize: maxSize, MinOplogAge: 5 * time.Minute, MaxOplogAge: time.Hour})
			if err != nil {
				c.Inconclusive("open: " + err.Error())
				return
			}
			defer engine.Close()
			ctx := context.Background()
			full := oplogEvents(engine.Catalog()) // complete history
			known := map[string]bool{}
			for _, e := range full {
				known[evID(e)] = true
			}
			record := func() {
				for _, e := range oplogEvents(engine.Catalog()) {
					if !known[evID(e)] {
						known[evID(e)] = true
						full = append(full, e)
					}
				}
			}
			// streams with different start positions (all client scope; the crafted events are in d.c)
			type rs struct {
				s     lungo.IChangeStream
				start int
				kind  string
				got   []string
				err   error
				done  bool
			}
			var streams []*rs
			open := func(kind string) {
				o := options.ChangeStream()
				st := &rs{kind: kind}
				switch kind {
				case "now":
					st.start = len(full)
				case "startAt-first":
					ts, _ := ref.GetPath(full[0], "clusterTime").(primitive.Timestamp)
					o.SetStartAtOperationTime(&ts)
					st.start = 0
				case "startAt-before-first":
					ts := primitive.Timestamp{T: 1}
					o.SetStartAtOperationTime(&ts)
					st.start = 0
				case "resume-mid":
					k := r.Intn(len(full))
					tok, _ := bson.Marshal(ref.GetPath(full[k], "_id"))
					o.SetResumeAfter(bson.Raw(tok))
					st.start = k + 1
				case "late-resume", "late-startAfter":
					// a consumer coming back with the token of any event of the history,
					// including one the retention has discarded in the meantime
					k := r.Intn(len(full))
					tok, _ := bson.Marshal(ref.GetPath(full[k], "_id"))
					if kind == "late-resume" {
						o.SetResumeAfter(bson.Raw(tok))
					} else {
						o.SetStartAfter(bson.Raw(tok))
					}
					st.start = k + 1
					present := false
					for _, e := range oplogEvents(engine.Catalog()) {
						if evID(e) == evID(full[k]) {
							present = true
						}
					}
					if present {
						c.Count("late_resume_token_retained", 1)
					} else {
						c.Count("late_resume_token_discarded", 1)
					}
					s, err := client.Watch(ctx, bson.A{}, o)
					if err != nil {
						if present {
							c.Violate("retention-stream:resume-rejected", fmt.Sprintf("resuming (%s) from the token of event number %d, which is still in the change log, was rejected: %v", kind, k, err), desc)
						} else {
							c.Count("late_resume_rejected", 1)
						}
						return
					}
					st.s = s
					streams = append(streams, st)
					c.Count("retention_streams", 1)
					return
				}
				s, err := client.Watch(ctx, bson.A{}, o)
				if err != nil {
					return
				}
				st.s = s
				streams = append(streams, st)
				c.Count("retention_streams", 1)
			}
			for _, k := range []string{"now", "startAt-first", "startAt-before-first", "resume-mid"} {
				if r.Chance(3, 4) {
					open(k)
				}
			}
			spurious := false
			consume := func(st *rs, max int) {
				for i := 0; i < max && !st.done; i++ {
					if !st.s.TryNext(ctx) {
						if err := st.s.Err(); err != nil {
							st.err, st.done = err, true
							// a lost position is only legitimate if the next undelivered
							// event really is gone from the visible change log right now
							if next := st.start + len(st.got); errors.Is(err, lungo.ErrLostOplogPosition) && next < len(full) {
								for _, e := range oplogEvents(engine.Catalog()) {
									if evID(e) == evID(full[next]) {
										spurious = true
										c.Violate("retention-stream:spurious-lost-position", fmt.Sprintf("a stream (%s) reported a lost position although its next undelivered event (number %d of the history) is still in the change log", st.kind, next), desc)
									}
								}
							}
						}
						return
					}
					var ev bson.D
					st.s.Decode(&ev)
					st.got = append(st.got, evID(ev))
				}
			}
			writes := r.Range(2, 8)
			for k := 0; k < writes; k++ {
				// slow consumers: some read a little before the commit, some nothing
				for _, st := range streams {
					if r.Chance(1, 3) {
						consume(st, r.Range(1, 2))
					}
				}
				// sometimes the store fails on a commit that would have trimmed the log:
				// that commit never happened, for streams too
				if r.Chance(1, 4) {
					store.failNext()
					fop := drv.Op{Kind: drv.InsertOne, DB: "d", Coll: "c", Docs: []bson.D{{{Key: "_id", Value: int32(5000 + k)}}}}
					if res := drv.Exec(ctx, client, &fop); res.Err == "" {
						c.Violate("retention-stream:store-failure-ignored", "the store failed but the insert reported success", desc)
						return
					}
					c.Count("failed_trimming_commits", 1)
					// nothing was committed: consumers reading now must not notice anything
					for _, st := range streams {
						if r.Bool() {
							consume(st, 1)
						}
					}
					if spurious {
						return
					}
				}
				op := drv.Op{Kind: drv.InsertOne, DB: "d", Coll: "c", Docs: []bson.D{{{Key: "_id", Value: int32(1000 + k)}}}}
				if res := drv.Exec(ctx, client, &op); res.Err != "" {
					c.Violate("retention-stream:write", "insert failed: "+res.Err, desc)
					return
				}
				record()
				if r.Chance(1, 3) {
					open([]string{"late-resume", "late-startAfter"}[r.Intn(2)])
				}
			}
			if spurious {
				return
			}
			open("late-resume")
			open("late-startAfter")
			for _, st := range streams {
				consume(st, 1000)
				// delivered must be a gap-free run of the complete history from the start position
				for i, id := range st.got {
					if st.start+i >= len(full) || evID(full[st.start+i]) != id {
						pos := -1
						for j, e := range full {
							if evID(e) == id {
								pos = j
							}
						}
						c.Violate("retention-stream:skipped", fmt.Sprintf("a stream (%s) whose next undelivered event is number %d of the history delivered event number %d instead: the events in between were discarded by retention and silently skipped (no lost-position error)", st.kind, st.start+i, pos),
							map[string]interface{}{"setup": desc, "history_events": len(full), "delivered": len(st.got)})
						return
					}
				}
				if st.start+len(st.got) < len(full) {
					// stopped early: must be an explicit lost-position error and the next event must really be gone
					if !errors.Is(st.err, lungo.ErrLostOplogPosition) {
						c.Violate("retention-stream:stopped-silently", fmt.Sprintf("a stream (%s) stopped after %d of %d events with error %v (expected the lost-position error)", st.kind, len(st.got), len(full)-st.start, st.err), desc)
						return
					}
					c.Count("lost_position_reported", 1)
				} else if st.err != nil {
					c.Violate("retention-stream:spurious-error", fmt.Sprintf("a stream (%s) delivered everything but reports %v", st.kind, st.err), desc)
					return
				}
				c.Count("events_delivered", int64(len(st.got)))
				st.s.Close(ctx)
			}
		})
	}
}

// ---------------------------------------------------------------------------
// concurrent writers and blocking consumers

type c09Consumer struct {
	st       *c09Stream
	ids      []string
	mu       sync.Mutex
	parked   atomic.Bool
	finished atomic.Bool
	how      string // how it is released at the end: close / cancel / engine-close
	cancel   context.CancelFunc
}

// c09BlockingRetention: a consumer blocked in Next while every commit both
// appends an event and discards an old one (the change log keeps its length).
func c09BlockingRetention(c *fw.Ctx) {
	caseNo := 0
	for L := 3; L <= 8; L++ {
		for minSize := 1; minSize <= 2; minSize++ {
			for _, maxSize := range []int{L, L - 1} {
				caseNo++
				if caseNo%c.NBatches != c.Batch {
					continue
				}
				idx := 9700000 + caseNo
				if c.Skip(idx) {
					continue
				}
				desc := map[string]interface{}{"old_events": L, "minSize": minSize, "maxSize": maxSize}
				c.Case(idx, func() interface{} { return desc }, nil, func() {
					c.Eval(1)
					ages := make([]time.Duration, L)
					for i := range ages {
						ages[i] = ageOld
					}
					store := &preloadedStore{cat: craftedOplog(ages)}
					client, engine, err := lungo.Open(nil, lungo.Options{Store: store, ExpireInterval: 1 << 40, MinOplogSize: minSize, MaxOplogSize: maxSize, MinOplogAge: 5 * time.Minute, MaxOplogAge: time.Hour})
					if err != nil {
						c.Inconclusive("open: " + err.Error())
						return
					}
					defer engine.Close()
					ctl := sched.New(nil)
					var parked atomic.Bool
					ctl.OnEvent = func(actor int, point string, obj interface{}) {
						if actor == 100 {
							switch point {
							case "stream.before_wait":
								parked.Store(true)
							case "stream.woken":
								parked.Store(false)
							}
						}
					}
					ctl.Install()
					defer sched.Remove()
					ctx, cancel := context.WithCancel(context.Background())
					defer cancel()
					s, err := client.Watch(ctx, bson.A{})
					if err != nil {
						c.Inconclusive("watch: " + err.Error())
						return
					}
					var delivered atomic.Int64
					done := make(chan struct{})
					go func() {
						defer close(done)
						ctl.Register(100, 5)
						for n := 0; n < 100000 && s.Next(ctx); n++ {
							parked.Store(false)
							delivered.Add(1)
						}
					}()
					writes := L + 2
					for k := 0; k < writes; k++ {
						// the consumer parks before the next commit
						for i := 0; i < 3000 && !parked.Load(); i++ {
							time.Sleep(time.Millisecond)
						}
						before := len(oplogEvents(engine.Catalog()))
						op := drv.Op{Kind: drv.InsertOne, DB: "d", Coll: "c", Docs: []bson.D{{{Key: "_id", Value: int32(1000 + k)}}}}
						if res := drv.Exec(context.Background(), client, &op); res.Err != "" {
							c.Violate("retention-stream:write", "insert failed: "+res.Err, desc)
							return
						}
						if len(oplogEvents(engine.Catalog())) <= before {
							c.Count("commits_keeping_log_length", 1)
						}
						deadline := time.Now().Add(10 * time.Second)
						for delivered.Load() < int64(k+1) {
							if parked.Load() {
								stuck := c09StableStall(func() (bool, int, int64) {
									return parked.Load(), s.(*lungo.Stream).VerifSignalPending(), delivered.Load()
								})
								if stuck && delivered.Load() < int64(k+1) {
									if err := s.Err(); err != nil {
										break // reported below
									}
									c.Violate("stream:lost-wake-up", fmt.Sprintf("a consumer blocked in Next was not woken by commit %d (the commit appended an event while retention discarded one): parked, no signal pending, %d of %d events delivered", k, delivered.Load(), k+1),
										map[string]interface{}{"setup": desc, "hook_trace": ctl.TraceStrings(40)})
									return
								}
							}
							if time.Now().After(deadline) {
								c.Inconclusive("blocking-retention watchdog fired without the parked pattern")
								return
							}
							time.Sleep(time.Millisecond)
						}
						if err := s.Err(); err != nil {
							c.Violate("retention-stream:spurious-error", fmt.Sprintf("a consumer that delivered every event so far failed with %v", err), desc)
							return
						}
						c.Count("concurrent_events_delivered", 1)
					}
					s.Close(context.Background())
					select {
					case <-done:
						c.Count("parked_consumers_released", 1)
					case <-time.After(10 * time.Second):
						c.Violate("stream:not-released", "a consumer blocked in Next was not released by Close", desc)
					}
				})
			}
		}
	}
}

// c09StableStall samples (parked, pending signals, delivered) six times 40 ms
// apart; a stall is only reported when every sample shows the consumer parked,
// no wake-up signal pending and the same number of delivered events.
func c09StableStall(sample func() (bool, int, int64)) bool {
	p0, s0, d0 := sample()
	if !p0 || s0 != 0 {
		return false
	}
	for i := 0; i < 5; i++ {
		time.Sleep(40 * time.Millisecond)
		p, s, d := sample()
		if !p || s != 0 || d != d0 {
			return false
		}
	}
	return true
}

func c09Concurrent(c *fw.Ctx) {
	c09BlockingRetention(c)
	runs := c.N(4, 40)
	for k := 0; k < runs; k++ {
		idx := 9500000 + c.Batch*1000 + k
		if c.Skip(idx) {
			continue
		}
		r := c.Rand(idx)
		c.Case(idx, nil, nil, func() {
			c.Eval(1)
			c.Count("concurrent_runs", 1)
			c09ConcurrentRun(c, r, k)
		})
	}
}

func c09ConcurrentRun(c *fw.Ctx, r *fw.Rand, k int) {
	w, err := openWorld("")
	if err != nil {
		c.Inconclusive("open engine: " + err.Error())
		return
	}
	closedByTest := false
	defer func() {
		if !closedByTest {
			w.close()
		}
	}()
	ctx := context.Background()
	ctl := sched.New(nil)
	ctl.Random = true
	nWriters, nCons := r.Range(1, 3), r.Range(1, 3)
	directed := k%2 == 1
	if directed {
		// park consumer 0 between its change-log check and its wait until a writer passed the broadcast
		ctl.SetHold(sched.Hold{Actor: 100, Point: "stream.before_wait", UntilActor: 0, UntilPoint: "commit.before_broadcast", Timeout: 50 * time.Millisecond})
	}
	cons := make([]*c09Consumer, nCons)
	byActor := map[int]*c09Consumer{}
	ctl.OnEvent = func(actor int, point string, obj interface{}) {
		if cc := byActor[actor]; cc != nil {
			switch point {
			case "stream.before_wait":
				cc.parked.Store(true)
			case "stream.woken":
				cc.parked.Store(false)
			}
		}
	}
	for i := range cons {
		st := &c09Stream{startKind: "now"}
		switch r.Intn(3) {
		case 0:
		case 1:
			st.db = "d"
		default:
			st.db, st.coll = "d", fmt.Sprintf("w%d", r.Intn(nWriters))
		}
		s, err := c09Open(w, st.db, st.coll, options.ChangeStream())
		if err != nil {
			c.Inconclusive("open stream: " + err.Error())
			return
		}
		st.s = s
		cons[i] = &c09Consumer{st: st, how: fw.Pick(r, []string{"close", "cancel", "engine-close"})}
		byActor[100+i] = cons[i]
	}
	ctl.Install()
	defer sched.Remove()
	var cg, wg sync.WaitGroup
	for i, cc := range cons {
		cg.Add(1)
		cctx, cancel := context.WithCancel(ctx)
		cc.cancel = cancel
		go func(i int, cc *c09Consumer) {
			defer cg.Done()
			defer cc.finished.Store(true)
			ctl.Register(100+i, uint64(i)*7919+1)
			for n := 0; n < 200000 && cc.st.s.Next(cctx); n++ {
				cc.parked.Store(false)
				var ev bson.D
				if cc.st.s.Decode(&ev) != nil {
					return
				}
				id := evID(ev)
				if typ, _ := ref.GetPath(ev, "operationType").(string); typ == "invalidate" {
					id = "invalidate"
				}
				cc.mu.Lock()
				cc.ids = append(cc.ids, id)
				cc.mu.Unlock()
			}
		}(i, cc)
	}
	nops := c.N(40, 80)
	seeds := make([]*fw.Rand, nWriters)
	for i := range seeds {
		seeds[i] = r.Fork()
	}
	for i := 0; i < nWriters; i++ {
		wg.Add(1)
		go func(i int) {
			defer wg.Done()
			ctl.Register(i, uint64(i)*104729+3)
			rr := seeds[i]
			coll := w.client.Database("d").Collection(fmt.Sprintf("w%d", i))
			for j := 0; j < nops; j++ {
				switch rr.Intn(6) {
				case 0:
					coll.UpdateMany(ctx, bson.D{}, bson.D{{Key: "$inc", Value: bson.D{{Key: "n", Value: int32(1)}}}})
				case 1:
					coll.DeleteOne(ctx, bson.D{})
				case 2:
					// a session transaction with two writes
					sess, err := w.client.StartSession()
					if err == nil {
						sess.WithTransaction(ctx, func(sc lungo.ISessionContext) (interface{}, error) {
							coll.InsertOne(sc, bson.D{{Key: "t", Value: int32(j)}})
							coll.InsertOne(sc, bson.D{{Key: "t", Value: int32(-j)}})
							return nil, nil
						})
						sess.EndSession(ctx)
					}
				default:
					coll.InsertOne(ctx, bson.D{{Key: "j", Value: int32(j)}})
				}
			}
		}(i)
	}
	wg.Wait()
	// all commits are done: the complete history is the change log (retention far away)
	h := oplogEvents(w.engine.Catalog())
	// every consumer must reach its expected sequence; decide stalls logically
	deadline := time.Now().Add(20 * time.Second)
	for _, cc := range cons {
		// 'now' under concurrency: the stream was opened before any writer started, so the start is 0
		cc.st.start = 0
		want, _ := c09Expect(h, cc.st)
		for {
			cc.mu.Lock()
			n := len(cc.ids)
			cc.mu.Unlock()
			if n >= len(want) {
				break
			}
			if cc.parked.Load() {
				// (the consumer may be between its wake-up and its bookkeeping: the
				// pattern must hold over several samples)
				stuck := c09StableStall(func() (bool, int, int64) {
					pending := -1
					if s, ok := cc.st.s.(*lungo.Stream); ok {
						pending = s.VerifSignalPending()
					}
					cc.mu.Lock()
					defer cc.mu.Unlock()
					return cc.parked.Load(), pending, int64(len(cc.ids))
				})
				cc.mu.Lock()
				n2 := len(cc.ids)
				cc.mu.Unlock()
				if stuck && n2 == n && n2 < len(want) {
					c.Violate("stream:lost-wake-up", fmt.Sprintf("a consumer (%s) is parked waiting although %d committed events of its scope are undelivered, no wake-up signal is pending and no writer is active", cc.st.scope(), len(want)-n2),
						map[string]interface{}{"delivered": n2, "expected": len(want), "hook_trace": ctl.TraceStrings(60)})
					return
				}
			}
			if time.Now().After(deadline) {
				c.Inconclusive(fmt.Sprintf("consumer %s delivered %d of %d events within the watchdog without being parked", cc.st.scope(), n, len(want)))
				return
			}
			time.Sleep(time.Millisecond)
		}
		cc.mu.Lock()
		got := append([]string{}, cc.ids...)
		cc.mu.Unlock()
		c.Count("concurrent_events_delivered", int64(len(got)))
		if len(got) > len(want) {
			c.Violate("stream:extra-event", fmt.Sprintf("consumer %s delivered %d events, only %d are in its scope", cc.st.scope(), len(got), len(want)), nil)
			return
		}
		for i := range got {
			if got[i] != want[i] {
				c.Violate("stream:wrong-event", fmt.Sprintf("consumer %s: delivered event %d is not the %d-th committed event of its scope (duplicate, gap or reorder under concurrent writers)", cc.st.scope(), i, i), map[string]interface{}{"hook_trace": ctl.TraceStrings(60)})
				return
			}
		}
	}
	if directed && ctl.Achieved.Load() {
		c.Count("directed_wait_windows_hit", 1)
	}
	// release the parked consumers: Close / cancel / engine Close
	for _, cc := range cons {
		// wait until it is parked (it has nothing more to deliver)
		for i := 0; i < 2000 && !cc.parked.Load() && !cc.finished.Load(); i++ {
			time.Sleep(time.Millisecond)
		}
	}
	engineClose := false
	for _, cc := range cons {
		switch cc.how {
		case "close":
			cc.st.s.Close(ctx)
		case "cancel":
			cc.cancel()
		default:
			engineClose = true
		}
	}
	if engineClose {
		closedByTest = true
		w.close()
	}
	released := make(chan struct{})
	go func() { cg.Wait(); close(released) }()
	select {
	case <-released:
		c.Count("parked_consumers_released", int64(len(cons)))
	case <-time.After(10 * time.Second):
		var stuck []string
		for _, cc := range cons {
			if !cc.finished.Load() {
				stuck = append(stuck, cc.how)
			}
		}
		c.Violate("stream:not-released", fmt.Sprintf("consumers blocked in Next were not released by %v", stuck), map[string]interface{}{"hook_trace": ctl.TraceStrings(60)})
		for _, cc := range cons {
			cc.cancel()
			cc.st.s.Close(ctx)
		}
		return
	}
	for _, cc := range cons {
		cc.cancel()
	}
}
