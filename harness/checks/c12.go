package checks

import (
	"context"
	"fmt"
	"math"
	"math/big"
	"strconv"

	"github.com/256dpi/lungo"
	"github.com/256dpi/lungo/bsonkit"
	"go.mongodb.org/mongo-driver/bson"
	"go.mongodb.org/mongo-driver/bson/primitive"
	"go.mongodb.org/mongo-driver/mongo/options"

	"verifharness/fw"
	"verifharness/gen"
	"verifharness/ref"
)

// C12 — BSON value comparison is a total order consistent with the MongoDB
// type order. Exhaustive pair/triple enumeration over a fixed pool plus random
// nested pairs; agreement with the exact reference order; driver-level sorted
// Find / Distinct adjacency.

func c12Pool(thorough bool, r *fw.Rand) []interface{} {
	var pool []interface{}
	pool = append(pool, gen.BoundaryNumbers...)
	pool = append(pool, gen.CoreOthers...)
	pool = append(pool, gen.BoundaryOthers...)
	if thorough {
		pool = append(pool, gen.CoreNumbers...)
	} else {
		for i, v := range gen.CoreNumbers {
			if i%3 == 0 {
				pool = append(pool, v)
			}
		}
	}
	// nested values that differ late or in length
	nested := []interface{}{
		bson.D{}, bson.A{},
		bson.D{{Key: "a", Value: int32(1)}},
		bson.D{{Key: "a", Value: int64(1)}},
		bson.D{{Key: "a", Value: 1.0}, {Key: "b", Value: int32(2)}},
		bson.D{{Key: "a", Value: int32(1)}, {Key: "b", Value: gen.D128("2")}},
		bson.D{{Key: "a", Value: int32(1)}, {Key: "b", Value: int32(3)}},
		bson.D{{Key: "a", Value: int32(1)}, {Key: "c", Value: int32(0)}},
		bson.D{{Key: "b", Value: int32(0)}},
		bson.D{{Key: "a", Value: bson.A{int32(1), int32(2)}}},
		bson.D{{Key: "a", Value: bson.A{int32(1), int32(2), int32(3)}}},
		bson.D{{Key: "a", Value: bson.D{{Key: "x", Value: nil}}}},
		bson.D{{Key: "a", Value: bson.D{{Key: "x", Value: false}}}},
		bson.D{{Key: "a", Value: math.NaN()}},
		bson.D{{Key: "a", Value: gen.D128("NaN")}},
		bson.D{{Key: "a", Value: float64(int64(1) << 62)}},
		bson.D{{Key: "a", Value: int64(4611686018427387950)}},
		bson.D{{Key: "a", Value: gen.D128("4611686018427387950")}},
		bson.A{int32(1)}, bson.A{int64(1)}, bson.A{int32(1), int32(2)}, bson.A{int32(1), 2.0}, bson.A{int32(1), int32(2), nil},
		bson.A{int32(2)}, bson.A{nil}, bson.A{bson.A{}}, bson.A{bson.A{int32(1)}}, bson.A{bson.D{}},
		bson.A{"a", "b"}, bson.A{"a", "c"}, bson.A{"a"}, bson.A{gen.D128("Infinity")}, bson.A{math.Inf(1)},
		bson.A{int64(math.MaxInt64)}, bson.A{float64(math.MaxInt64)}, bson.A{gen.D128("9223372036854775807")},
	}
	pool = append(pool, nested...)
	if thorough {
		o := gen.Opts{Pool: gen.Boundary, Depth: 3, MaxArr: 3, MaxFields: 3, NestedArr: true}
		for len(pool) < 320 {
			pool = append(pool, gen.Value(r, o, 0))
		}
	}
	return pool
}

// exactDouble reports whether the shortest decimal rendering of f equals its
// exact value.
func shortestIsExact(f float64) bool {
	if math.IsNaN(f) || math.IsInf(f, 0) {
		return true
	}
	s := strconv.FormatFloat(f, 'g', -1, 64)
	r, ok := new(big.Rat).SetString(s)
	if !ok {
		return false
	}
	e := new(big.Rat)
	e.SetFloat64(f)
	return r.Cmp(e) == 0
}

// c12LeafKey is the known-finding predicate over a pair of numeric leaves.
func c12LeafKey(a, b interface{}) string {
	_, ad := a.(primitive.Decimal128)
	_, bd := b.(primitive.Decimal128)
	af, aIsF := a.(float64)
	bf, bIsF := b.(float64)
	if (ad || bd) && (ref.NonFinite(a) || ref.NonFinite(b)) {
		return "compare:nonfinite~decimal128"
	}
	if (aIsF && bd && !shortestIsExact(af)) || (bIsF && ad && !shortestIsExact(bf)) {
		return "compare:double~decimal128:inexact-double"
	}
	return ""
}

// c12PairKey walks two values in parallel and returns the predicate key of the
// first numeric leaf pair that satisfies one.
func c12PairKey(a, b interface{}) string {
	if ref.Class(a) != ref.Class(b) {
		return ""
	}
	switch x := a.(type) {
	case bson.D:
		y := b.(bson.D)
		for i := 0; i < len(x) && i < len(y); i++ {
			if k := c12PairKey(x[i].Value, y[i].Value); k != "" {
				return k
			}
		}
	case bson.A:
		y := b.(bson.A)
		for i := 0; i < len(x) && i < len(y); i++ {
			if k := c12PairKey(x[i], y[i]); k != "" {
				return k
			}
		}
	default:
		if ref.Class(a) == ref.CNumber {
			return c12LeafKey(a, b)
		}
	}
	return ""
}

func sign(i int) int {
	if i < 0 {
		return -1
	}
	if i > 0 {
		return 1
	}
	return 0
}

func init() {
	fw.Register(&fw.Check{
		ID:         "C12",
		Exhaustive: true,
		Rule: "exhaustive over all ordered pairs and all triples of a fixed pool (every class; boundary numerics around 2^53/2^63, non-finite doubles and decimals, " +
			"nested values differing late or in length) + seeded random nested pairs + driver-level sorted Find/Distinct adjacency; " +
			"a pair is non-trivial if both operands are in the same class and differ in representation; distinct = hash of the rendered pair",
		Assumptions: []string{"ref.Compare (exact big.Rat arithmetic) is the trusted order", "exhaustive only relative to the pool"},
		Batches: func(tier string) int {
			if tier == "thorough" {
				return 16
			}
			return 4
		},
		Require: func(tier string) map[string]int64 {
			return map[string]int64{"pairs_vs_ref": 1000, "triples": 100000, "driver_sorted_adjacent": 50}
		},
		Run: runC12,
	})
}

func runC12(c *fw.Ctx) {
	pool := c12Pool(c.Thorough(), c.Rand(0))
	n := len(pool)
	c.Max("max:pool_size", int64(n))

	// matrices (every batch computes them; cheap)
	lm := make([][]int8, n)
	rm := make([][]int8, n)
	c.Case(1, func() interface{} { return "matrix computation" }, nil, func() {
		for i := 0; i < n; i++ {
			lm[i] = make([]int8, n)
			rm[i] = make([]int8, n)
			for j := 0; j < n; j++ {
				c.SetProgressDetail(fmt.Sprintf("Compare(%s, %s)", gen.JSON(pool[i]), gen.JSON(pool[j])))
				lm[i][j] = int8(sign(bsonkit.Compare(pool[i], pool[j])))
				rm[i][j] = int8(ref.Compare(pool[i], pool[j]))
			}
		}
	})
	if lm[n-1] == nil {
		return
	}

	report := func(key, desc string, vals ...interface{}) {
		var w []string
		for _, v := range vals {
			w = append(w, gen.JSON(v))
		}
		c.Violate(key, desc, w)
	}

	// pairs: reflexivity, antisymmetry, agreement with ref (batch 0 only)
	if c.Batch == 0 && !c.Skip(2) {
		for i := 0; i < n; i++ {
			if lm[i][i] != 0 {
				report(orGeneric(c12PairKey(pool[i], pool[i]), "compare:reflexive"), fmt.Sprintf("Compare(a,a)=%d", lm[i][i]), pool[i])
			}
			for j := 0; j < n; j++ {
				c.Eval(1)
				c.Count("pairs_vs_ref", 1)
				if ref.Class(pool[i]) == ref.Class(pool[j]) && i != j {
					c.Nontrivial(fw.Hash64([]byte(gen.JSON(pool[i]) + "|" + gen.JSON(pool[j]))))
				}
				key := c12PairKey(pool[i], pool[j])
				if lm[i][j] != -lm[j][i] {
					report(orGeneric(key, "compare:antisymmetry"), fmt.Sprintf("sgn Compare(a,b)=%d but sgn Compare(b,a)=%d", lm[i][j], lm[j][i]), pool[i], pool[j])
				}
				if lm[i][j] != rm[i][j] {
					report(orGeneric(key, "compare:vs-ref"), fmt.Sprintf("sgn Compare(a,b)=%d, exact order says %d", lm[i][j], rm[i][j]), pool[i], pool[j])
				}
			}
		}
		c.Sample(map[string]string{"a": gen.JSON(pool[3]), "b": gen.JSON(pool[40]), "lungo": fmt.Sprint(lm[3][40]), "ref": fmt.Sprint(rm[3][40])})
	}

	// triples: transitivity and congruence, first index striped over batches
	if !c.Skip(3) {
		var triples int64
		for i := c.Batch; i < n; i += c.NBatches {
			for j := 0; j < n; j++ {
				ij := lm[i][j]
				for k := 0; k < n; k++ {
					triples++
					jk, ik := lm[j][k], lm[i][k]
					if ij <= 0 && jk <= 0 && ik > 0 {
						key := c12TripleKey(pool[i], pool[j], pool[k])
						report(orGeneric(key, "compare:transitivity"), "a<=b, b<=c but a>c", pool[i], pool[j], pool[k])
					}
					if ij == 0 && ik != jk {
						key := c12TripleKey(pool[i], pool[j], pool[k])
						report(orGeneric(key, "compare:congruence"), fmt.Sprintf("a==b but sgn Compare(a,c)=%d, sgn Compare(b,c)=%d", ik, jk), pool[i], pool[j], pool[k])
					}
				}
			}
			if c.Violations() >= 50 {
				break
			}
		}
		c.Count("triples", triples)
		c.Eval(triples)
	}

	// random nested pairs
	nrand := c.N(50000, 2000000) / c.NBatches
	o := gen.Opts{Pool: gen.Boundary, Depth: 3, MaxArr: 3, MaxFields: 3, NestedArr: true}
	for q := 0; q < nrand; q++ {
		idx := 1000 + c.Batch*nrand + q
		if c.Skip(idx) {
			continue
		}
		r := c.Rand(idx)
		a := gen.Value(r, o, 0)
		var b interface{}
		if r.Chance(1, 2) {
			b = mutateValue(r, a)
		} else {
			b = gen.Value(r, o, 0)
		}
		c.Case(idx, func() interface{} { return []string{gen.JSON(a), gen.JSON(b)} }, nil, func() {
			c.Eval(1)
			c.Count("random_pairs", 1)
			ab, ba, aa := sign(bsonkit.Compare(a, b)), sign(bsonkit.Compare(b, a)), bsonkit.Compare(a, a)
			want := ref.Compare(a, b)
			key := c12PairKey(a, b)
			if ref.Class(a) == ref.Class(b) {
				c.Nontrivial(fw.Hash64([]byte(gen.JSON(a) + "|" + gen.JSON(b))))
			}
			if aa != 0 {
				report(orGeneric(c12PairKey(a, a), "compare:reflexive"), "Compare(a,a)!=0", a)
			}
			if ab != -ba {
				report(orGeneric(key, "compare:antisymmetry"), fmt.Sprintf("sgn Compare(a,b)=%d, sgn Compare(b,a)=%d", ab, ba), a, b)
			}
			if ab != want {
				report(orGeneric(key, "compare:vs-ref"), fmt.Sprintf("sgn Compare(a,b)=%d, exact order says %d", ab, want), a, b)
			}
		})
	}

	// driver level: sorted Find and Distinct must be in reference order
	if c.Batch == 0 && !c.Skip(4) {
		c.Case(4, func() interface{} { return "driver-level sorted find/distinct over the pool" }, nil, func() {
			c12Driver(c, pool)
		})
	}
}

func orGeneric(key, generic string) string {
	if key != "" {
		return key
	}
	return generic
}

func c12TripleKey(a, b, c interface{}) string {
	for _, p := range [][2]interface{}{{a, b}, {b, c}, {a, c}} {
		if k := c12PairKey(p[0], p[1]); k != "" {
			return k
		}
	}
	return ""
}

// mutateValue returns a near copy of v that differs late (last leaf changed or
// an element appended/removed).
func mutateValue(r *fw.Rand, v interface{}) interface{} {
	return mutateValueP(r, v, gen.Boundary)
}

func mutateValueP(r *fw.Rand, v interface{}, pool gen.Pool) interface{} {
	switch x := v.(type) {
	case bson.D:
		c := gen.CloneDoc(x)
		if len(c) == 0 || r.Chance(1, 4) {
			return append(c, bson.E{Key: fw.Pick(r, gen.Keys), Value: gen.Scalar(r, pool)})
		}
		if r.Chance(1, 4) {
			return c[:len(c)-1]
		}
		c[len(c)-1].Value = mutateValueP(r, c[len(c)-1].Value, pool)
		return c
	case bson.A:
		c := gen.CloneValue(x).(bson.A)
		if len(c) == 0 || r.Chance(1, 4) {
			return append(c, gen.Scalar(r, pool))
		}
		if r.Chance(1, 4) {
			return c[:len(c)-1]
		}
		c[len(c)-1] = mutateValueP(r, c[len(c)-1], pool)
		return c
	default:
		if ref.Class(v) == ref.CNumber {
			return gen.Number(r, pool)
		}
		return gen.Scalar(r, pool)
	}
}

func openMemEngine() (lungo.IClient, *lungo.Engine, error) {
	// a tiny oplog window keeps long-running workers from paying for an ever
	// growing change log (checks about the oplog itself open their own engine)
	return lungo.Open(nil, lungo.Options{Store: lungo.NewMemoryStore(), ExpireInterval: 1 << 40,
		MinOplogSize: 2, MaxOplogSize: 8, MinOplogAge: 1, MaxOplogAge: 3600e9})
}

func c12Driver(c *fw.Ctx, pool []interface{}) {
	client, engine, err := openMemEngine()
	if err != nil {
		c.Inconclusive("cannot open engine: " + err.Error())
		return
	}
	defer engine.Close()
	coll := client.Database("d").Collection("c12")
	ctx := context.Background()
	var scalars []interface{}
	for i, v := range pool {
		if _, ok := v.(bson.A); ok {
			continue // arrays sort by min/max element (C13); keep C12 about whole values
		}
		if _, err := coll.InsertOne(ctx, bson.D{{Key: "_id", Value: int32(i)}, {Key: "v", Value: v}}); err != nil {
			c.Violate("compare:driver-insert", "insert of a pool value failed: "+err.Error(), gen.JSON(v))
			return
		}
		scalars = append(scalars, v)
	}
	for _, dir := range []int32{1, -1} {
		cur, err := coll.Find(ctx, bson.D{}, options.Find().SetSort(bson.D{{Key: "v", Value: dir}}))
		if err != nil {
			c.Violate("compare:driver-find", "sorted find failed: "+err.Error(), nil)
			return
		}
		var docs []bson.D
		if err := cur.All(ctx, &docs); err != nil {
			c.Violate("compare:driver-find", "cursor decode failed: "+err.Error(), nil)
			return
		}
		if len(docs) != len(scalars) {
			c.Violate("compare:driver-find", fmt.Sprintf("sorted find returned %d of %d documents", len(docs), len(scalars)), nil)
		}
		for i := 1; i < len(docs); i++ {
			a, b := normNull(docs[i-1][1].Value), normNull(docs[i][1].Value)
			c.Count("driver_sorted_adjacent", 1)
			got := ref.Compare(a, b) * int(dir)
			if got > 0 {
				c.Violate(orGeneric(c12PairKey(a, b), "compare:driver-sort"), fmt.Sprintf("sorted find (dir %d) returned adjacent values out of reference order", dir), []string{gen.JSON(a), gen.JSON(b)})
			}
		}
	}
	vals, err := coll.Distinct(ctx, "v", bson.D{})
	if err != nil {
		c.Violate("compare:driver-distinct", "distinct failed: "+err.Error(), nil)
		return
	}
	for i := 1; i < len(vals); i++ {
		c.Count("driver_sorted_adjacent", 1)
		if ref.Compare(vals[i-1], vals[i]) >= 0 {
			c.Violate(orGeneric(c12PairKey(vals[i-1], vals[i]), "compare:driver-distinct"), "distinct values not strictly ascending in reference order", []string{gen.JSON(vals[i-1]), gen.JSON(vals[i])})
		}
	}
	// every pool value must be represented by an equal distinct value, and the
	// number of distinct values equals the number of reference equivalence classes
	classes := 0
	for i, v := range scalars {
		dup := false
		for j := 0; j < i; j++ {
			if ref.Compare(scalars[j], v) == 0 {
				dup = true
				break
			}
		}
		if !dup {
			classes++
		}
	}
	if len(vals) != classes {
		key := "compare:driver-distinct-classes"
		// attribute to a known predicate if any pair of pool numerics satisfies it
		c.Violate(key, fmt.Sprintf("distinct returned %d values, reference has %d equivalence classes", len(vals), classes), nil)
	}
}

func normNull(v interface{}) interface{} {
	if _, ok := v.(primitive.Null); ok {
		return nil
	}
	return v
}
