package checks

import (
	"bytes"
	"context"
	"errors"
	"fmt"
	"io"
	"strings"

	"github.com/256dpi/lungo"
	"go.mongodb.org/mongo-driver/bson"
	"go.mongodb.org/mongo-driver/mongo/options"

	"verifharness/fw"
)

// C18 — GridFS returns the bytes that were uploaded, at any offset.

func init() {
	fw.Register(&fw.Check{
		ID: "C18",
		Rule: "seeded (content length in {0, 1, cs-1, cs, cs+1, k*cs-1, k*cs, k*cs+1, random}, chunk size in {1, 7, 64, 1000, 255 KiB}, write partition in {single, byte-wise, random pieces, io.Reader}, lifecycle in {plain upload, upload-from-stream, tracked suspend/resume/close/claim (suspend points inside and on chunk borders), abort after resume, delete, tracked delete + cleanup, cleanup of an abandoned upload, rename}) cases plus uploads crossing the 16 MiB upload buffer (16 MiB+-1, 16 MiB+1234, 32 MiB+3 with chunk sizes that do and do not divide the buffer); " +
			"every completed upload is downloaded whole (DownloadToStream, by id and by name) and through a 30-step read/skip/seek script (all whence values, negative targets, beyond EOF, zero-length reads) that is executed in lock step on a bytes.Reader of the content: returned bytes, counts, positions and EOF/error outcomes must agree; the files record must state length and chunk size, the stored chunks must be numbered 0..n-1 with all but the last full and sum to the length; aborted, deleted and cleaned-up files must leave no chunk, file or marker document; " +
			"non-trivial = content spans at least two chunks and the script crossed a chunk border backwards; distinct = hash of (length, chunk size, partition, lifecycle, script)",
		Assumptions: []string{"bytes.Reader is the model of read/seek behaviour (a rejected negative seek keeps the position in both)", "invalid whence values and chunk sizes above the 16 MiB buffer are not driven"},
		Batches:     func(tier string) int { return 16 },
		Require: func(tier string) map[string]int64 {
			return map[string]int64{"uploads_completed": 300, "companion_files": 60, "rolled_back_deletes": 10, "uploads_with_their_own_chunk_size": 20, "script_steps": 8000, "chunk_census": 300, "suspend_resume": 60, "aborts": 30, "deletes": 30, "cleanups": 30, "buffer_crossing_uploads": 2, "negative_seeks_rejected": 100, "reads_at_eof": 300}
		},
		Run: runC18,
	})
}

func c18Content(r *fw.Rand, n int) []byte {
	b := make([]byte, n)
	x := r.U64()
	for i := range b {
		x = x*6364136223846793005 + 1442695040888963407
		b[i] = byte(x >> 56)
	}
	return b
}

type c18Env struct {
	c      *fw.Ctx
	ctx    context.Context
	db     lungo.IDatabase
	bucket *lungo.Bucket
	cs     int
	desc   map[string]interface{}
}

func (e *c18Env) fail(key, msg string) {
	e.c.Violate(key, msg, e.desc)
}

// census checks files record and chunks of a file; want==nil means the file
// must not exist at all (no file, chunk).
func (e *c18Env) census(id interface{}, want []byte) bool {
	files := e.bucket.GetFilesCollection(e.ctx)
	chunks := e.bucket.GetChunksCollection(e.ctx)
	var fdocs []bson.M
	cur, err := files.Find(e.ctx, bson.M{"_id": id})
	if err == nil {
		err = cur.All(e.ctx, &fdocs)
	}
	if err != nil {
		e.fail("gridfs:census-error", "reading the files collection failed: "+err.Error())
		return false
	}
	var cdocs []lungo.BucketChunk
	cur, err = chunks.Find(e.ctx, bson.M{"files_id": id}, options.Find().SetSort(bson.M{"n": 1}))
	if err == nil {
		err = cur.All(e.ctx, &cdocs)
	}
	if err != nil {
		e.fail("gridfs:census-error", "reading the chunks collection failed: "+err.Error())
		return false
	}
	e.c.Count("chunk_census", 1)
	if want == nil {
		if len(fdocs) != 0 || len(cdocs) != 0 {
			e.fail("gridfs:leftover", fmt.Sprintf("an aborted/deleted/cleaned-up file left %d file records and %d chunks behind", len(fdocs), len(cdocs)))
			return false
		}
		return true
	}
	if len(fdocs) != 1 {
		e.fail("gridfs:file-record", fmt.Sprintf("%d file records for a completed upload", len(fdocs)))
		return false
	}
	var f lungo.BucketFile
	if err := files.FindOne(e.ctx, bson.M{"_id": id}).Decode(&f); err != nil {
		e.fail("gridfs:file-record", "cannot decode the file record: "+err.Error())
		return false
	}
	if f.Length != len(want) || f.ChunkSize != e.cs {
		e.fail("gridfs:file-record", fmt.Sprintf("file record states length=%d chunkSize=%d, uploaded %d bytes with chunk size %d", f.Length, f.ChunkSize, len(want), e.cs))
		return false
	}
	n := (len(want) + e.cs - 1) / e.cs
	if len(cdocs) != n {
		e.fail("gridfs:chunk-count", fmt.Sprintf("%d chunks stored for %d bytes with chunk size %d (expected %d)", len(cdocs), len(want), e.cs, n))
		return false
	}
	for i, ch := range cdocs {
		if ch.Num != i {
			e.fail("gridfs:chunk-numbering", fmt.Sprintf("chunk at position %d has number %d", i, ch.Num))
			return false
		}
		lo := i * e.cs
		hi := lo + e.cs
		if hi > len(want) {
			hi = len(want)
		}
		if len(ch.Data) != hi-lo {
			e.fail("gridfs:chunk-size", fmt.Sprintf("chunk %d of %d holds %d bytes (expected %d)", i, n, len(ch.Data), hi-lo))
			return false
		}
		if !bytes.Equal(ch.Data, want[lo:hi]) {
			off := 0
			for off < len(ch.Data) && ch.Data[off] == want[lo+off] {
				off++
			}
			e.fail("gridfs:chunk-content", fmt.Sprintf("chunk %d differs from the uploaded bytes at offset %d of the chunk (file offset %d)", i, off, lo+off))
			return false
		}
	}
	return true
}

func (e *c18Env) markers() int {
	n, _ := e.bucket.GetMarkersCollection(e.ctx).CountDocuments(e.ctx, bson.M{})
	return int(n)
}

// write feeds data into a stream according to the partition kind.
func c18Write(r *fw.Rand, s *lungo.UploadStream, data []byte, partition int) error {
	switch partition {
	case 0:
		if len(data) == 0 {
			return nil
		}
		_, err := s.Write(data)
		return err
	case 1:
		if len(data) > 5000 {
			return c18Write(r, s, data, 2)
		}
		for i := range data {
			if n, err := s.Write(data[i : i+1]); err != nil || n != 1 {
				return fmt.Errorf("byte-wise write returned n=%d err=%v", n, err)
			}
		}
		return nil
	default:
		for len(data) > 0 {
			max := len(data)
			if max > 1<<20 {
				max = 1 << 20
			}
			k := r.Intn(max) + 1
			if r.Chance(1, 8) {
				if _, err := s.Write(nil); err != nil {
					return err
				}
			}
			n, err := s.Write(data[:k])
			if err != nil || n != k {
				return fmt.Errorf("write of %d bytes returned n=%d err=%v", k, n, err)
			}
			data = data[k:]
		}
		return nil
	}
}

// script runs a read/skip/seek script in lock step with bytes.Reader.
func (e *c18Env) script(r *fw.Rand, id interface{}, want []byte, steps int) bool {
	ds, err := e.bucket.OpenDownloadStream(e.ctx, id)
	if err != nil {
		e.fail("gridfs:open-download", "OpenDownloadStream failed: "+err.Error())
		return false
	}
	defer ds.Close()
	model := bytes.NewReader(want)
	pos := int64(0)
	var log []string
	crossedBack := false
	for i := 0; i < steps; i++ {
		e.c.Count("script_steps", 1)
		switch r.Intn(7) {
		case 0, 1, 2: // read
			var n int
			switch r.Intn(6) {
			case 0:
				n = 0
			case 1:
				n = 1
			case 2:
				n = e.cs
			case 3:
				n = e.cs + 1
			case 4:
				n = len(want) + 3
			default:
				n = r.Intn(3*e.cs+2) + 1
			}
			if n > 1<<22 {
				n = 1 << 22
			}
			b1, b2 := make([]byte, n), make([]byte, n)
			n1, e1 := io.ReadFull(ds, b1)
			n2, e2 := io.ReadFull(model, b2)
			log = append(log, fmt.Sprintf("ReadFull(%d) at %d -> n=%d err=%v (model n=%d err=%v)", n, pos, n1, e1, n2, e2))
			if e2 == io.EOF || e2 == io.ErrUnexpectedEOF {
				e.c.Count("reads_at_eof", 1)
			}
			if n1 != n2 || !sameErrKind(e1, e2) || !bytes.Equal(b1[:n1], b2[:n2]) {
				e.desc["script"] = log
				e.fail("gridfs:read-differs", fmt.Sprintf("reading %d bytes at position %d returned n=%d err=%v, an in-memory reader of the content returns n=%d err=%v (bytes equal: %v)", n, pos, n1, e1, n2, e2, bytes.Equal(b1[:min(n1, n2)], b2[:min(n1, n2)])))
				return false
			}
			pos += int64(n2)
			// a single Read call as well
			if r.Chance(1, 3) {
				b1, b2 = make([]byte, e.cs+2), make([]byte, e.cs+2)
				n1, e1 = ds.Read(b1)
				// the model for a single Read: up to len(buf) bytes, EOF only with 0 bytes
				n2, e2 = model.Read(b2)
				if e1 == nil && n1 < n2 {
					// a short read is legal for io.Reader; catch the model up
					model.Seek(int64(n1-n2), io.SeekCurrent)
					n2 = n1
				}
				log = append(log, fmt.Sprintf("Read(%d) at %d -> n=%d err=%v (model n=%d err=%v)", len(b1), pos, n1, e1, n2, e2))
				if n1 != n2 || !sameErrKind(e1, e2) || !bytes.Equal(b1[:n1], b2[:n2]) {
					e.desc["script"] = log
					e.fail("gridfs:read-differs", fmt.Sprintf("Read at position %d returned n=%d err=%v, an in-memory reader returns n=%d err=%v", pos, n1, e1, n2, e2))
					return false
				}
				pos += int64(n2)
			}
		case 3: // skip
			k := int64(r.Intn(2*e.cs+3)) - int64(e.cs)
			if r.Chance(1, 6) {
				k = -pos - int64(r.Intn(3)) - 1 // negative target
			}
			p1, e1 := ds.Skip(k)
			p2, e2 := model.Seek(k, io.SeekCurrent)
			log = append(log, fmt.Sprintf("Skip(%d) at %d -> %d err=%v (model %d err=%v)", k, pos, p1, e1, p2, e2))
			if !e.seekAgree(p1, e1, p2, e2, &pos, log, &crossedBack) {
				return false
			}
		default: // seek
			whence := r.Intn(3)
			var off int64
			switch whence {
			case io.SeekStart:
				off = int64(r.Intn(len(want)+e.cs+2)) - 1
			case io.SeekCurrent:
				off = int64(r.Intn(4*e.cs+3)) - int64(2*e.cs)
			default:
				off = -int64(r.Intn(len(want)+e.cs+2)) + 1
			}
			if r.Chance(1, 8) {
				off = int64(len(want)) + int64(r.Intn(1000)) // far beyond EOF
				whence = io.SeekStart
			}
			p1, e1 := ds.Seek(off, whence)
			p2, e2 := model.Seek(off, whence)
			log = append(log, fmt.Sprintf("Seek(%d,%d) at %d -> %d err=%v (model %d err=%v)", off, whence, pos, p1, e1, p2, e2))
			if !e.seekAgree(p1, e1, p2, e2, &pos, log, &crossedBack) {
				return false
			}
		}
	}
	if len(want) > e.cs && crossedBack {
		e.c.Count("nontrivial_scripts", 1)
		e.c.Nontrivial(fw.Hash64([]byte(fmt.Sprint(e.desc, log))))
		if e.c.WantSample() {
			s := map[string]interface{}{"case": fmt.Sprint(e.desc), "script": log}
			if len(log) > 12 {
				s["script"] = log[:12]
			}
			e.c.Sample(s)
		}
	}
	return true
}

func (e *c18Env) seekAgree(p1 int64, e1 error, p2 int64, e2 error, pos *int64, log []string, crossedBack *bool) bool {
	if (e1 == nil) != (e2 == nil) {
		e.desc["script"] = log
		e.fail("gridfs:seek-differs", fmt.Sprintf("seek outcome differs: stream returned position %d err=%v, an in-memory reader %d err=%v", p1, e1, p2, e2))
		return false
	}
	if e2 != nil {
		e.c.Count("negative_seeks_rejected", 1)
		if !errors.Is(e1, lungo.ErrNegativePosition) {
			e.desc["script"] = log
			e.fail("gridfs:seek-error-kind", fmt.Sprintf("a seek to a negative position returned %v", e1))
			return false
		}
		return true // position unchanged in both
	}
	if p1 != p2 {
		e.desc["script"] = log
		e.fail("gridfs:seek-differs", fmt.Sprintf("seek returned position %d, an in-memory reader %d", p1, p2))
		return false
	}
	if p2 < *pos && int(p2)/e.cs < int(*pos)/e.cs {
		*crossedBack = true
	}
	*pos = p2
	return true
}

func sameErrKind(a, b error) bool {
	if a == nil || b == nil {
		return a == nil && b == nil
	}
	return errors.Is(a, io.EOF) == errors.Is(b, io.EOF) && errors.Is(a, io.ErrUnexpectedEOF) == errors.Is(b, io.ErrUnexpectedEOF)
}

func (e *c18Env) downloadWhole(id interface{}, name string, want []byte) bool {
	var buf bytes.Buffer
	n, err := e.bucket.DownloadToStream(e.ctx, id, &buf)
	if err != nil || int(n) != len(want) || !bytes.Equal(buf.Bytes(), want) {
		off := 0
		g := buf.Bytes()
		for off < len(g) && off < len(want) && g[off] == want[off] {
			off++
		}
		e.fail("gridfs:download-differs", fmt.Sprintf("DownloadToStream returned n=%d err=%v; content equal=%v (uploaded %d bytes, first difference at offset %d)", n, err, bytes.Equal(g, want), len(want), off))
		return false
	}
	if name != "" {
		buf.Reset()
		n, err = e.bucket.DownloadToStreamByName(e.ctx, name, &buf)
		if err != nil || int(n) != len(want) || !bytes.Equal(buf.Bytes(), want) {
			e.fail("gridfs:download-by-name-differs", fmt.Sprintf("DownloadToStreamByName returned n=%d err=%v; content equal=%v", n, err, bytes.Equal(buf.Bytes(), want)))
			return false
		}
	}
	return true
}

func runC18(c *fw.Ctx) {
	client, engine, err := openMemEngine()
	if err != nil {
		c.Inconclusive("open engine: " + err.Error())
		return
	}
	defer engine.Close()
	ctx := context.Background()
	n := c.N(640, 12800) / c.NBatches
	chunkSizes := []int{1, 7, 64, 1000, 255 * 1024}
	for q := 0; q < n; q++ {
		idx := c.Batch*n + q
		if c.Skip(idx) {
			continue
		}
		r := c.Rand(idx)
		cs := chunkSizes[r.Intn(len(chunkSizes))]
		if cs == 255*1024 && r.Chance(2, 3) {
			cs = chunkSizes[r.Intn(4)]
		}
		var length int
		k := r.Range(1, 6)
		switch r.Intn(10) {
		case 0:
			length = 0
		case 1:
			length = 1
		case 2:
			length = cs - 1
		case 3:
			length = cs
		case 4:
			length = cs + 1
		case 5:
			length = k*cs - 1
		case 6:
			length = k * cs
		case 7:
			length = k*cs + 1
		default:
			length = r.Intn(5*cs + 2)
		}
		if length < 0 {
			length = 0
		}
		if cs == 1 && length > 300 {
			length = 300
		}
		partition := r.Intn(4)
		lifecycle := r.Intn(10)
		c18Run(c, ctx, client, r, idx, cs, length, partition, lifecycle)
	}
	// uploads crossing the 16 MiB upload buffer
	big := []struct{ length, cs int }{
		{16<<20 + 1234, 1000000}, {16<<20 + 1, 1 << 20}, {16<<20 - 1, 1 << 20}, {32<<20 + 3, 3 << 20}, {16 << 20, 255 * 1024}, {16<<20 + 7, 4 << 20},
	}
	for i, b := range big {
		if !c.Thorough() && i >= 2 {
			break
		}
		if i%c.NBatches != c.Batch {
			continue
		}
		idx := 7000000 + i
		if c.Skip(idx) {
			continue
		}
		r := c.Rand(idx)
		c.Count("buffer_crossing_uploads", 1)
		c18Run(c, ctx, client, r, idx, b.cs, b.length, 2, 0)
	}
}

func c18Run(c *fw.Ctx, ctx context.Context, client lungo.IClient, r *fw.Rand, idx, cs, length, partition, lifecycle int) {
	lifeNames := []string{"plain", "plain", "from-stream", "tracked-suspend-resume", "tracked-suspend-resume", "abort-after-resume", "delete", "tracked-delete-cleanup", "abandoned-cleanup", "rename"}
	desc := map[string]interface{}{"length": length, "chunkSize": cs, "partition": partition, "lifecycle": lifeNames[lifecycle]}
	c.Case(idx, func() interface{} { return desc }, nil, func() {
		c.Eval(1)
		db := client.Database(fmt.Sprintf("g%d", idx))
		defer db.Drop(ctx)
		e := &c18Env{c: c, ctx: ctx, db: db, cs: cs, desc: desc}
		// tracked uploads: in every other case the bucket's default chunk size is
		// another one than the upload's own (given with each open); the file
		// record and the chunks must follow the upload's
		bucketCS := cs
		var upOpts []*options.UploadOptions
		if strings.HasPrefix(lifeNames[lifecycle], "tracked") && r.Bool() {
			bucketCS = cs + 3
			upOpts = append(upOpts, options.GridFSUpload().SetChunkSizeBytes(int32(cs)))
			c.Count("uploads_with_their_own_chunk_size", 1)
		}
		e.bucket = lungo.NewBucket(db, options.GridFSBucket().SetChunkSizeBytes(int32(bucketCS)))
		content := c18Content(r, length)
		id := fmt.Sprintf("file-%d", idx)
		name := fmt.Sprintf("name-%d", idx)
		steps := 30
		switch lifeNames[lifecycle] {
		case "plain", "rename", "delete":
			// companions: other multi-chunk files in the same bucket, one stored
			// before and one after the file under test; they are downloaded
			// before the file is deleted/renamed and must be intact afterwards
			type comp struct {
				id      string
				content []byte
			}
			var comps []comp
			companion := func(tag string) bool {
				cc := c18Content(r, e.cs*r.Range(2, 4)+r.Intn(e.cs))
				cid := fmt.Sprintf("%s-%d", tag, idx)
				if err := e.bucket.UploadFromStreamWithID(ctx, cid, cid, bytes.NewReader(cc)); err != nil {
					e.fail("gridfs:upload-from-stream", "UploadFromStreamWithID (companion) failed: "+err.Error())
					return false
				}
				comps = append(comps, comp{cid, cc})
				c.Count("companion_files", 1)
				return true
			}
			checkComps := func() bool {
				for _, cp := range comps {
					if !e.census(cp.id, cp.content) || !e.downloadWhole(cp.id, cp.id, cp.content) {
						return false
					}
				}
				return true
			}
			withComps := r.Chance(1, 2) && e.cs*5 < 200000
			if withComps && !companion("before") {
				return
			}
			defer func() {
				if withComps && c.Violations() == 0 {
					checkComps()
				}
			}()
			s, err := e.bucket.OpenUploadStreamWithID(ctx, id, name)
			if err != nil {
				e.fail("gridfs:open-upload", "OpenUploadStreamWithID failed: "+err.Error())
				return
			}
			if err := c18Write(r, s, content, partition); err != nil {
				e.fail("gridfs:write", "Write failed: "+err.Error())
				return
			}
			if err := s.Close(); err != nil {
				e.fail("gridfs:close", "Close failed: "+err.Error())
				return
			}
			c.Count("uploads_completed", 1)
			if withComps && (!companion("after") || !checkComps()) {
				return
			}
			if !e.census(id, content) || !e.downloadWhole(id, name, content) || !e.script(r, id, content, steps) {
				return
			}
			if lifeNames[lifecycle] == "rename" {
				if err := e.bucket.Rename(ctx, id, name+"-renamed"); err != nil {
					e.fail("gridfs:rename", "Rename failed: "+err.Error())
					return
				}
				if !e.census(id, content) || !e.downloadWhole(id, name+"-renamed", content) {
					return
				}
				var buf bytes.Buffer
				if _, err := e.bucket.DownloadToStreamByName(ctx, name, &buf); !errors.Is(err, lungo.ErrFileNotFound) {
					e.fail("gridfs:rename-old-name", fmt.Sprintf("the old name still resolves after Rename (err=%v)", err))
				}
			}
			if lifeNames[lifecycle] == "delete" && r.Bool() {
				// a delete inside a session transaction that is rolled back leaves
				// the file (and its companions) as they were
				if sess, err := client.StartSession(); err == nil {
					if err := sess.StartTransaction(); err == nil {
						var derr error
						lungo.WithSession(ctx, sess, func(sc lungo.ISessionContext) error {
							derr = e.bucket.Delete(sc, id)
							return nil
						})
						sess.AbortTransaction(ctx)
						c.Count("rolled_back_deletes", 1)
						if derr != nil {
							e.fail("gridfs:delete", "Delete inside a session transaction failed: "+derr.Error())
							sess.EndSession(ctx)
							return
						}
					}
					sess.EndSession(ctx)
				}
				if !e.census(id, content) || !e.downloadWhole(id, name, content) {
					return
				}
				if withComps && !checkComps() {
					return
				}
			}
			if lifeNames[lifecycle] == "delete" {
				c.Count("deletes", 1)
				if err := e.bucket.Delete(ctx, id); err != nil {
					e.fail("gridfs:delete", "Delete failed: "+err.Error())
					return
				}
				if !e.census(id, nil) {
					return
				}
				if err := e.bucket.Delete(ctx, id); !errors.Is(err, lungo.ErrFileNotFound) {
					e.fail("gridfs:delete-twice", fmt.Sprintf("deleting a deleted file returned %v", err))
				}
				if _, err := e.bucket.OpenDownloadStream(ctx, id); err == nil {
					ds, _ := e.bucket.OpenDownloadStream(ctx, id)
					if _, rerr := ds.Read(make([]byte, 1)); !errors.Is(rerr, lungo.ErrFileNotFound) {
						e.fail("gridfs:read-deleted", fmt.Sprintf("reading a deleted file returned %v", rerr))
					}
				}
			}
		case "from-stream":
			var rd io.Reader = bytes.NewReader(content)
			if partition%2 == 1 {
				rd = iotestOneByte{rd}
				if length > 20000 {
					rd = bytes.NewReader(content)
				}
			}
			if err := e.bucket.UploadFromStreamWithID(ctx, id, name, rd); err != nil {
				e.fail("gridfs:upload-from-stream", "UploadFromStreamWithID failed: "+err.Error())
				return
			}
			c.Count("uploads_completed", 1)
			if !e.census(id, content) || !e.downloadWhole(id, name, content) || !e.script(r, id, content, steps) {
				return
			}
		case "tracked-suspend-resume", "abort-after-resume", "abandoned-cleanup", "tracked-delete-cleanup":
			e.bucket.EnableTracking()
			// one or two suspend points
			written := 0
			markerExists := false
			nsusp := r.Range(1, 2)
			for sp := 0; sp <= nsusp; sp++ {
				s, err := e.bucket.OpenUploadStreamWithID(ctx, id, name, upOpts...)
				if err != nil {
					e.fail("gridfs:open-upload", "OpenUploadStreamWithID failed: "+err.Error())
					return
				}
				// (a suspend before the first byte creates no marker: nothing to resume)
				if sp > 0 && markerExists {
					got, err := s.Resume()
					if err != nil || int(got) != written {
						e.fail("gridfs:resume", fmt.Sprintf("Resume returned %d err=%v, %d bytes had been persisted by Suspend", got, err, written))
						return
					}
				}
				if sp == nsusp {
					// final part
					if lifeNames[lifecycle] == "abort-after-resume" {
						c18Write(r, s, content[written:written+(length-written)/2], partition)
						c.Count("aborts", 1)
						if err := s.Abort(); err != nil {
							e.fail("gridfs:abort", "Abort failed: "+err.Error())
							return
						}
						if !e.census(id, nil) {
							return
						}
						if m := e.markers(); m != 0 {
							e.fail("gridfs:leftover-marker", fmt.Sprintf("%d markers left after Abort", m))
						}
						return
					}
					if lifeNames[lifecycle] == "abandoned-cleanup" {
						// leave the suspended upload behind and clean up
						c.Count("cleanups", 1)
						if err := e.bucket.Cleanup(ctx, -1e9*3600); err != nil {
							e.fail("gridfs:cleanup", "Cleanup failed: "+err.Error())
							return
						}
						if !e.census(id, nil) {
							return
						}
						if m := e.markers(); m != 0 {
							e.fail("gridfs:leftover-marker", fmt.Sprintf("%d markers left after Cleanup of an abandoned upload", m))
						}
						return
					}
					if err := c18Write(r, s, content[written:], partition); err != nil {
						e.fail("gridfs:write", "Write failed: "+err.Error())
						return
					}
					if err := s.Close(); err != nil {
						e.fail("gridfs:close", "Close failed: "+err.Error())
						return
					}
					break
				}
				// write up to a suspend point (inside or on a chunk border)
				upto := written
				if length > written {
					upto = written + r.Intn(length-written+1)
					if r.Chance(1, 3) && cs <= length-written {
						upto = written + ((length-written)/cs)*cs/1 // on a border
						if upto > length {
							upto = length
						}
					}
				}
				if err := c18Write(r, s, content[written:upto], partition); err != nil {
					e.fail("gridfs:write", "Write failed: "+err.Error())
					return
				}
				if upto > written {
					markerExists = true
				}
				got, err := s.Suspend()
				c.Count("suspend_resume", 1)
				wantPersisted := written + ((upto-written)/cs)*cs
				if err != nil || int(got) != wantPersisted {
					e.fail("gridfs:suspend", fmt.Sprintf("Suspend returned %d err=%v after %d bytes were written on top of %d persisted ones with chunk size %d (expected %d persisted)", got, err, upto-written, written, cs, wantPersisted))
					return
				}
				written = wantPersisted
			}
			// before the claim the file is not visible
			var sink bytes.Buffer
			if _, err := e.bucket.DownloadToStream(ctx, id, &sink); !errors.Is(err, lungo.ErrFileNotFound) {
				e.fail("gridfs:visible-before-claim", fmt.Sprintf("a tracked upload is downloadable before ClaimUpload (err=%v)", err))
				return
			}
			if err := e.bucket.ClaimUpload(ctx, id); err != nil {
				e.fail("gridfs:claim", "ClaimUpload failed: "+err.Error())
				return
			}
			c.Count("uploads_completed", 1)
			if m := e.markers(); m != 0 {
				e.fail("gridfs:leftover-marker", fmt.Sprintf("%d markers left after ClaimUpload", m))
				return
			}
			if !e.census(id, content) || !e.downloadWhole(id, name, content) || !e.script(r, id, content, steps) {
				return
			}
			if lifeNames[lifecycle] == "tracked-delete-cleanup" {
				c.Count("deletes", 1)
				c.Count("cleanups", 1)
				if err := e.bucket.Delete(ctx, id); err != nil {
					e.fail("gridfs:delete", "tracked Delete failed: "+err.Error())
					return
				}
				if err := e.bucket.Cleanup(ctx, 3600e9); err != nil {
					e.fail("gridfs:cleanup", "Cleanup failed: "+err.Error())
					return
				}
				if !e.census(id, nil) {
					return
				}
				if m := e.markers(); m != 0 {
					e.fail("gridfs:leftover-marker", fmt.Sprintf("%d markers left after Delete + Cleanup", m))
				}
			}
		}
	})
}

// iotestOneByte reads one byte at a time.
type iotestOneByte struct{ r io.Reader }

func (o iotestOneByte) Read(p []byte) (int, error) {
	if len(p) == 0 {
		return 0, nil
	}
	return o.r.Read(p[:1])
}
