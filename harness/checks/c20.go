package checks

import (
	"context"
	"fmt"
	"math"
	"strings"
	"time"

	"github.com/256dpi/lungo"
	"github.com/256dpi/lungo/bsonkit"
	"github.com/256dpi/lungo/mongokit"
	"go.mongodb.org/mongo-driver/bson"
	"go.mongodb.org/mongo-driver/mongo"
	"go.mongodb.org/mongo-driver/mongo/options"

	"verifharness/drv"
	"verifharness/fw"
	"verifharness/gen"
)

// C20 — well-formed input never panics the library.

func init() {
	fw.Register(&fw.Check{
		ID: "C20",
		Rule: "seeded hostile inputs (operator arguments of the wrong type, empty keys, odd paths such as \"\", \".\", \"a..b\", \"$\", \"$[\", \"a.$[x\", huge indexes, MinInt64/MaxInt64 as $slice/$position/skip/limit/bit operands, non-finite doubles and decimals, document-, binary- and NaN-valued _id, nesting up to 64, arrays up to 2000 elements; unsupported BSON types are not generated) " +
			"against bsonkit (Compare, Get/All/Put/Unset/Increment/Multiply/Push/Pop, Sort, Pick/Collect, Clone, Schema.Evaluate), mongokit (Match, Apply, Project, Sort, Extract, Distinct, Collection methods, index Add/Remove) and every driver call; " +
			"each call runs in a worker process that logs the input first; a recovered panic, a fatal runtime error (worker death), a call exceeding 60 s, or a failing probe write / occupied writer slot afterwards is a violation; documented 'lungo: ...' panics for unsupported options and nil arguments are never provoked; " +
			"non-trivial = the call returned an error or a result for an input containing at least one hostile element; distinct = hash of the rendered input",
		Assumptions: []string{"inputs handed to bsonkit/mongokit directly are normalised by bsonkit.Transform first, as their documentation requires", "the 60 s per-call limit is the only wall-clock verdict (calls normally take microseconds)"},
		Batches:     func(tier string) int { return 16 },
		Require: func(tier string) map[string]int64 {
			return map[string]int64{"calls_bsonkit": 10000, "calls_mongokit": 10000, "calls_driver": 10000, "grid_calls": 20000, "errors_returned": 5000, "probes": 300, "probes_after_excluded_panics": 100, "doc_or_binary_id_writes": 200}
		},
		WorkerTimeoutSec: func(tier string) int {
			if tier == "thorough" {
				return 3000
			}
			return 900
		},
		Run: runC20,
	})
}

func norm(d bson.D) (bsonkit.Doc, bool) {
	out, err := bsonkit.Transform(d)
	if err != nil {
		return nil, false
	}
	return out, true
}

func normList(ds []bson.D) (bsonkit.List, bool) {
	var l bsonkit.List
	for _, d := range ds {
		n, ok := norm(d)
		if !ok {
			return nil, false
		}
		l = append(l, n)
	}
	return l, true
}

func normValue(v interface{}) (interface{}, bool) {
	d, ok := norm(bson.D{{Key: "v", Value: v}})
	if !ok {
		return nil, false
	}
	return (*d)[0].Value, true
}

func c20Key(p fw.PanicInfo) string {
	if f := fw.TopLungoFrame(p.Stack); f != "" {
		return "panic:" + f
	}
	return "panic"
}

func runC20(c *fw.Ctx) {
	drv.CatchPanics = false
	begin, end := c.HangWatch(60*time.Second, "hang")
	n := c.N(96000, 4800000) / c.NBatches
	var client lungo.IClient
	var engine *lungo.Engine
	open := func() bool {
		var err error
		client, engine, err = openMemEngine()
		if err != nil {
			c.Inconclusive("open engine: " + err.Error())
			return false
		}
		return true
	}
	if !open() {
		return
	}
	defer func() { engine.Close() }()
	ctx := context.Background()
	// the panics the property excludes from its verdict (nil arguments) are
	// provoked inside the callback of an auto-transaction write: whether the
	// call panics or returns an error is not judged, but the engine must serve
	// the next call (mechanism: deferred Abort after a panic in a callback)
	for k := 0; k < 12; k++ {
		idx := 9500000 + c.Batch*12 + k
		if c.Skip(idx) {
			continue
		}
		var models []mongo.WriteModel
		ok := mongo.NewInsertOneModel().SetDocument(bson.D{{Key: "z", Value: int32(k)}})
		switch k % 6 {
		case 0:
			models = []mongo.WriteModel{ok, mongo.NewUpdateOneModel().SetUpdate(bson.D{{Key: "$set", Value: bson.D{{Key: "a", Value: int32(1)}}}})}
		case 1:
			models = []mongo.WriteModel{mongo.NewUpdateManyModel().SetFilter(bson.D{})}
		case 2:
			models = []mongo.WriteModel{ok, mongo.NewInsertOneModel()}
		case 3:
			models = []mongo.WriteModel{mongo.NewReplaceOneModel().SetFilter(bson.D{})}
		case 4:
			models = []mongo.WriteModel{ok, mongo.NewDeleteOneModel()}
		default:
			models = []mongo.WriteModel{ok, nil}
		}
		detail := func() string {
			return fmt.Sprintf("BulkWrite with a nil argument in a write model (variant %d, ordered=%v)", k%6, k < 6)
		}
		c.Case(idx, func() interface{} { return detail() }, c20Key, func() {
			c.Eval(1)
			begin(detail)
			defer end()
			func() {
				defer func() {
					if p := recover(); p != nil {
						c.Count("excluded_panics_recovered", 1)
					}
				}()
				client.Database("c20").Collection("nilargs").BulkWrite(ctx, models, options.BulkWrite().SetOrdered(k < 6))
			}()
			c.Count("probes_after_excluded_panics", 1)
			c20Probe(c, ctx, client, engine, detail)
		})
		if c.Violations() > 0 {
			engine.Close()
			if !open() {
				return
			}
		}
	}
	c20Grid(c, begin, end)
	if c.Violations() >= 40 {
		return
	}
	for q := 0; q < n; q++ {
		idx := c.Batch*n + q
		if c.Skip(idx) {
			continue
		}
		r := c.Rand(idx)
		var detail func() string
		var run func() (string, bool) // returns a short outcome and whether the engine must be probed
		switch idx % 3 {
		case 0:
			detail, run = c20Bsonkit(c, r)
		case 1:
			detail, run = c20Mongokit(c, r)
		default:
			detail, run = c20Driver(c, r, ctx, &client, idx)
		}
		if run == nil {
			continue
		}
		if q%64 == 0 || idx%3 == 2 {
			c.SetProgressDetail(detail())
		}
		c.Case(idx, func() interface{} { return detail() }, c20Key, func() {
			c.Eval(1)
			begin(detail)
			defer end()
			outcome, probe := run()
			if outcome != "" {
				c.Nontrivial(fw.Hash64([]byte(detail())))
				if c.WantSample() && idx%7 == 0 {
					c.Sample(map[string]interface{}{"input": detail(), "outcome": outcome})
				}
			}
			if probe {
				c20Probe(c, ctx, client, engine, detail)
			} else if idx%3 == 2 {
				// (cheap look at the slot after every driver call: a leaked slot
				// would make every later write wait out the acquisition timeout)
				if free, active, alive, _ := engine.VerifState(); alive && (free != 1 || active) {
					c.Violate("engine-unusable", fmt.Sprintf("after the call the writer slot is not free (free=%d txn=%v)", free, active), map[string]interface{}{"input": detail()})
				}
			}
		})
		// a panic may have left the engine in an unknown state: probe, and start
		// a fresh engine if it is broken (reported once by the probe)
		if c.Violations() > 0 && idx%3 == 2 {
			ok := false
			func() {
				defer func() { recover() }()
				ok = c20Probe(c, ctx, client, engine, detail)
			}()
			if !ok {
				engine.Close()
				if !open() {
					return
				}
			}
		}
		if c.Violations() >= 40 {
			return
		}
	}
}

// c20Probe: the engine serves the next call and the writer slot is free.
func c20Probe(c *fw.Ctx, ctx context.Context, client lungo.IClient, engine *lungo.Engine, detail func() string) bool {
	c.Count("probes", 1)
	coll := client.Database("probe").Collection("p")
	// (look at the slot first: a write on a leaked slot would wait out the
	// one minute acquisition timeout)
	if free, active, alive, _ := engine.VerifState(); free != 1 || active || !alive {
		c.Violate("engine-unusable", fmt.Sprintf("after the call the writer slot is not free (free=%d txn=%v alive=%v)", free, active, alive), map[string]interface{}{"input": detail()})
		return false
	}
	_, err := coll.InsertOne(ctx, bson.D{{Key: "_id", Value: int32(1)}})
	if err != nil {
		c.Violate("engine-unusable", "after the call a probe insert fails: "+err.Error(), map[string]interface{}{"input": detail()})
		return false
	}
	if _, err := coll.DeleteOne(ctx, bson.D{{Key: "_id", Value: int32(1)}}); err != nil {
		c.Violate("engine-unusable", "after the call a probe delete fails: "+err.Error(), map[string]interface{}{"input": detail()})
		return false
	}
	free, active, alive, _ := engine.VerifState()
	if free != 1 || active || !alive {
		c.Violate("engine-unusable", fmt.Sprintf("after the call the writer slot is not free (free=%d txn=%v alive=%v)", free, active, alive), map[string]interface{}{"input": detail()})
		return false
	}
	return true
}

func outcomeOf(err error) string {
	if err != nil {
		return "error: " + err.Error()
	}
	return "ok"
}

func c20Paths(docs []bson.D) []string {
	var out []string
	for _, d := range docs {
		out = append(out, gen.PathsOf(d)...)
	}
	return out
}

func c20Bsonkit(c *fw.Ctx, r *fw.Rand) (func() string, func() (string, bool)) {
	d := gen.HostileDoc(r, r.Intn(5))
	d2 := gen.HostileDoc(r, r.Intn(5))
	v := gen.HostileValue(r, 0)
	paths := c20Paths([]bson.D{d, d2})
	path := gen.HostilePaths[r.Intn(len(gen.HostilePaths))]
	if len(paths) > 0 && r.Bool() {
		path = fw.Pick(r, paths)
		if r.Chance(1, 3) {
			path += "." + fw.Pick(r, []string{"0", "-1", "x", "", "5", "99999999999999999999"})
		}
	}
	which := r.Intn(14)
	names := []string{"Compare", "Get", "All", "Put", "Unset", "Increment", "Multiply", "Push", "Pop", "Sort", "Pick/Collect", "Clone", "Schema.Evaluate", "Add/Mul/Mod"}
	detail := func() string {
		return fmt.Sprintf("bsonkit.%s doc=%s doc2=%s value=%s path=%q", names[which], gen.JSON(d), gen.JSON(d2), gen.JSON(v), path)
	}
	run := func() (string, bool) {
		c.Count("calls_bsonkit", 1)
		nd, ok1 := norm(d)
		nd2, ok2 := norm(d2)
		nv, ok3 := normValue(v)
		if !ok1 || !ok2 || !ok3 {
			return "", false
		}
		var err error
		switch which {
		case 0:
			bsonkit.Compare(*nd, *nd2)
			bsonkit.Compare(nv, *nd)
			bsonkit.Compare(nv, nv)
			for _, e := range *nd {
				for _, f := range *nd2 {
					bsonkit.Compare(e.Value, f.Value)
				}
			}
		case 1:
			bsonkit.Get(nd, path)
		case 2:
			bsonkit.All(nd, path, r.Bool(), r.Bool())
		case 3:
			_, err = bsonkit.Put(nd, path, nv, r.Bool())
		case 4:
			bsonkit.Unset(nd, path)
		case 5:
			_, err = bsonkit.Increment(nd, path, nv)
		case 6:
			_, err = bsonkit.Multiply(nd, path, nv)
		case 7:
			_, err = bsonkit.Push(nd, path, nv)
		case 8:
			_, err = bsonkit.Pop(nd, path, r.Bool())
		case 9:
			l := bsonkit.List{nd, nd2, bsonkit.Clone(nd)}
			bsonkit.Sort(l, []bsonkit.Column{{Path: path, Reverse: r.Bool()}, {Path: "a", Reverse: r.Bool()}})
		case 10:
			l := bsonkit.List{nd, nd2}
			bsonkit.Pick(l, path, r.Bool())
			bsonkit.Collect(l, path, r.Bool(), r.Bool(), r.Bool(), r.Bool())
		case 11:
			bsonkit.Clone(nd)
			bsonkit.CloneValue(nv)
		case 12:
			if sd, ok := nv.(bson.D); ok {
				err = bsonkit.NewSchema(sd).Evaluate(*nd)
			} else {
				err = bsonkit.NewSchema(*nd2).Evaluate(*nd)
			}
		default:
			for _, e := range *nd {
				bsonkit.Add(e.Value, nv)
				bsonkit.Mul(e.Value, nv)
				bsonkit.Mod(e.Value, nv)
			}
		}
		if err != nil {
			c.Count("errors_returned", 1)
		}
		return outcomeOf(err), false
	}
	return detail, run
}

func c20Mongokit(c *fw.Ctx, r *fw.Rand) (func() string, func() (string, bool)) {
	docs := []bson.D{gen.HostileDoc(r, r.Intn(5)), gen.HostileDoc(r, r.Intn(5)), gen.Doc(r, gen.DefaultOpts(gen.Boundary), true)}
	paths := c20Paths(docs)
	filter := gen.HostileFilter(r, paths, 0)
	update, afs := gen.HostileUpdate(r, paths)
	proj := gen.HostileProjection(r, paths)
	sortDoc := gen.HostileSort(r, paths)
	which := r.Intn(9)
	names := []string{"Match", "Apply", "Project", "Sort", "Extract", "Distinct", "Collection", "Index", "Update(list)"}
	detail := func() string {
		return fmt.Sprintf("mongokit.%s docs=%v filter=%s update=%s arrayFilters=%v projection=%s sort=%s", names[which], jsonList(docs), gen.JSON(filter), gen.JSON(update), jsonList(afs), gen.JSON(proj), gen.JSON(sortDoc))
	}
	run := func() (string, bool) {
		c.Count("calls_mongokit", 1)
		list, ok := normList(docs)
		if !ok {
			return "", false
		}
		nf, ok1 := norm(filter)
		nu, ok2 := norm(update)
		np, ok3 := norm(proj)
		ns, ok4 := norm(sortDoc)
		nafs, ok5 := normList(afs)
		if !ok1 || !ok2 || !ok3 || !ok4 || !ok5 {
			return "", false
		}
		var err error
		switch which {
		case 0:
			for _, d := range list {
				_, err = mongokit.Match(d, nf)
			}
		case 1:
			for _, d := range list {
				_, err = mongokit.Apply(bsonkit.Clone(d), nf, nu, r.Bool(), nafs)
			}
		case 2:
			for _, d := range list {
				_, err = mongokit.Project(d, np)
			}
			mongokit.ProjectList(list, np)
		case 3:
			_, err = mongokit.Sort(list, ns)
		case 4:
			_, err = mongokit.Extract(nf)
		case 5:
			for _, p := range paths {
				mongokit.Distinct(list, p)
			}
			mongokit.Distinct(list, fw.Pick(r, gen.HostilePaths))
		case 6:
			coll := mongokit.NewCollection(true)
			for _, d := range list {
				coll.Insert(bsonkit.Clone(d))
			}
			coll.CreateIndex("", mongokit.IndexConfig{Key: ns, Unique: r.Bool(), Partial: nf})
			_, err = coll.Find(nf, ns, r.Intn(3), r.Intn(3))
			cl := coll.Clone()
			_, e2 := cl.Update(nf, nu, ns, r.Intn(2), r.Intn(3), nafs)
			cl = coll.Clone()
			_, e3 := cl.Replace(nf, bsonkit.Clone(list[0]), ns)
			cl = coll.Clone()
			_, e4 := cl.Upsert(nf, nil, nu, nafs)
			cl = coll.Clone()
			_, e5 := cl.Upsert(nf, bsonkit.Clone(list[1]), nil, nil)
			cl = coll.Clone()
			_, e6 := cl.Delete(nf, ns, r.Intn(2), r.Intn(3))
			for _, e := range []error{e2, e3, e4, e5, e6} {
				if e != nil {
					err = e
				}
			}
		case 7:
			var part bsonkit.Doc
			if r.Bool() {
				part = nf
			}
			if len(*ns) == 0 {
				return "", false
			}
			ix, e := mongokit.CreateIndex(mongokit.IndexConfig{Key: ns, Unique: r.Bool(), Partial: part})
			err = e
			if e == nil {
				for _, d := range list {
					ix.Add(d)
				}
				for _, d := range list {
					ix.Has(d)
				}
				ix.List()
				for _, d := range list {
					ix.Remove(d)
				}
			}
		default:
			_, err = mongokit.Update(bsonkit.CloneList(list), nf, nu, r.Bool(), nafs)
			_, e2 := mongokit.Filter(list, nf, r.Intn(3))
			if e2 != nil {
				err = e2
			}
		}
		if err != nil {
			c.Count("errors_returned", 1)
		}
		return outcomeOf(err), false
	}
	return detail, run
}

var c20Limits = []int64{0, 1, 2, -1, math.MaxInt64, math.MinInt64, math.MaxInt32, 1 << 40}

func c20Driver(c *fw.Ctx, r *fw.Rand, ctx context.Context, client *lungo.IClient, idx int) (func() string, func() (string, bool)) {
	idKind := r.Intn(5)
	docs := []bson.D{gen.HostileDoc(r, idKind), gen.HostileDoc(r, r.Intn(5)), gen.HostileDoc(r, 1)}
	paths := c20Paths(docs)
	filter := gen.HostileFilter(r, paths, 0)
	if r.Chance(1, 4) {
		filter = bson.D{}
	}
	if r.Chance(1, 5) && len(docs[0]) > 0 && docs[0][0].Key == "_id" {
		filter = bson.D{{Key: "_id", Value: gen.CloneValue(docs[0][0].Value)}}
	}
	update, afs := gen.HostileUpdate(r, paths)
	if r.Chance(1, 3) {
		// a well-formed update on an oddly identified document
		update, afs = bson.D{{Key: "$set", Value: bson.D{{Key: "zz", Value: int32(idx)}}}}, nil
	}
	proj := gen.HostileProjection(r, paths)
	sortDoc := gen.HostileSort(r, paths)
	skip, limit := fw.Pick(r, c20Limits), fw.Pick(r, c20Limits)
	which := r.Intn(16)
	names := []string{"Find", "FindOne", "CountDocuments", "Distinct", "UpdateOne", "UpdateMany", "ReplaceOne", "DeleteOne", "DeleteMany", "FindOneAndUpdate", "FindOneAndReplace", "FindOneAndDelete", "BulkWrite", "InsertMany", "CreateIndex", "UpdateByID"}
	detail := func() string {
		return fmt.Sprintf("driver.%s docs=%v filter=%s update=%s arrayFilters=%v projection=%s sort=%s skip=%d limit=%d", names[which], jsonList(docs), gen.JSON(filter), gen.JSON(update), jsonList(afs), gen.JSON(proj), gen.JSON(sortDoc), skip, limit)
	}
	run := func() (string, bool) {
		c.Count("calls_driver", 1)
		coll := (*client).Database("h").Collection(fmt.Sprintf("c%d", idx%4))
		coll.DeleteMany(ctx, bson.D{})
		ins := make([]interface{}, len(docs))
		for i, d := range docs {
			ins[i] = d
		}
		_, ierr := coll.InsertMany(ctx, ins, options.InsertMany().SetOrdered(false))
		if idKind >= 2 && ierr == nil {
			c.Count("doc_or_binary_id_writes", 1)
		}
		var err error
		var afOpt []interface{}
		for _, f := range afs {
			afOpt = append(afOpt, f)
		}
		uo := options.Update().SetUpsert(r.Chance(1, 4))
		if afs != nil {
			uo.SetArrayFilters(options.ArrayFilters{Filters: afOpt})
		}
		repl := gen.HostileDoc(r, r.Intn(3))
		switch which {
		case 0:
			fo := options.Find().SetSkip(skip).SetLimit(limit)
			if len(sortDoc) > 0 {
				fo.SetSort(sortDoc)
			}
			if r.Bool() {
				fo.SetProjection(proj)
			}
			cur, e := coll.Find(ctx, filter, fo)
			err = e
			if e == nil {
				var out []bson.D
				err = cur.All(ctx, &out)
			}
		case 1:
			fo := options.FindOne().SetSkip(skip).SetProjection(proj)
			if len(sortDoc) > 0 {
				fo.SetSort(sortDoc)
			}
			var out bson.D
			err = coll.FindOne(ctx, filter, fo).Decode(&out)
		case 2:
			_, err = coll.CountDocuments(ctx, filter, options.Count().SetSkip(skip).SetLimit(limit))
		case 3:
			p := fw.Pick(r, gen.HostilePaths)
			if len(paths) > 0 && r.Bool() {
				p = fw.Pick(r, paths)
			}
			if p == "" {
				p = "a" // an empty field path is a documented panic ("lungo: missing field path")
			}
			_, err = coll.Distinct(ctx, p, filter)
		case 4:
			_, err = coll.UpdateOne(ctx, filter, update, uo)
		case 5:
			_, err = coll.UpdateMany(ctx, filter, update, uo)
		case 6:
			_, err = coll.ReplaceOne(ctx, filter, repl, options.Replace().SetUpsert(r.Chance(1, 4)))
		case 7:
			_, err = coll.DeleteOne(ctx, filter)
		case 8:
			_, err = coll.DeleteMany(ctx, filter)
		case 9:
			o := options.FindOneAndUpdate().SetProjection(proj).SetUpsert(r.Chance(1, 4))
			if len(sortDoc) > 0 {
				o.SetSort(sortDoc)
			}
			if afs != nil {
				o.SetArrayFilters(options.ArrayFilters{Filters: afOpt})
			}
			if r.Bool() {
				o.SetReturnDocument(options.After)
			}
			var out bson.D
			err = coll.FindOneAndUpdate(ctx, filter, update, o).Decode(&out)
		case 10:
			o := options.FindOneAndReplace().SetProjection(proj).SetUpsert(r.Chance(1, 4))
			if len(sortDoc) > 0 {
				o.SetSort(sortDoc)
			}
			var out bson.D
			err = coll.FindOneAndReplace(ctx, filter, repl, o).Decode(&out)
		case 11:
			o := options.FindOneAndDelete().SetProjection(proj)
			if len(sortDoc) > 0 {
				o.SetSort(sortDoc)
			}
			var out bson.D
			err = coll.FindOneAndDelete(ctx, filter, o).Decode(&out)
		case 12:
			op := drv.Op{Kind: drv.BulkWrite, DB: "h", Coll: fmt.Sprintf("c%d", idx%4), Ordered: r.Bool(), Models: []drv.Op{
				{Kind: drv.UpdateMany, Filter: filter, Update: update, ArrayFilters: afs, Upsert: r.Bool()},
				{Kind: drv.InsertOne, Docs: []bson.D{repl}},
				{Kind: drv.ReplaceOne, Filter: filter, Update: repl, Upsert: r.Bool()},
				{Kind: drv.DeleteOne, Filter: filter},
			}}
			res := drv.Exec(ctx, *client, &op)
			if res.Err != "" {
				err = fmt.Errorf("%s", res.Err)
			}
		case 13:
			_, err = coll.InsertMany(ctx, []interface{}{repl, gen.HostileDoc(r, r.Intn(5)), docs[0]}, options.InsertMany().SetOrdered(r.Bool()))
		case 14:
			if len(sortDoc) == 0 {
				return "", false
			}
			io := options.Index().SetUnique(r.Bool())
			if r.Bool() {
				io.SetPartialFilterExpression(filter)
			}
			if r.Chance(1, 4) {
				io.SetExpireAfterSeconds(int32(r.Intn(3)) - 1)
			}
			ci := drv.Op{Kind: drv.CreateIndex, DB: "h", Coll: fmt.Sprintf("c%d", idx%4)}
			_ = ci
			_, err = coll.Indexes().CreateOne(ctx, mongoIndexModel(sortDoc, io))
			coll.InsertOne(ctx, repl)
			coll.UpdateMany(ctx, bson.D{}, bson.D{{Key: "$set", Value: bson.D{{Key: "a", Value: int32(1)}}}})
			coll.Indexes().DropAll(ctx)
		default:
			var id interface{} = int32(1)
			if len(docs[0]) > 0 && docs[0][0].Key == "_id" {
				id = docs[0][0].Value
			}
			_, err = coll.UpdateByID(ctx, id, update, uo)
		}
		if err != nil {
			c.Count("errors_returned", 1)
			if strings.HasPrefix(err.Error(), "panic") {
				c.Count("panic_like_errors", 1)
			}
		}
		return outcomeOf(err), idx%96 == 2
	}
	return detail, run
}

func mongoIndexModel(keys bson.D, o *options.IndexOptions) mongo.IndexModel {
	return mongo.IndexModel{Keys: keys, Options: o}
}
