package checks

import (
	"context"
	"fmt"
	"time"

	"github.com/256dpi/lungo"
	"go.mongodb.org/mongo-driver/bson"
	"go.mongodb.org/mongo-driver/bson/primitive"
	"go.mongodb.org/mongo-driver/mongo"
	"go.mongodb.org/mongo-driver/mongo/options"

	"verifharness/fw"
)

// c03FailedCallThenCommit is a directed family: inside a session transaction
// 1-3 writes succeed, then a FindOneAndUpdate / FindOneAndReplace /
// FindOneAndDelete fails late (its projection names an unknown operator that
// lungo only meets on the matched document, i.e. after the write was applied
// to the working state and taken back), optionally further writes follow, and
// the transaction commits. The committed state seen by another client must be
// exactly the working state the transaction had before the commit (which must
// contain the earlier writes and nothing of the failed call); the same with
// an abort instead of the commit must leave the committed state untouched.
func c03FailedCallThenCommit(c *fw.Ctx) {
	n := c.N(96, 480)
	for q := 0; q < n; q++ {
		if q%c.NBatches != c.Batch {
			continue
		}
		idx := 8700000 + q
		if c.Skip(idx) {
			continue
		}
		r := c.Rand(idx)
		var w *world
		describe := func() interface{} {
			if w == nil {
				return nil
			}
			return map[string]interface{}{"history": w.history()}
		}
		c.Case(idx, describe, nil, func() {
			c.Eval(1)
			var err error
			w, err = openWorld("")
			if err != nil {
				c.Inconclusive("open engine: " + err.Error())
				return
			}
			defer w.close()
			bg := context.Background()
			acc := w.client.Database("d").Collection("acc")
			jrn := w.client.Database("d").Collection("jrn")
			for i := 1; i <= 3; i++ {
				acc.InsertOne(bg, bson.D{{Key: "_id", Value: int32(i)}, {Key: "n", Value: int32(0)}, {Key: "a", Value: bson.A{bson.D{{Key: "x", Value: int32(i)}}, bson.D{{Key: "x", Value: int32(i + 1)}}}}})
			}
			jrn.InsertOne(bg, bson.D{{Key: "_id", Value: "seed"}})
			witness := func() interface{} { return map[string]interface{}{"history": w.history()} }
			committed := exactDump(w.engine.Catalog())
			if err := w.begin(); err != nil {
				c.Violate("txn:begin", "StartTransaction failed: "+err.Error(), witness())
				return
			}
			write := func(tag string, k int) bool {
				var err error
				switch r.Intn(4) {
				case 0:
					_, err = jrn.InsertOne(w.ctx(), bson.D{{Key: "_id", Value: fmt.Sprintf("%s-%d", tag, k)}})
					w.note(fmt.Sprintf("insert jrn %s-%d => %v", tag, k, err))
				case 1:
					_, err = acc.UpdateOne(w.ctx(), bson.D{{Key: "_id", Value: int32(1 + r.Intn(3))}}, bson.D{{Key: "$inc", Value: bson.D{{Key: "n", Value: int32(1 + k)}}}})
					w.note(fmt.Sprintf("inc acc => %v", err))
				case 2:
					_, err = acc.InsertOne(w.ctx(), bson.D{{Key: "_id", Value: fmt.Sprintf("%s-%d", tag, k)}, {Key: "n", Value: int32(7)}})
					w.note(fmt.Sprintf("insert acc %s-%d => %v", tag, k, err))
				default:
					_, err = w.client.Database("d").Collection("fresh").InsertOne(w.ctx(), bson.D{{Key: "_id", Value: fmt.Sprintf("%s-%d", tag, k)}})
					w.note(fmt.Sprintf("insert fresh %s-%d => %v", tag, k, err))
				}
				if err != nil {
					c.Violate("txn:write-failed", "a plain write inside the transaction failed: "+err.Error(), witness())
					return false
				}
				return true
			}
			before := 1 + r.Intn(3)
			for k := 0; k < before; k++ {
				if !write("before", k) {
					return
				}
			}
			// the late failure
			bad := bson.D{{Key: "a", Value: bson.D{{Key: "$elemMatch", Value: bson.D{{Key: "x", Value: bson.D{{Key: "$isnot", Value: int32(1)}}}}}}}}
			preFail := exactDump(w.cat())
			target := bson.D{{Key: "_id", Value: int32(1 + r.Intn(3))}}
			kind := r.Intn(3)
			var ferr error
			switch kind {
			case 0:
				ferr = acc.FindOneAndUpdate(w.ctx(), target, bson.D{{Key: "$set", Value: bson.D{{Key: "n", Value: int32(99)}}}}, options.FindOneAndUpdate().SetProjection(bad)).Err()
			case 1:
				ferr = acc.FindOneAndReplace(w.ctx(), target, bson.D{{Key: "n", Value: int32(98)}, {Key: "a", Value: bson.A{bson.D{{Key: "x", Value: int32(0)}}}}}, options.FindOneAndReplace().SetProjection(bad)).Err()
			default:
				ferr = acc.FindOneAndDelete(w.ctx(), target, options.FindOneAndDelete().SetProjection(bad)).Err()
			}
			w.note(fmt.Sprintf("findOneAnd%s %v with a projection that fails on the matched document => %v", []string{"Update", "Replace", "Delete"}[kind], target, ferr))
			if ferr == nil {
				c.Count("late_failures_not_failing", 1)
				return // the call is outside what this family judges
			}
			c.Count("late_failures_in_txn", 1)
			if d := preFail.Diff(exactDump(w.cat())); d != "" {
				c.Violate("txn:failed-call-left-trace", "a call that failed inside the transaction changed the transaction's working state: "+d, witness())
				return
			}
			after := r.Intn(3) % 2 // 0 twice as likely
			for k := 0; k < after; k++ {
				if !write("after", k) {
					return
				}
			}
			if d := committed.Diff(exactDump(w.engine.Catalog())); d != "" {
				c.Violate("txn:visible-outside", "the committed state changed while the transaction was open: "+d, witness())
				return
			}
			working := normDump(w.cat())
			if r.Chance(1, 4) {
				w.abort()
				c.Count("late_failure_then_abort", 1)
				if d := committed.Diff(exactDump(w.engine.Catalog())); d != "" {
					c.Violate("txn:abort-left-trace", "after the abort the committed state differs from the one before the transaction: "+d, witness())
				}
				return
			}
			if err := w.commit(); err != nil {
				c.Violate("txn:commit", "CommitTransaction failed: "+err.Error(), witness())
				return
			}
			c.Count("late_failure_then_commit", 1)
			if after == 0 {
				c.Count("late_failure_last_before_commit", 1)
			}
			if d := working.Diff(normDump(w.engine.Catalog())); d != "" {
				c.Violate("txn:commit-differs", "after a successful commit other clients see something else than the transaction's working state (the transaction had succeeded writes, one late-failing call, then committed): "+d, witness())
				return
			}
		})
	}
}

// c03ExpiryUnderSnapshots: snapshots (catalog, read-only transaction, open
// cursor) are held on a collection with a TTL index; then expiry passes run -
// committed, aborted, and committed against a failing store - and the snapshots
// must keep returning the same bytes; after the aborted and the failed pass the
// committed state must be unchanged as well (the pass is a write like any
// other).
func c03ExpiryUnderSnapshots(c *fw.Ctx) {
	n := c.N(48, 240)
	for q := 0; q < n; q++ {
		if q%c.NBatches != c.Batch {
			continue
		}
		idx := 8800000 + q
		if c.Skip(idx) {
			continue
		}
		r := c.Rand(idx)
		var w *world
		describe := func() interface{} {
			if w == nil {
				return nil
			}
			return map[string]interface{}{"history": w.history()}
		}
		c.Case(idx, describe, nil, func() {
			c.Eval(1)
			store := &failStore{cat: lungo.NewCatalog()}
			var err error
			w, err = openWorldWith("", func(o *lungo.Options) { o.Store = store })
			if err != nil {
				c.Inconclusive("open engine: " + err.Error())
				return
			}
			defer w.close()
			bg := context.Background()
			witness := func() interface{} { return map[string]interface{}{"history": w.history()} }
			ncoll := 1 + r.Intn(3)
			now := time.Now()
			for ci := 0; ci < ncoll; ci++ {
				coll := w.client.Database("d").Collection(fmt.Sprintf("t%d", ci))
				if _, err := coll.Indexes().CreateOne(bg, mongoIndexTTL("at", int32(3600))); err != nil {
					c.Inconclusive("create TTL index: " + err.Error())
					return
				}
				nd := 2 + r.Intn(6)
				for i := 0; i < nd; i++ {
					// far in the past or far in the future: no dependence on the clock
					at := now.Add(-1000 * time.Hour)
					if r.Bool() {
						at = now.Add(1000 * time.Hour)
					}
					coll.InsertOne(bg, bson.D{{Key: "_id", Value: int32(i)}, {Key: "at", Value: primitive.NewDateTimeFromTime(at)}})
				}
				// at least one expired document per case in the first collection
				if ci == 0 {
					coll.InsertOne(bg, bson.D{{Key: "_id", Value: "old"}, {Key: "at", Value: primitive.NewDateTimeFromTime(now.Add(-2000 * time.Hour))}})
				}
			}
			w.note(fmt.Sprintf("%d TTL collections filled", ncoll))
			// snapshots
			cat := w.engine.Catalog()
			catDump := exactDump(cat)
			ro, err := w.engine.Begin(bg, false)
			if err != nil {
				c.Inconclusive("read-only begin: " + err.Error())
				return
			}
			roDump := exactDump(ro.Catalog())
			t0 := w.client.Database("d").Collection("t0")
			cur, err := t0.Find(bg, bson.D{})
			if err != nil {
				c.Inconclusive("find: " + err.Error())
				return
			}
			var expect []bson.D
			tc, _ := t0.Find(bg, bson.D{})
			tc.All(bg, &expect)
			held := func(after string) bool {
				c.Count("expiry_snapshot_rechecks", 1)
				if d := catDump.Diff(exactDump(cat)); d != "" {
					c.Violate("snapshot:catalog-changed", "a catalog obtained before "+after+" has other bytes afterwards: "+d, witness())
					return false
				}
				if d := roDump.Diff(exactDump(ro.Catalog())); d != "" {
					c.Violate("snapshot:readonly-transaction-changed", "a read-only transaction begun before "+after+" sees other bytes afterwards: "+d, witness())
					return false
				}
				return true
			}
			pass := func(mode string) bool {
				txn, err := w.engine.Begin(bg, true)
				if err != nil {
					c.Violate("txn:begin", "Begin failed: "+err.Error(), witness())
					return false
				}
				pre := exactDump(w.engine.Catalog())
				if err := txn.Expire(); err != nil {
					w.engine.Abort(txn)
					c.Inconclusive("expiry pass failed: " + err.Error())
					return false
				}
				w.note("expiry pass, then " + mode)
				switch mode {
				case "abort":
					w.engine.Abort(txn)
				case "failing commit":
					store.failNext()
					err := w.engine.Commit(txn)
					w.engine.Abort(txn)
					if err == nil {
						c.Violate("txn:store-failure-ignored", "the store failed while committing an expiry pass but Commit reported success", witness())
						return false
					}
				default:
					if err := w.engine.Commit(txn); err != nil {
						c.Violate("txn:commit", "committing an expiry pass failed: "+err.Error(), witness())
						return false
					}
					c.Count("expiry_passes_committed_under_snapshots", 1)
					return held("a committed expiry pass")
				}
				c.Count("expiry_passes_undone_under_snapshots", 1)
				if d := pre.Diff(exactDump(w.engine.Catalog())); d != "" {
					c.Violate("txn:visible-outside", "after an expiry pass that ended in "+mode+" the committed state changed: "+d, witness())
					return false
				}
				return held("an expiry pass that ended in " + mode)
			}
			modes := [][]string{{"abort", "commit"}, {"failing commit", "commit"}, {"commit"}, {"abort", "failing commit", "commit"}}[r.Intn(4)]
			for _, m := range modes {
				if !pass(m) {
					return
				}
			}
			// the expired document is gone now, the cursor opened before still returns it
			if cnt, _ := t0.CountDocuments(bg, bson.D{{Key: "_id", Value: "old"}}); cnt != 0 {
				c.Count("expiry_did_not_remove", 1)
			} else {
				c.Count("expiry_removed_under_snapshots", 1)
			}
			var got []bson.D
			if err := cur.All(bg, &got); err != nil {
				c.Violate("snapshot:cursor-error", "consuming a held cursor failed: "+err.Error(), witness())
				return
			}
			same := len(got) == len(expect)
			for i := 0; same && i < len(got); i++ {
				same = fmt.Sprint(got[i]) == fmt.Sprint(expect[i])
			}
			if !same {
				c.Violate("snapshot:cursor-changed", "a cursor opened before the expiry passes returns other documents than at the time it was opened", map[string]interface{}{"history": w.history(), "expected": jsonList(expect), "got": jsonList(got)})
			}
		})
	}
}

func mongoIndexTTL(field string, seconds int32) mongo.IndexModel {
	return mongo.IndexModel{Keys: bson.D{{Key: field, Value: int32(1)}}, Options: options.Index().SetExpireAfterSeconds(seconds)}
}
