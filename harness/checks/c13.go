package checks

import (
	"context"
	"fmt"

	"github.com/256dpi/lungo"
	"github.com/256dpi/lungo/bsonkit"
	"go.mongodb.org/mongo-driver/bson"
	"go.mongodb.org/mongo-driver/mongo/options"

	"verifharness/fw"
	"verifharness/gen"
	"verifharness/ref"
)

// C13 — sort, skip, limit, sorted one-document writes and distinct.

func init() {
	fw.Register(&fw.Check{
		ID: "C13",
		Rule: "seeded (collection of 0-12 documents with ties, arrays, missing/null and mixed types; filter; sort of 1-3 keys and directions) cases through the driver; " +
			"each case checks the sorted result against the reference ordering (stable, arrays by min/max element, missing as null), the complete skip x limit square against slices of the full ordering, " +
			"sorted FindOne/FindOneAndDelete/Update/Replace targets and Distinct; non-trivial = at least two matching documents and a tie or an array-valued sort key; distinct = hash of collection+sort+filter",
		Assumptions: []string{"ref.SortDocs / ref.Distinct implement DESIGN.md 8.4", "the matching set is taken from the unsorted Find (filters are C10's business)", "empty arrays in sort fields and fan-out sort paths are outside the asserted domain"},
		Batches:     func(tier string) int { return 16 },
		Require: func(tier string) map[string]int64 {
			return map[string]int64{"sorted_vs_ref": 300, "windows_checked": 20000, "distinct_vs_ref": 300, "sorted_writes_checked": 300, "nontrivial_cases": 100}
		},
		Run: runC13,
	})
}

// c13Engine is the engine behind the collection under test (engine-level calls).
var c13Engine *lungo.Engine

// c13Pool is the value pool of the documents of the current case.
var c13Pool = gen.Core

func c13Doc(r *fw.Rand) bson.D {
	d := bson.D{}
	val := func() interface{} {
		switch r.Intn(10) {
		case 0:
			n := r.Intn(3) + 1
			a := bson.A{}
			for i := 0; i < n; i++ {
				a = append(a, gen.Scalar(r, c13Pool))
			}
			return a
		case 1:
			return bson.D{{Key: "x", Value: gen.Scalar(r, c13Pool)}}
		case 2:
			return nil
		case 3:
			if r.Chance(1, 6) {
				return bson.A{}
			}
			return bson.A{bson.D{{Key: "x", Value: gen.Scalar(r, c13Pool)}}, bson.D{{Key: "x", Value: gen.Scalar(r, c13Pool)}}}
		}
		if r.Bool() {
			return fw.Pick(r, []interface{}{int32(1), int64(1), 1.0, gen.D128("1"), int32(2), 2.0, "a", "b", true})
		}
		return gen.Scalar(r, c13Pool)
	}
	for _, k := range []string{"a", "b", "c"} {
		if r.Chance(4, 5) {
			d = append(d, bson.E{Key: k, Value: val()})
		}
	}
	return d
}

func idsOf(docs []bson.D) []int32 {
	out := make([]int32, 0, len(docs))
	for _, d := range docs {
		id, _ := d[0].Value.(int32)
		out = append(out, id)
	}
	return out
}

func sameIDs(a, b []int32) bool {
	if len(a) != len(b) {
		return false
	}
	for i := range a {
		if a[i] != b[i] {
			return false
		}
	}
	return true
}

func findIDs(ctx context.Context, coll lungo.ICollection, filter bson.D, opts ...*options.FindOptions) ([]int32, error) {
	cur, err := coll.Find(ctx, filter, opts...)
	if err != nil {
		return nil, err
	}
	var docs []bson.D
	if err := cur.All(ctx, &docs); err != nil {
		return nil, err
	}
	return idsOf(docs), nil
}

func runC13(c *fw.Ctx) {
	ncases := c.N(2400, 120000) / c.NBatches
	client, engine, err := openMemEngine()
	if err != nil {
		c.Inconclusive("open engine: " + err.Error())
		return
	}
	defer engine.Close()
	c13Engine = engine
	ctx := context.Background()
	for q := 0; q < ncases; q++ {
		idx := c.Batch*ncases + q
		if c.Skip(idx) {
			continue
		}
		r := c.Rand(idx)
		// one case in eight draws its scalars from the boundary pool (numbers at
		// the exactness borders of the numeric types, non-finite values)
		c13Pool = gen.Core
		if idx%8 == 5 {
			c13Pool = gen.Boundary
		}
		n := r.Intn(13)
		if r.Chance(1, 8) {
			// long lists with many ties (library sorts switch algorithm with the length)
			n = r.Range(13, 60)
		}
		var docs []bson.D
		for i := 0; i < n; i++ {
			docs = append(docs, append(bson.D{{Key: "_id", Value: int32(i)}}, c13Doc(r)...))
		}
		nk := r.Intn(3) + 1
		sortDoc := bson.D{}
		var cols []ref.SortCol
		usedK := map[string]bool{}
		for i := 0; i < nk; i++ {
			k := fw.Pick(r, []string{"a", "b", "c", "a", "b", "c.x", "a.x", "zz", "_id"})
			if usedK[k] {
				continue
			}
			usedK[k] = true
			dir := 1
			if r.Bool() {
				dir = -1
			}
			var dv interface{} = int32(dir)
			switch r.Intn(4) {
			case 0:
				dv = int64(dir)
			case 1:
				dv = float64(dir)
			}
			sortDoc = append(sortDoc, bson.E{Key: k, Value: dv})
			cols = append(cols, ref.SortCol{Path: k, Dir: dir})
		}
		filter := bson.D{}
		if r.Chance(1, 2) && n > 0 {
			g := gen.NewFilterGen(r, gen.FilterOpts{Pool: gen.Core, MaxDepth: 2, NoSchema: true}, docs...)
			filter = g.Filter(1)
		}
		dfield := fw.Pick(r, []string{"a", "b", "c", "c.x", "a.x", "zz"})
		describe := func() interface{} {
			return map[string]interface{}{"docs": jsonList(docs), "sort": gen.JSON(sortDoc), "filter": gen.JSON(filter), "distinct_field": dfield}
		}
		c.Case(idx, describe, nil, func() {
			c.Eval(1)
			coll := client.Database("c13").Collection(fmt.Sprintf("c%d", idx))
			defer coll.Drop(ctx)
			c13Case(c, ctx, coll, docs, sortDoc, cols, filter, dfield, r, describe)
		})
	}
}

func c13Case(c *fw.Ctx, ctx context.Context, coll lungo.ICollection, docs []bson.D, sortDoc bson.D, cols []ref.SortCol, filter bson.D, dfield string, r *fw.Rand, describe func() interface{}) {
	if len(docs) > 0 {
		var ins []interface{}
		for _, d := range docs {
			ins = append(ins, d)
		}
		if _, err := coll.InsertMany(ctx, ins); err != nil {
			c.Violate("sort:insert", "InsertMany failed: "+err.Error(), describe())
			return
		}
	}
	base, err := findIDs(ctx, coll, filter)
	if err != nil {
		c.Count("filter_errors", 1)
		return
	}
	// natural order must be insertion order
	for i := 1; i < len(base); i++ {
		if base[i] <= base[i-1] {
			c.Violate("sort:natural-order", "unsorted Find does not return insertion order", describe())
			return
		}
	}
	sorted, err := findIDs(ctx, coll, filter, options.Find().SetSort(sortDoc))
	if err != nil {
		c.Violate("sort:error", "sorted Find failed although the unsorted one succeeded: "+err.Error(), describe())
		return
	}
	w := func(extra map[string]interface{}) interface{} {
		m := describe().(map[string]interface{})
		for k, v := range extra {
			m[k] = v
		}
		return m
	}
	// permutation
	seen := map[int32]int{}
	for _, id := range base {
		seen[id]++
	}
	for _, id := range sorted {
		seen[id]--
	}
	perm := len(base) == len(sorted)
	for _, v := range seen {
		if v != 0 {
			perm = false
		}
	}
	if !perm {
		c.Violate("sort:not-a-permutation", "sorted Find is not a permutation of the matching documents", w(map[string]interface{}{"matching": base, "sorted": sorted}))
		return
	}
	// reference order
	var matching []bson.D
	for _, id := range base {
		matching = append(matching, docs[id])
	}
	order, ood := ref.SortDocs(matching, cols)
	nontrivial := false
	if !ood {
		want := make([]int32, len(order))
		for i, o := range order {
			want[i] = base[o]
		}
		c.Count("sorted_vs_ref", 1)
		if !sameIDs(sorted, want) {
			c.Violate("sort:vs-ref", "sorted Find order differs from the reference ordering (BSON order per key, arrays by min/max element, missing as null, ties in insertion order)",
				w(map[string]interface{}{"sorted_ids": sorted, "expected_ids": want}))
		}
		// non-triviality: a tie or an array valued key among >=2 documents
		if len(matching) >= 2 {
			for i := 1; i < len(order) && !nontrivial; i++ {
				tie := true
				for _, col := range cols {
					a, _ := ref.SortKey(matching[order[i-1]], col)
					b, _ := ref.SortKey(matching[order[i]], col)
					if ref.Compare(a, b) != 0 {
						tie = false
					}
				}
				if tie {
					nontrivial = true
				}
			}
			for _, d := range matching {
				for _, col := range cols {
					if _, isArr := ref.GetPath(d, col.Path).(bson.A); isArr {
						nontrivial = true
					}
				}
			}
		}
	} else {
		c.Count("sort_out_of_domain", 1)
	}
	if nontrivial {
		c.Count("nontrivial_cases", 1)
		c.Nontrivial(fw.Hash64([]byte(fmt.Sprint(describe()))))
		if c.WantSample() {
			c.Sample(w(map[string]interface{}{"sorted_ids": sorted}))
		}
	}

	// the complete skip x limit square against the full ordering
	n := len(sorted)
	for skip := 0; skip <= n+1; skip++ {
		for limit := 0; limit <= n+1; limit++ {
			got, err := findIDs(ctx, coll, filter, options.Find().SetSort(sortDoc).SetSkip(int64(skip)).SetLimit(int64(limit)))
			c.Count("windows_checked", 1)
			lo := skip
			if lo > n {
				lo = n
			}
			hi := n
			if limit > 0 && lo+limit < n {
				hi = lo + limit
			}
			want := sorted[lo:hi]
			if err != nil || !sameIDs(got, want) {
				c.Violate("sort:window", fmt.Sprintf("Find with skip=%d limit=%d does not return full[%d:%d] of the full ordering (err=%v)", skip, limit, lo, hi, err),
					w(map[string]interface{}{"full": sorted, "window": got}))
				skip, limit = n+2, n+2
			}
		}
	}
	// unsorted windows and counts
	for k := 0; k < 4; k++ {
		skip, limit := r.Intn(len(base)+2), r.Intn(len(base)+2)
		got, err := findIDs(ctx, coll, filter, options.Find().SetSkip(int64(skip)).SetLimit(int64(limit)))
		lo := skip
		if lo > len(base) {
			lo = len(base)
		}
		hi := len(base)
		if limit > 0 && lo+limit < hi {
			hi = lo + limit
		}
		c.Count("windows_checked", 1)
		if err != nil || !sameIDs(got, base[lo:hi]) {
			c.Violate("sort:window-unsorted", fmt.Sprintf("unsorted Find with skip=%d limit=%d is not natural[%d:%d]", skip, limit, lo, hi), w(map[string]interface{}{"natural": base, "window": got}))
		}
		cnt, err := coll.CountDocuments(ctx, filter, options.Count().SetSkip(int64(skip)).SetLimit(int64(limit)))
		if err != nil || int(cnt) != hi-lo {
			c.Violate("sort:count-window", fmt.Sprintf("CountDocuments with skip=%d limit=%d returned %d, expected %d", skip, limit, cnt, hi-lo), describe())
		}
	}
	// FindOne with sort and skip
	for skip := 0; skip <= n; skip++ {
		var got bson.D
		err := coll.FindOne(ctx, filter, options.FindOne().SetSort(sortDoc).SetSkip(int64(skip))).Decode(&got)
		c.Count("sorted_writes_checked", 1)
		if skip == n {
			if err != lungo.ErrNoDocuments {
				c.Violate("sort:findone", "FindOne beyond the end did not return ErrNoDocuments", describe())
			}
			continue
		}
		if err != nil || got[0].Value != sorted[skip] {
			c.Violate("sort:findone", fmt.Sprintf("FindOne with sort and skip=%d returned another document than full[%d]", skip, skip), w(map[string]interface{}{"full": sorted, "got": gen.JSON(got)}))
		}
	}
	if n == 0 {
		goto distinct
	}
	// sorted one-document writes act on the first element of the full ordering
	{
		mark := bson.D{{Key: "$set", Value: bson.D{{Key: "zmark", Value: int32(1)}}}}
		var before bson.D
		err = coll.FindOneAndUpdate(ctx, filter, mark, options.FindOneAndUpdate().SetSort(sortDoc)).Decode(&before)
		c.Count("sorted_writes_checked", 1)
		if err != nil || before[0].Value != sorted[0] {
			c.Violate("sort:findoneandupdate", "FindOneAndUpdate with sort returned another document than the first of the full ordering", w(map[string]interface{}{"full": sorted, "got": gen.JSON(before)}))
		}
		marked, _ := findIDs(ctx, coll, bson.D{{Key: "zmark", Value: int32(1)}})
		if len(marked) != 1 || marked[0] != sorted[0] {
			c.Violate("sort:findoneandupdate-target", "FindOneAndUpdate with sort modified another document than the first of the full ordering", w(map[string]interface{}{"full": sorted, "modified": marked}))
		}
		coll.UpdateMany(ctx, bson.D{}, bson.D{{Key: "$unset", Value: bson.D{{Key: "zmark", Value: ""}}}})

		var repl bson.D
		err = coll.FindOneAndReplace(ctx, filter, bson.D{{Key: "zrepl", Value: int32(1)}}, options.FindOneAndReplace().SetSort(sortDoc)).Decode(&repl)
		c.Count("sorted_writes_checked", 1)
		if err != nil || repl[0].Value != sorted[0] {
			c.Violate("sort:findoneandreplace", "FindOneAndReplace with sort returned another document than the first of the full ordering", w(map[string]interface{}{"full": sorted, "got": gen.JSON(repl)}))
		}
		replaced, _ := findIDs(ctx, coll, bson.D{{Key: "zrepl", Value: int32(1)}})
		if len(replaced) != 1 || replaced[0] != sorted[0] {
			c.Violate("sort:findoneandreplace-target", "FindOneAndReplace with sort replaced another document than the first of the full ordering", w(map[string]interface{}{"full": sorted, "replaced": replaced}))
		}
		// restore the replaced document, then delete through the sort
		coll.ReplaceOne(ctx, bson.D{{Key: "_id", Value: sorted[0]}}, docs[sorted[0]])
		// engine level: sorted one-document operations of Transaction.Bulk (the
		// transaction is discarded afterwards)
		if c13Engine != nil {
			q, e1 := bsonkit.Transform(filter)
			srt, e2 := bsonkit.Transform(sortDoc)
			upd, _ := bsonkit.Transform(bson.D{{Key: "$set", Value: bson.D{{Key: "zbulk", Value: int32(1)}}}})
			if txn, err := c13Engine.Begin(ctx, true); err == nil && e1 == nil && e2 == nil {
				h := lungo.Handle{coll.Database().Name(), coll.Name()}
				res, berr := txn.Bulk(h, []lungo.Operation{
					{Opcode: lungo.Update, Filter: q, Sort: srt, Document: upd, Limit: 1},
					{Opcode: lungo.Delete, Filter: q, Sort: srt, Limit: 1},
				}, true)
				c13Engine.Abort(txn)
				c.Count("sorted_bulk_operations_checked", 1)
				if berr == nil && len(res) == 2 {
					for i, name := range []string{"update", "delete"} {
						if res[i].Error != nil || len(res[i].Matched) != 1 || bsonkit.Get(res[i].Matched[0], "_id") != interface{}(sorted[0]) {
							c.Violate("sort:bulk-"+name, "a sorted one-document "+name+" of Transaction.Bulk acted on another document than the first of the full ordering", w(map[string]interface{}{"full": sorted}))
							break
						}
					}
				}
			}
		}
		var del bson.D
		err = coll.FindOneAndDelete(ctx, filter, options.FindOneAndDelete().SetSort(sortDoc)).Decode(&del)
		c.Count("sorted_writes_checked", 1)
		if err != nil || del[0].Value != sorted[0] {
			c.Violate("sort:findoneanddelete", "FindOneAndDelete with sort returned another document than the first of the full ordering", w(map[string]interface{}{"full": sorted, "got": gen.JSON(del)}))
		}
		left, _ := findIDs(ctx, coll, bson.D{})
		if len(left) != len(docs)-1 {
			c.Violate("sort:findoneanddelete-count", "FindOneAndDelete did not remove exactly one document", describe())
		}
		for _, id := range left {
			if id == sorted[0] {
				c.Violate("sort:findoneanddelete-target", "FindOneAndDelete with sort removed another document than the first of the full ordering", w(map[string]interface{}{"full": sorted, "left": left}))
			}
		}
		// put it back at the end for the distinct check (membership only matters)
		coll.InsertOne(ctx, docs[sorted[0]])
	}
distinct:
	vals, err := coll.Distinct(ctx, dfield, filter)
	if err != nil {
		c.Violate("distinct:error", "Distinct failed: "+err.Error(), describe())
		return
	}
	wantVals, dood := ref.Distinct(matching, dfield)
	for i := 1; i < len(vals); i++ {
		if ref.Compare(vals[i-1], vals[i]) >= 0 {
			c.Violate("distinct:order", "Distinct values are not strictly ascending in BSON order", w(map[string]interface{}{"values": gen.JSON(bson.A(vals))}))
			break
		}
	}
	if !dood {
		c.Count("distinct_vs_ref", 1)
		ok := len(vals) == len(wantVals)
		for i := 0; ok && i < len(vals); i++ {
			if ref.Compare(vals[i], wantVals[i]) != 0 {
				ok = false
			}
		}
		if !ok {
			c.Violate("distinct:vs-ref", "Distinct does not return each value occurring at the path exactly once", w(map[string]interface{}{"values": gen.JSON(bson.A(vals)), "expected": gen.JSON(bson.A(wantVals))}))
		}
	}
}
