package checks

import (
	"bytes"
	"context"
	"fmt"
	"strings"

	"github.com/256dpi/lungo"
	"github.com/256dpi/lungo/bsonkit"
	"github.com/256dpi/lungo/mongokit"
	"go.mongodb.org/mongo-driver/bson"
	"go.mongodb.org/mongo-driver/bson/primitive"
	"go.mongodb.org/mongo-driver/mongo"
	"go.mongodb.org/mongo-driver/mongo/options"

	"verifharness/fw"
	"verifharness/gen"
	"verifharness/ref"
)

// C11 — update operators: reference agreement (EqualModNew), accept/reject
// agreement, idempotence laws, frame law, ModifiedCount, driver differential.

func init() {
	fw.Register(&fw.Check{
		ID: "C11",
		Rule: "seeded (document, update, arrayFilters) triples: 1-3 operators aimed at the shapes really present at the target paths (plus deliberate mismatches), core and boundary numerics incl. overflow edges; " +
			"each is applied by mongokit.Apply on a clone and by UpdateOne through the driver and judged against ref.Apply (EqualModNew), the frame law, idempotence and ModifiedCount; " +
			"non-trivial = the update was accepted and changed the document; distinct = hash of document+update",
		Assumptions: []string{"ref.Apply implements DESIGN.md 8.3 (MongoDB update semantics incl. numeric promotion) and is trusted inside its domain", "the order among fields newly created by one update is not asserted"},
		Batches:     func(tier string) int { return 16 },
		Require: func(tier string) map[string]int64 {
			return map[string]int64{"ref_asserted": 2000, "accepted_and_changed": 1000, "rejected_by_both": 100, "idempotence_checked": 300, "driver_compared": 500, "second_applications_through_the_driver": 200, "bulk_neighbours_without_filters": 20}
		},
		Run: runC11,
	})
}

func toList(fs []bson.D) bsonkit.List {
	var l bsonkit.List
	for _, f := range fs {
		c := gen.CloneDoc(f)
		l = append(l, &c)
	}
	return l
}

func lungoApply(d bson.D, u gen.Update, upsert bool) (bson.D, *mongokit.Changes, error, string) {
	dc := gen.CloneDoc(d)
	uc := gen.CloneDoc(u.Doc)
	fl := toList(u.ArrayFilters)
	ub := gen.Bytes(uc)
	var fb [][]byte
	for _, f := range fl {
		fb = append(fb, gen.Bytes(*f))
	}
	q := bson.D{}
	ch, err := mongokit.Apply(&dc, &q, &uc, upsert, fl)
	mut := ""
	if !bytes.Equal(ub, gen.Bytes(uc)) {
		mut = "update"
	}
	for i, f := range fl {
		if !bytes.Equal(fb[i], gen.Bytes(*f)) {
			mut = "arrayFilters"
		}
	}
	return dc, ch, err, mut
}

// c11Key derives known-finding signatures from the input (document, update).
func c11Key(d bson.D, u gen.Update) string {
	return ""
}

func updatePaths(u bson.D) []string {
	var out []string
	for _, op := range u {
		if args, ok := op.Value.(bson.D); ok {
			for _, f := range args {
				out = append(out, f.Key)
				if op.Key == "$rename" {
					if s, ok := f.Value.(string); ok {
						out = append(out, s)
					}
				}
			}
		}
	}
	return out
}

func runC11(c *fw.Ctx) {
	ncases := c.N(96000, 6400000) / c.NBatches
	client, engine, err := openMemEngine()
	if err != nil {
		c.Inconclusive("open engine: " + err.Error())
		return
	}
	defer engine.Close()
	coll := client.Database("c11").Collection("c")
	ctx := context.Background()
	for q := 0; q < ncases; q++ {
		idx := c.Batch*ncases + q
		if c.Skip(idx) {
			continue
		}
		r := c.Rand(idx)
		pool := gen.Core
		if idx%3 == 2 {
			pool = gen.Boundary
		}
		o := gen.DefaultOpts(pool)
		d := append(bson.D{{Key: "_id", Value: int32(1)}}, gen.Doc(r, o, false)...)
		if idx%3 == 2 && r.Bool() {
			// a numeric field at an overflow boundary
			d = append(d, bson.E{Key: "n", Value: fw.Pick(r, []interface{}{int32(2147483647), int32(-2147483648), int64(9223372036854775807), int64(-9223372036854775808), int64(1) << 62, int32(46341), int64(3037000500), int64(2147483647), 1e308})})
		}
		ug := &gen.UpdateGen{R: r, Pool: pool, Mismatch: 2}
		u := ug.Gen(d)
		upsert := idx%8 == 7
		if idx%16 == 5 {
			// directed: two (or three) identified positional operators whose
			// identifiers are prefixes of one another, each with its own array
			// filter (comparisons, negations, conditions a missing field
			// satisfies), and sometimes a filter for an unused identifier or a
			// missing one (both must be rejected)
			d, u = c11ArrayFilterCase(r)
			upsert = false
		}
		describe := func() interface{} {
			return map[string]interface{}{"doc": gen.JSON(d), "update": gen.JSON(u.Doc), "arrayFilters": jsonList(u.ArrayFilters), "upsert": upsert}
		}
		c.Case(idx, describe, nil, func() {
			c.Eval(1)
			c11Case(c, coll, ctx, d, u, upsert, idx)
		})
	}
}

func c11ArrayFilterCase(r *fw.Rand) (bson.D, gen.Update) {
	num := func() interface{} {
		return fw.Pick(r, []interface{}{int32(1), int32(2), int32(3), int64(2), 2.0, int32(5)})
	}
	arr := func() bson.A {
		a := bson.A{}
		for k := r.Range(1, 4); k > 0; k-- {
			a = append(a, num())
		}
		return a
	}
	sub := func() bson.A {
		a := bson.A{}
		for k := r.Range(1, 3); k > 0; k-- {
			a = append(a, bson.D{{Key: "k", Value: num()}, {Key: "v", Value: num()}})
		}
		return a
	}
	d := bson.D{{Key: "_id", Value: int32(1)}, {Key: "p", Value: arr()}, {Key: "q", Value: arr()}, {Key: "s", Value: sub()}}
	ids := fw.Pick(r, [][]string{{"e", "ex", "exy"}, {"i", "it", "ite"}, {"ab", "a", "abc"}, {"x", "y", "xy"}})
	if r.Bool() {
		ids[0], ids[1] = ids[1], ids[0]
	}
	cond := func() interface{} {
		switch r.Intn(7) {
		case 0:
			return bson.D{{Key: "$ne", Value: num()}}
		case 1:
			return bson.D{{Key: "$gte", Value: num()}}
		case 2:
			return bson.D{{Key: "$lt", Value: num()}}
		case 3:
			return bson.D{{Key: "$nin", Value: bson.A{num(), num()}}}
		case 4:
			return bson.D{{Key: "$not", Value: bson.D{{Key: "$gt", Value: num()}}}}
		case 5:
			return bson.D{{Key: "$in", Value: bson.A{num(), num()}}}
		default:
			return num()
		}
	}
	set := bson.D{{Key: "p.$[" + ids[0] + "]", Value: int32(100)}, {Key: "q.$[" + ids[1] + "]", Value: int32(200)}}
	filters := []bson.D{{{Key: ids[0], Value: cond()}}, {{Key: ids[1], Value: cond()}}}
	if r.Bool() {
		set = append(set, bson.E{Key: "s.$[" + ids[2] + "].v", Value: int32(300)})
		filters = append(filters, bson.D{{Key: ids[2] + ".k", Value: cond()}})
	}
	switch r.Intn(8) {
	case 0:
		filters = filters[1:] // identifier without a filter
	case 1:
		filters = append(filters, bson.D{{Key: ids[0] + "z", Value: cond()}}) // unused filter
	}
	if r.Bool() {
		filters[0], filters[len(filters)-1] = filters[len(filters)-1], filters[0]
	}
	op := fw.Pick(r, []string{"$set", "$inc", "$mul", "$max"})
	return d, gen.Update{Doc: bson.D{{Key: op, Value: set}}, ArrayFilters: filters}
}

func c11Case(c *fw.Ctx, coll lungo.ICollection, ctx context.Context, d bson.D, u gen.Update, upsert bool, idx int) {
	w := map[string]interface{}{"doc": gen.JSON(d), "update": gen.JSON(u.Doc), "arrayFilters": jsonList(u.ArrayFilters), "upsert": upsert}
	got, changes, lerr, mut := lungoApply(d, u, upsert)
	if mut != "" {
		c.Violate("apply:mutates-"+mut, "Apply modified its "+mut+" argument", w)
	}
	info := &ref.ApplyInfo{}
	want, rerr := ref.Apply(d, u.Doc, u.ArrayFilters, upsert, info)
	for k, n := range info.Ops {
		c.Count("op:"+k, int64(n))
	}
	key := c11Key(d, u)

	if !info.OutOfDomain {
		c.Count("ref_asserted", 1)
		switch {
		case rerr != nil && lerr == nil:
			w["reference_rejects"] = rerr.Error()
			w["lungo_result"] = gen.JSON(got)
			c.Violate(orGeneric(key, "apply:accepts-rejected-update"), "Apply accepted an update that MongoDB semantics reject: "+rerr.Error(), w)
		case rerr == nil && lerr != nil:
			w["lungo_error"] = lerr.Error()
			w["reference_result"] = gen.JSON(want)
			c.Violate(orGeneric(key, "apply:rejects-valid-update"), "Apply rejected an update that MongoDB semantics accept: "+lerr.Error(), w)
		case rerr != nil && lerr != nil:
			c.Count("rejected_by_both", 1)
		default:
			// adopt unpredictable values after a type check
			for p, typ := range info.AdoptPaths {
				gv := ref.GetPath(got, p)
				okType := false
				switch gv.(type) {
				case primitive.DateTime:
					okType = typ == "date"
				case primitive.Timestamp:
					okType = typ == "timestamp"
				}
				if !okType {
					c.Violate("apply:currentDate-type", fmt.Sprintf("$currentDate produced %s at %q, expected %s", ref.TypeOfM(gv), p, typ), w)
					continue
				}
				want = setPathForAdopt(want, p, gv)
			}
			if ok, why := ref.EqualModNew(d, got, want, info.LooseOrder); !ok {
				w["lungo_result"] = gen.JSON(got)
				w["reference_result"] = gen.JSON(want)
				w["difference"] = why
				c.Violate(orGeneric(key, "apply:vs-ref"), "result differs from MongoDB semantics: "+why, w)
			}
		}
	} else {
		c.Count("ref_out_of_domain", 1)
	}

	if lerr != nil {
		return
	}
	changed := !bytes.Equal(gen.Bytes(d), gen.Bytes(got))
	if changed {
		c.Count("accepted_and_changed", 1)
		c.Nontrivial(fw.Hash64([]byte(gen.JSON(d) + gen.JSON(u.Doc))))
		if c.WantSample() {
			c.Sample(map[string]interface{}{"doc": gen.JSON(d), "update": gen.JSON(u.Doc), "arrayFilters": jsonList(u.ArrayFilters), "result": gen.JSON(got)})
		}
	}

	// frame law: top-level fields not addressed by any path keep value and relative position
	touched := map[string]bool{}
	for _, p := range updatePaths(u.Doc) {
		touched[strings.SplitN(p, ".", 2)[0]] = true
	}
	var before, after []string
	for _, e := range d {
		if !touched[e.Key] {
			before = append(before, e.Key+"="+string(gen.ValueBytes(e.Value)))
		}
	}
	for _, e := range got {
		if !touched[e.Key] {
			after = append(after, e.Key+"="+string(gen.ValueBytes(e.Value)))
		}
	}
	c.Count("frame_checked", 1)
	if strings.Join(before, "\x00") != strings.Join(after, "\x00") {
		w["lungo_result"] = gen.JSON(got)
		c.Violate("apply:frame", "a field not addressed by the update changed value or position", w)
	}

	// the recorded change set is empty iff nothing changed is C08's business; here: idempotence
	_ = changes
	if gen.OnlyIdempotent(u.Doc) && !upsert {
		again, _, err2, _ := lungoApply(got, u, upsert)
		c.Count("idempotence_checked", 1)
		if err2 != nil {
			// a rejected second application "changes nothing"; it is only reported
			// for updates without positional paths, where (conflicts being static)
			// the first application cannot invalidate the second
			if strings.Contains(gen.JSON(u.Doc), ".$[") {
				c.Count("second_application_rejected_positional", 1)
			} else {
				w["second_error"] = err2.Error()
				c.Violate("apply:idempotence-error", "second application of an idempotent update is rejected although the first was accepted: "+err2.Error(), w)
			}
		} else if !bytes.Equal(gen.Bytes(got), gen.Bytes(again)) {
			w["first"] = gen.JSON(got)
			w["second"] = gen.JSON(again)
			c.Violate(orGeneric(key, "apply:idempotence"), "applying $set/$unset/$min/$max/$addToSet/$pull/$pullAll a second time changed the document", w)
		}
	}

	// driver differential (every 4th case): UpdateOne must produce the document Apply produces
	if idx%4 == 0 && !upsert {
		coll.DeleteMany(ctx, bson.D{})
		if _, err := coll.InsertOne(ctx, d); err != nil {
			c.Violate("apply:driver-insert", "insert failed: "+err.Error(), w)
			return
		}
		opts := options.Update()
		if len(u.ArrayFilters) > 0 {
			opts.SetArrayFilters(options.ArrayFilters{Filters: u.FiltersAsInterfaces()})
		}
		res, err := coll.UpdateOne(ctx, bson.D{{Key: "_id", Value: int32(1)}}, u.Doc, opts)
		c.Count("driver_compared", 1)
		var stored bson.D
		coll.FindOne(ctx, bson.D{}).Decode(&stored)
		if err != nil {
			w["driver_error"] = err.Error()
			c.Violate("apply:driver-rejects", "UpdateOne failed although Apply accepted the update: "+err.Error(), w)
			return
		}
		if !hasCurrentDate(u.Doc) {
			if !bytes.Equal(gen.Bytes(stored), gen.Bytes(got)) {
				w["stored"] = gen.JSON(stored)
				w["apply_result"] = gen.JSON(got)
				c.Violate("apply:driver-differs", "document stored by UpdateOne differs from the result of Apply", w)
			}
			wantMod := int64(0)
			if changed {
				wantMod = 1
			}
			if res.MatchedCount != 1 || res.ModifiedCount != wantMod {
				w["result"] = fmt.Sprintf("matched=%d modified=%d", res.MatchedCount, res.ModifiedCount)
				c.Violate("apply:modified-count", fmt.Sprintf("UpdateOne reported matched=%d modified=%d, expected matched=1 modified=%d (document %s)", res.MatchedCount, res.ModifiedCount, wantMod, map[bool]string{true: "changed", false: "identical"}[changed]), w)
			}
			if gen.OnlyIdempotent(u.Doc) {
				// the second application goes through the upsert path as well: the
				// document matches, so nothing may be inserted
				opts2 := options.Update().SetUpsert(idx%8 == 0)
				if len(u.ArrayFilters) > 0 {
					opts2.SetArrayFilters(options.ArrayFilters{Filters: u.FiltersAsInterfaces()})
				}
				res2, err2 := coll.UpdateOne(ctx, bson.D{{Key: "_id", Value: int32(1)}}, u.Doc, opts2)
				c.Count("second_applications_through_the_driver", 1)
				if err2 == nil && (res2.ModifiedCount != 0 || res2.UpsertedCount != 0 || res2.MatchedCount != 1) {
					w["second_result"] = fmt.Sprintf("matched=%d modified=%d upserted=%d", res2.MatchedCount, res2.ModifiedCount, res2.UpsertedCount)
					c.Violate("apply:second-modified-count", "second application of an idempotent update (upsert option set in every other case) did not report matched=1 modified=0 upserted=0", w)
				} else if err2 != nil && !strings.Contains(gen.JSON(u.Doc), ".$[") {
					w["second_error"] = err2.Error()
					c.Violate("apply:idempotence-error", "second application of an idempotent update through UpdateOne is rejected although the first was accepted: "+err2.Error(), w)
				}
				if n, _ := coll.CountDocuments(ctx, bson.D{}); n != 1 {
					c.Violate("apply:second-application-inserted", fmt.Sprintf("after the second application the collection holds %d documents", n), w)
				}
			}
			// array filters belong to their own update: the same update without
			// them, as the neighbour of the one that brings them in a bulk write,
			// must be rejected on its own
			if len(u.ArrayFilters) > 0 && strings.Contains(gen.JSON(u.Doc), ".$[") {
				if _, rerr := ref.Apply(got, u.Doc, nil, false, &ref.ApplyInfo{}); rerr != nil {
					m1 := mongo.NewUpdateOneModel().SetFilter(bson.D{{Key: "_id", Value: int32(1)}}).SetUpdate(u.Doc).SetArrayFilters(options.ArrayFilters{Filters: u.FiltersAsInterfaces()})
					m2 := mongo.NewUpdateOneModel().SetFilter(bson.D{{Key: "_id", Value: int32(1)}}).SetUpdate(u.Doc)
					_, berr := coll.BulkWrite(ctx, []mongo.WriteModel{m1, m2})
					c.Count("bulk_neighbours_without_filters", 1)
					if berr == nil {
						c.Violate("apply:neighbour-filters-used", "an update with identified positional operators and no array filters was accepted as the second model of a bulk write whose first model brought array filters", w)
					}
				}
			}
		}
	}
}

func hasCurrentDate(u bson.D) bool {
	for _, op := range u {
		if op.Key == "$currentDate" {
			return true
		}
	}
	return false
}

// setPathForAdopt stores v at an existing path of d (copy on write).
func setPathForAdopt(d bson.D, path string, v interface{}) bson.D {
	segs := strings.Split(path, ".")
	var set func(cur interface{}, segs []string) interface{}
	set = func(cur interface{}, segs []string) interface{} {
		if len(segs) == 0 {
			return v
		}
		switch x := cur.(type) {
		case bson.D:
			c := append(bson.D{}, x...)
			for i := range c {
				if c[i].Key == segs[0] {
					c[i].Value = set(c[i].Value, segs[1:])
				}
			}
			return c
		case bson.A:
			c := append(bson.A{}, x...)
			var idx int
			fmt.Sscanf(segs[0], "%d", &idx)
			if idx >= 0 && idx < len(c) {
				c[idx] = set(c[idx], segs[1:])
			}
			return c
		}
		return cur
	}
	return set(d, segs).(bson.D)
}
