package checks

import (
	"bytes"
	"context"
	"fmt"
	"math"
	"os"
	"path/filepath"
	"sort"
	"time"

	"github.com/256dpi/lungo"
	"go.mongodb.org/mongo-driver/bson"
	"go.mongodb.org/mongo-driver/bson/primitive"

	"verifharness/drv"
	"verifharness/fw"
	"verifharness/gen"
	"verifharness/mon"
	"verifharness/ref"
)

// C06 — persist-and-reload returns the identical database.

func init() {
	fw.Register(&fw.Check{
		ID: "C06",
		Rule: "(a) the full cross product of index options {single asc, single desc, dotted, compound mixed} x unique x {no partial, $gt partial, $and partial} x {no TTL, 0 s, 3600 s on single-field keys} x {default, custom name}, each on a fresh file-backed engine with boundary-value documents; " +
			"(b) seeded histories (all call kinds, boundary value pool: four numeric types incl. NaN, -0, infinities, extreme exponents, empty and nested arrays/documents, binary subtypes, timestamps, regex values, null; collection names with dots) on a file store with reloads at random points and at the end; " +
			"at every reload engine A is closed and engine B opened on its file: exact document bytes, natural order, index definitions, membership counts, change-log bytes and ListIndexes output must be identical, B must satisfy the structural index invariants, " +
			"and uniqueness probes (duplicates of existing keys in other numeric spellings and fresh keys, inserted in a session transaction that is aborted) must have the same outcome on A before closing and on B after opening; non-trivial = the reloaded catalog held a secondary index with documents; distinct = hash of the dump at the reload",
		Assumptions: []string{"index list order among equal keys of a non-unique index is by document address and therefore not compared across engines (C15 checks order inside each engine)", "database names containing '.' are not MongoDB-legal and not generated"},
		Batches:     func(tier string) int { return 16 },
		Require: func(tier string) map[string]int64 {
			return map[string]int64{"reloads_compared": 300, "option_combinations": 100, "probes_compared": 1000, "probe_duplicates_rejected": 300, "reloaded_docs": 3000, "reloaded_indexes": 500, "boundary_values_reloaded": 500, "reloads_after_trimming_commit": 50, "stale_temp_files": 100}
		},
		Run: runC06,
	})
}

func reloadDump(cat *lungo.Catalog) mon.CatDump {
	return mon.Dump(cat, mon.DumpOpts{Oplog: true, NoIndexOrder: true})
}

func respell(v interface{}) interface{} {
	switch n := v.(type) {
	case int32:
		return int64(n)
	case int64:
		if float64(n) == math.Trunc(float64(n)) && int64(float64(n)) == n && n > -(1<<53) && n < 1<<53 {
			return float64(n)
		}
		return n
	case float64:
		if n == math.Trunc(n) && math.Abs(n) < 1<<31 {
			return gen.D128(fmt.Sprintf("%d", int64(n)))
		}
		return n
	case primitive.Decimal128:
		if bi, exp, err := n.BigInt(); err == nil && exp == 0 && bi.IsInt64() && bi.Int64() > -(1<<31) && bi.Int64() < 1<<31 {
			return int32(bi.Int64())
		}
		return n
	case bson.A:
		out := make(bson.A, len(n))
		for i, e := range n {
			out[i] = respell(e)
		}
		return out
	}
	return v
}

// probes builds the uniqueness probes for the current state.
func c06Probes(cat *lungo.Catalog, r *fw.Rand) []drv.Op {
	var out []drv.Op
	handles := []lungo.Handle{}
	for h := range cat.Namespaces {
		if h[0] != lungo.Local {
			handles = append(handles, h)
		}
	}
	sort.Slice(handles, func(i, j int) bool { return handles[i].String() < handles[j].String() })
	fresh := 0
	for _, h := range handles {
		ns := cat.Namespaces[h]
		names := []string{}
		for n := range ns.Indexes {
			names = append(names, n)
		}
		sort.Strings(names)
		for _, n := range names {
			cfg := ns.Indexes[n].Config()
			if !cfg.Unique {
				continue
			}
			docs := ns.Documents.List
			for k := 0; k < 3 && k < len(docs); k++ {
				src := gen.CloneDoc(*docs[(k*7+r.Intn(len(docs)))%len(docs)])
				// exact copy with a fresh _id (or the same _id for the _id index)
				for variant := 0; variant < 2; variant++ {
					d := gen.CloneDoc(src)
					if n != "_id_" {
						fresh++
						d[0].Value = fmt.Sprintf("probe-%d", fresh)
					}
					if variant == 1 {
						for _, ke := range *cfg.Key {
							top := ke.Key
							for i := 0; i < len(top); i++ {
								if top[i] == '.' {
									top = top[:i]
									break
								}
							}
							for i := range d {
								if d[i].Key == top {
									d[i].Value = respellDeep(d[i].Value)
								}
							}
						}
					}
					out = append(out, drv.Op{Kind: drv.InsertOne, DB: h[0], Coll: h[1], Docs: []bson.D{d}})
				}
			}
			fresh++
			fd := bson.D{{Key: "_id", Value: fmt.Sprintf("fresh-%d", fresh)}}
			for _, ke := range *cfg.Key {
				if ke.Key != "_id" && len(ke.Key) > 0 && !containsDot(ke.Key) {
					fd = append(fd, bson.E{Key: ke.Key, Value: fmt.Sprintf("fresh-%d", fresh)})
				}
			}
			out = append(out, drv.Op{Kind: drv.InsertOne, DB: h[0], Coll: h[1], Docs: []bson.D{fd}})
		}
	}
	return out
}

func containsDot(s string) bool {
	for i := 0; i < len(s); i++ {
		if s[i] == '.' {
			return true
		}
	}
	return false
}

func respellDeep(v interface{}) interface{} {
	switch x := v.(type) {
	case bson.D:
		out := make(bson.D, len(x))
		for i, e := range x {
			out[i] = bson.E{Key: e.Key, Value: respellDeep(e.Value)}
		}
		return out
	case bson.A:
		out := make(bson.A, len(x))
		for i, e := range x {
			out[i] = respellDeep(e)
		}
		return out
	}
	return respell(v)
}

// runProbes inserts every probe inside a session transaction that is aborted
// and returns the outcomes.
func runProbes(w *world, probes []drv.Op) ([]string, error) {
	var out []string
	for i := range probes {
		if err := w.begin(); err != nil {
			return nil, err
		}
		p := probes[i].Clone()
		res := drv.Exec(w.ctx(), w.client, &p)
		w.abort()
		switch {
		case res.Err == "":
			out = append(out, "accepted")
		case res.Unique:
			out = append(out, "duplicate")
		default:
			out = append(out, "error:"+res.Err)
		}
	}
	return out, nil
}

func boundaryCount(cat *lungo.Catalog) int64 {
	var n int64
	var walk func(v interface{})
	walk = func(v interface{}) {
		switch x := v.(type) {
		case bson.D:
			for _, e := range x {
				walk(e.Value)
			}
		case bson.A:
			for _, e := range x {
				walk(e)
			}
		case float64:
			if math.IsNaN(x) || math.IsInf(x, 0) || (x == 0 && math.Signbit(x)) || math.Abs(x) > 1e15 {
				n++
			}
		case primitive.Decimal128, primitive.Regex, primitive.Timestamp, primitive.Binary:
			n++
		case int64:
			if x > 1<<53 || x < -(1<<53) {
				n++
			}
		}
	}
	for h, ns := range cat.Namespaces {
		if h[0] == lungo.Local {
			continue
		}
		for _, d := range ns.Documents.List {
			walk(*d)
		}
	}
	return n
}

// c06Reload closes A, opens B on the file and compares.
func c06Reload(c *fw.Ctx, w *world, r *fw.Rand, witness func(map[string]interface{}) interface{}) bool {
	catA := w.engine.Catalog()
	dumpA := reloadDump(catA)
	probes := c06Probes(catA, r)
	outA, err := runProbes(w, probes)
	if err != nil {
		c.Violate("reload:probe-begin", "cannot start a probe transaction: "+err.Error(), witness(nil))
		return false
	}
	// probes were aborted: A must be unchanged
	if d := dumpA.Diff(reloadDump(w.engine.Catalog())); d != "" {
		c.Violate("reload:probe-leak", "aborted probe transactions changed the database: "+d, witness(nil))
		return false
	}
	listA := map[string]drv.Res{}
	var handles []lungo.Handle
	for h := range catA.Namespaces {
		if h[0] != lungo.Local {
			handles = append(handles, h)
			listA[h.String()] = drv.Exec(context.Background(), w.client, &drv.Op{Kind: drv.ListIndexes, DB: h[0], Coll: h[1]})
		}
	}
	secondaryWithDocs := false
	var nDocs, nIdx int64
	for _, h := range handles {
		ns := catA.Namespaces[h]
		nDocs += int64(len(ns.Documents.List))
		nIdx += int64(len(ns.Indexes))
		if len(ns.Indexes) > 1 && len(ns.Documents.List) > 0 {
			secondaryWithDocs = true
		}
	}
	bcount := boundaryCount(catA)
	if err := w.reload(); err != nil {
		c.Violate("reload:error", "reopening the store file failed: "+err.Error(), witness(map[string]interface{}{"state": dumpA.String()}))
		return false
	}
	c.Count("reloads_compared", 1)
	c.Count("reloaded_docs", nDocs)
	c.Count("reloaded_indexes", nIdx)
	c.Count("boundary_values_reloaded", bcount)
	catB := w.engine.Catalog()
	dumpB := reloadDump(catB)
	if d := dumpA.Diff(dumpB); d != "" {
		c.Violate("reload:differs", "the reopened database differs from the one that was closed: "+d, witness(map[string]interface{}{"closed": dumpA.String(), "reopened": dumpB.String()}))
		return false
	}
	for _, p := range mon.CheckCatalog(catB, nil) {
		c.Violate("reload:inv:"+p.Kind, "the reopened database violates a structural invariant: "+p.String(), witness(nil))
		return false
	}
	for _, h := range handles {
		lb := drv.Exec(context.Background(), w.client, &drv.Op{Kind: drv.ListIndexes, DB: h[0], Coll: h[1]})
		if d := listA[h.String()].Diff(lb); d != "" {
			c.Violate("reload:list-indexes", "ListIndexes on "+h.String()+" differs after reopening: "+d, witness(nil))
			return false
		}
	}
	outB, err := runProbes(w, probes)
	if err != nil {
		c.Violate("reload:probe-begin", "cannot start a probe transaction after reopening: "+err.Error(), witness(nil))
		return false
	}
	for i := range probes {
		c.Count("probes_compared", 1)
		if outA[i] == "duplicate" {
			c.Count("probe_duplicates_rejected", 1)
		}
		if outA[i] != outB[i] {
			c.Violate("reload:constraint-differs", fmt.Sprintf("a uniqueness probe has outcome %q before closing and %q after reopening", outA[i], outB[i]),
				witness(map[string]interface{}{"probe": probes[i].String(), "state": dumpA.String()}))
			return false
		}
	}
	if secondaryWithDocs {
		c.Nontrivial(fw.Hash64([]byte(dumpA.String())))
	}
	return true
}

// c06Trimmed: the last commit before closing discarded old change-log events
// (retention); the file must hold the trimmed log the engine serves.
func c06Trimmed(c *fw.Ctx) {
	caseNo := 0
	for L := 3; L <= 10; L++ {
		for minSize := 1; minSize <= 3; minSize++ {
			for maxSize := 2; maxSize <= 5; maxSize++ {
				caseNo++
				if caseNo%c.NBatches != c.Batch {
					continue
				}
				idx := 5000000 + caseNo
				if c.Skip(idx) {
					continue
				}
				var w *world
				desc := map[string]interface{}{"old_events": L, "minSize": minSize, "maxSize": maxSize}
				c.Case(idx, func() interface{} { return desc }, nil, func() {
					c.Eval(1)
					file := scratchFile(c.Scratch, idx)
					ages := make([]time.Duration, L)
					for i := range ages {
						ages[i] = ageOld
					}
					if err := lungo.NewFileStore(file, 0644).Store(craftedOplog(ages)); err != nil {
						c.Inconclusive("cannot write the pre-loaded store: " + err.Error())
						return
					}
					var err error
					w, err = openWorldWith(file, func(o *lungo.Options) {
						o.MinOplogSize, o.MaxOplogSize, o.MinOplogAge, o.MaxOplogAge = minSize, maxSize, 5*time.Minute, time.Hour
					})
					if err != nil {
						c.Inconclusive("open engine: " + err.Error())
						return
					}
					defer w.close()
					witness := func(extra map[string]interface{}) interface{} {
						m := map[string]interface{}{"history": w.history(), "setup": desc}
						for k, v := range extra {
							m[k] = v
						}
						return m
					}
					r := c.Rand(idx)
					for k := 0; k < 3; k++ {
						before := mon.OplogLen(w.engine.Catalog())
						if res := w.exec(&drv.Op{Kind: drv.InsertOne, DB: "d", Coll: "c", Docs: []bson.D{{{Key: "_id", Value: int32(k)}}}}); res.Err != "" {
							c.Violate("trimmed:write-failed", "insert failed: "+res.Err, witness(nil))
							return
						}
						if mon.OplogLen(w.engine.Catalog()) < before+1 {
							c.Count("reloads_after_trimming_commit", 1)
						}
						if !c06Reload(c, w, r, witness) {
							return
						}
					}
				})
			}
		}
	}
}

func runC06(c *fw.Ctx) {
	c06Options(c)
	c06Trimmed(c)
	nhist := c.N(320, 6400) / c.NBatches
	for q := 0; q < nhist; q++ {
		idx := c.Batch*nhist + q
		if c.Skip(idx) {
			continue
		}
		r := c.Rand(idx)
		var w *world
		describe := func() interface{} {
			if w == nil {
				return nil
			}
			return map[string]interface{}{"history": w.history()}
		}
		c.Case(idx, describe, nil, func() {
			c.Eval(1)
			var err error
			w, err = openWorld(scratchFile(c.Scratch, idx))
			if w != nil {
				w.solo = true
			}
			if err != nil {
				c.Inconclusive("open engine: " + err.Error())
				return
			}
			defer w.close()
			witness := func(extra map[string]interface{}) interface{} {
				m := map[string]interface{}{"history": w.history()}
				for k, v := range extra {
					m[k] = v
				}
				return m
			}
			g := &drv.HistGen{R: r, O: drv.HistOpts{Profile: "mixed", DBs: []string{"d", "e"}, Colls: []string{"c1", "c2.sub", "c.3.x"}, RichDocs: true, Pool: gen.Boundary, TTL: true, NoReads: true},
				Peek: w.peek, IndexNames: w.indexNames}
			steps := c.N(50, 70)
			for step := 0; step < steps; step++ {
				if r.Chance(1, 25) {
					// a temporary file left behind by an earlier process that died
					// mid-write (larger than the next image): it must not leak into
					// what is stored
					junk := bytes.Repeat([]byte{0xAB, 0x00, 0x7F, 0x10}, 1<<16)
					if os.WriteFile(w.file+".tmp", junk, 0644) == nil {
						w.note("-- stale " + filepath.Base(w.file) + ".tmp (256 KiB) placed next to the file")
						c.Count("stale_temp_files", 1)
					}
				}
				if step > 5 && r.Chance(1, 15) {
					if !c06Reload(c, w, r, witness) {
						return
					}
					continue
				}
				op := g.Next()
				if r.Chance(1, 6) && (op.Kind == drv.InsertOne) {
					// boundary-valued _id
					op.Docs[0] = append(bson.D{{Key: "_id", Value: fw.Pick(r, []interface{}{int64(math.MaxInt64), math.Copysign(0, -1), gen.D128("1E+6144"), gen.D128("-0"), primitive.Timestamp{T: 1, I: 1}, primitive.DateTime(-1), 1e300, int64(1) << 53, gen.D128("0.1"), primitive.Binary{Subtype: 4, Data: []byte{1, 2, 3}}})}}, stripID(op.Docs[0])...)
				}
				res := w.exec(&op)
				if res.Panic != "" {
					return
				}
			}
			if !c06Reload(c, w, r, witness) {
				return
			}
			// B -> C: a second reload without writes, then one after a write
			if !c06Reload(c, w, r, witness) {
				return
			}
			w.exec(&drv.Op{Kind: drv.InsertOne, DB: "d", Coll: "c1", Docs: []bson.D{{{Key: "_id", Value: "after-reload"}, {Key: "a", Value: math.NaN()}}}})
			if !c06Reload(c, w, r, witness) {
				return
			}
			if c.WantSample() {
				hs := w.history()
				if len(hs) > 15 {
					hs = hs[:15]
				}
				c.Sample(map[string]interface{}{"first_calls": hs, "reloads": w.reloads})
			}
		})
	}
}

func stripID(d bson.D) bson.D {
	if len(d) > 0 && d[0].Key == "_id" {
		return d[1:]
	}
	return d
}

// c06Options: the cross product of index options.
func c06Options(c *fw.Ctx) {
	keys := []bson.D{
		{{Key: "a", Value: int32(1)}}, {{Key: "a", Value: int32(-1)}}, {{Key: "s.x", Value: int32(1)}}, {{Key: "a", Value: int32(1)}, {Key: "b", Value: int32(-1)}},
	}
	partials := []bson.D{nil, {{Key: "b", Value: bson.D{{Key: "$gt", Value: int32(1)}}}},
		{{Key: "$and", Value: bson.A{bson.D{{Key: "b", Value: bson.D{{Key: "$gte", Value: int32(1)}}}}, bson.D{{Key: "a", Value: bson.D{{Key: "$lt", Value: int32(1000)}}}}}}}}
	expires := []int{-1, 0, 3600}
	caseNo := 0
	for ki, key := range keys {
		for ui := 0; ui < 2; ui++ {
			for pi, part := range partials {
				for _, exp := range expires {
					if exp >= 0 && len(key) > 1 {
						continue
					}
					for ni := 0; ni < 2; ni++ {
						caseNo++
						if caseNo%c.NBatches != c.Batch {
							continue
						}
						idx := 4000000 + caseNo
						if c.Skip(idx) {
							continue
						}
						spec := drv.IndexSpec{Keys: gen.CloneDoc(key), Unique: ui == 1}
						if part != nil {
							spec.Partial = gen.CloneDoc(part)
						}
						if exp >= 0 {
							e := int32(exp)
							spec.Expire = &e
						}
						if ni == 1 {
							spec.Name = fmt.Sprintf("custom_%d_%d", ki, pi)
						}
						var w *world
						describe := func() interface{} {
							if w == nil {
								return nil
							}
							return map[string]interface{}{"history": w.history()}
						}
						c.Case(idx, describe, nil, func() {
							c.Eval(1)
							c.Count("option_combinations", 1)
							var err error
							w, err = openWorld(scratchFile(c.Scratch, idx))
							if w != nil {
								w.solo = true
							}
							if err != nil {
								c.Inconclusive("open engine: " + err.Error())
								return
							}
							defer w.close()
							r := c.Rand(idx)
							witness := func(extra map[string]interface{}) interface{} {
								m := map[string]interface{}{"history": w.history()}
								for k, v := range extra {
									m[k] = v
								}
								return m
							}
							vals := []interface{}{int32(1), int64(2), 3.5, gen.D128("4"), math.Inf(1), math.NaN(), "x", nil, primitive.DateTime(1000), int64(1) << 60, gen.D128("1E+100"), bson.A{int32(7), int32(8)}}
							var docs []bson.D
							for i, v := range vals {
								docs = append(docs, bson.D{{Key: "_id", Value: int32(i)}, {Key: "a", Value: v}, {Key: "b", Value: int32(i % 4)}, {Key: "s", Value: bson.D{{Key: "x", Value: gen.CloneValue(v)}}}})
							}
							if res := w.exec(&drv.Op{Kind: drv.InsertMany, DB: "d", Coll: "c", Docs: docs, Ordered: true}); res.Err != "" {
								c.Inconclusive("setup insert failed: " + res.Err)
								return
							}
							if res := w.exec(&drv.Op{Kind: drv.CreateIndex, DB: "d", Coll: "c", Index: spec}); res.Err != "" {
								c.Violate("options:create-failed", "creating the index failed: "+res.Err, witness(nil))
								return
							}
							if !c06Reload(c, w, r, witness) {
								return
							}
							// the definition must still be the one that was created
							cfg := w.engine.Catalog().Namespaces[lungo.Handle{"d", "c"}]
							found := false
							for _, ix := range cfg.Indexes {
								if specEqualsConfig(spec, ix.Config()) {
									found = true
								}
							}
							if !found {
								c.Violate("options:definition-lost", "after reopening no index has the definition that was created", witness(map[string]interface{}{"index": fmt.Sprintf("%+v", spec)}))
								return
							}
							// re-creating the same definition after reload is a no-op
							if res := w.exec(&drv.Op{Kind: drv.CreateIndex, DB: "d", Coll: "c", Index: spec}); res.Err != "" {
								c.Violate("options:recreate-after-reload", "re-creating the same index definition after reopening failed: "+res.Err, witness(nil))
							}
						})
					}
				}
			}
		}
	}
	_ = ref.Compare
}
