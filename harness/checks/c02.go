package checks

import (
	"context"
	"fmt"
	"sort"
	"strings"

	"github.com/256dpi/lungo"
	"go.mongodb.org/mongo-driver/bson"

	"verifharness/drv"
	"verifharness/fw"
	"verifharness/gen"
	"verifharness/mon"
)

// C02 — a write that reports an error leaves the database exactly as it was;
// multi-item calls apply exactly the individually succeeding items.

func init() {
	fw.Register(&fw.Check{
		ID: "C02",
		Rule: "(a) directed shapes: for every failure kind (duplicate key under unique / partial-unique / compound index, $inc on a string, $push/$addToSet/$pop/$pull on a scalar, cannot-put path, int64 overflow, _id change, unknown operator, conflicting paths, unbound array filter) x n=1..6 matched documents x every k<n the k-th processed document is the poison, through UpdateMany, and the k-th item of InsertMany/BulkWrite batches (ordered and unordered), inside and outside a session transaction; " +
			"(b) seeded failure-rich histories; every call that returns an error is bracketed by exact dumps (document bytes, natural order, index definitions and index lists, change log) which must be identical, and inside a transaction the dirty state may not flip; " +
			"(c) every InsertMany/BulkWrite is replayed on a twin engine as single calls (skip or stop at failures) and normalised dumps incl. change events and the failing item indexes must agree; non-trivial = an error returned after at least one document or item had been processed; distinct = hash of the failing call and the pre-state",
		Assumptions: []string{"the twin executes single calls with lungo's own operator semantics (those are C10/C11); only batch bookkeeping is differential", "store failures are C05/C16"},
		Batches:     func(tier string) int { return 16 },
		Require: func(tier string) map[string]int64 {
			return map[string]int64{"error_calls_bracketed": 3000, "error_calls_in_txn": 200, "late_failures": 500, "batch_twin_compared": 500, "batch_partial_success": 100, "directed_shapes": 300}
		},
		Run: runC02,
	})
}

func exactDump(cat *lungo.Catalog) mon.CatDump { return mon.Dump(cat, mon.DumpOpts{Oplog: true}) }

// normDump renders documents, index definitions and the change log without
// timestamps (for comparing two engines).
func normDump(cat *lungo.Catalog) mon.CatDump {
	d := mon.Dump(cat, mon.DumpOpts{NoIndexOrder: true})
	var sb strings.Builder
	if ol := cat.Namespaces[lungo.Oplog]; ol != nil {
		for _, e := range ol.Documents.List {
			ev := bson.D{}
			for _, f := range *e {
				switch f.Key {
				case "_id", "clusterTime", "wallTime":
				default:
					ev = append(ev, f)
				}
			}
			sort.Slice(ev, func(i, j int) bool { return ev[i].Key < ev[j].Key })
			sb.WriteString(normEvent(ev) + "\n")
		}
	}
	d["local.oplog"] = sb.String()
	return d
}

// normEvent renders an event with updateDescription maps in sorted order
// (they are built from Go maps).
func normEvent(ev bson.D) string {
	var norm func(v interface{}) interface{}
	norm = func(v interface{}) interface{} {
		switch x := v.(type) {
		case bson.D:
			out := make(bson.D, len(x))
			for i, e := range x {
				out[i] = bson.E{Key: e.Key, Value: e.Value}
			}
			return out
		}
		return v
	}
	out := bson.D{}
	for _, f := range ev {
		if f.Key == "updateDescription" {
			if ud, ok := f.Value.(bson.D); ok {
				nud := bson.D{}
				for _, u := range ud {
					switch x := u.Value.(type) {
					case bson.D:
						s := append(bson.D{}, x...)
						sort.Slice(s, func(i, j int) bool { return s[i].Key < s[j].Key })
						nud = append(nud, bson.E{Key: u.Key, Value: s})
					case bson.A:
						strs := []string{}
						for _, e := range x {
							strs = append(strs, fmt.Sprint(e))
						}
						sort.Strings(strs)
						nud = append(nud, bson.E{Key: u.Key, Value: strs})
					default:
						nud = append(nud, u)
					}
				}
				out = append(out, bson.E{Key: f.Key, Value: nud})
				continue
			}
		}
		out = append(out, bson.E{Key: f.Key, Value: norm(f.Value)})
	}
	return gen.JSON(out)
}

func runC02(c *fw.Ctx) {
	c02Directed(c)
	nhist := c.N(480, 12000) / c.NBatches
	for q := 0; q < nhist; q++ {
		idx := c.Batch*nhist + q
		if c.Skip(idx) {
			continue
		}
		r := c.Rand(idx)
		var w *world
		describe := func() interface{} {
			if w == nil {
				return nil
			}
			return map[string]interface{}{"history": w.history()}
		}
		c.Case(idx, describe, nil, func() {
			c.Eval(1)
			var err error
			w, err = openWorld("")
			if w != nil {
				w.solo = true
			}
			if err != nil {
				c.Inconclusive("open engine: " + err.Error())
				return
			}
			defer w.close()
			tw, err := openWorld("")
			if err != nil {
				c.Inconclusive("open twin: " + err.Error())
				return
			}
			defer tw.close()
			c02History(c, w, tw, r, c.N(60, 80))
		})
	}
}

func c02History(c *fw.Ctx, w, tw *world, r *fw.Rand, steps int) {
	g := &drv.HistGen{R: r, O: drv.HistOpts{Profile: "failure", DBs: []string{"d"}, Colls: []string{"c1", "c2"}, ExplicitIDs: true, Deterministic: true, Pool: gen.Core},
		Peek: w.peek, IndexNames: w.indexNames}
	twinOK := true // the twin mirrors the real engine only outside transactions
	witness := func(extra map[string]interface{}) interface{} {
		m := map[string]interface{}{"history": w.history()}
		for k, v := range extra {
			m[k] = v
		}
		return m
	}
	for step := 0; step < steps; step++ {
		if !w.inTxn {
			if r.Chance(1, 20) {
				if err := w.begin(); err != nil {
					c.Violate("txn:begin", "StartTransaction failed: "+err.Error(), witness(nil))
					return
				}
				twinOK = false // transactions are not mirrored; the twin stops here
				continue
			}
		} else if r.Chance(1, 8) {
			if r.Bool() {
				w.commit()
			} else {
				w.abort()
			}
			continue
		}
		op := g.Next()
		if w.inTxn && drv.IsIndexOp(op.Kind) {
			continue
		}
		if op.Kind == drv.DropIndex && op.Name == "*" {
			continue
		}
		var dirtyBefore bool
		if w.inTxn {
			dirtyBefore = w.sess.(*lungo.Session).Transaction().Dirty()
		}
		before := exactDump(w.cat())
		outside := exactDump(w.engine.Catalog())
		preDocs := len(w.peek(op.DB, op.Coll))
		opc := op.Clone()
		res := w.exec(&op)
		if res.Panic != "" {
			return // C20 reports panics
		}
		after := exactDump(w.cat())
		if w.inTxn {
			// nothing of an open transaction may be visible outside
			if d := outside.Diff(exactDump(w.engine.Catalog())); d != "" {
				c.Violate("error:txn-leak", "a call inside an open transaction changed the committed state: "+d, witness(nil))
				return
			}
		}
		multi := op.Kind == drv.InsertMany || op.Kind == drv.BulkWrite || op.Kind == drv.CreateIndexes
		// (FindOneAnd* returning ErrNoDocuments for "no document to return" is not a failed write)
		if res.Err != "" && !multi && !res.NoDocs {
			c.Count("error_calls_bracketed", 1)
			c.Count("err:"+op.Kind, 1)
			if w.inTxn {
				c.Count("error_calls_in_txn", 1)
			}
			if (op.Kind == drv.UpdateMany || op.Kind == drv.CreateIndex) && preDocs >= 2 {
				c.Count("late_failures", 1)
				c.Nontrivial(fw.Hash64([]byte(op.String() + before[op.DB+"."+op.Coll])))
				if c.WantSample() {
					c.Sample(map[string]interface{}{"failing_call": op.String(), "error": res.Err, "documents_in_collection": preDocs})
				}
			}
			if d := before.Diff(after); d != "" {
				c.Violate("error:state-changed", fmt.Sprintf("%s returned an error (%s) but the database differs from before the call: %s", op.Kind, res.Err, d),
					witness(map[string]interface{}{"op": op.String(), "before": before.String(), "after": after.String()}))
				return
			}
			if w.inTxn && !dirtyBefore && w.sess.(*lungo.Session).Transaction().Dirty() {
				c.Violate("error:dirty-flipped", "a failed call marked a clean transaction dirty", witness(map[string]interface{}{"op": op.String()}))
				return
			}
		}
		if !twinOK || w.inTxn {
			continue
		}
		// mirror on the twin: batches as single calls
		if multi {
			tres := c02Singles(tw, &opc)
			c.Count("batch_twin_compared", 1)
			if len(tres.failed) > 0 && tres.succeeded > 0 {
				c.Count("batch_partial_success", 1)
				c.Nontrivial(fw.Hash64([]byte(op.String() + before[op.DB+"."+op.Coll])))
			}
			var failedReal []int
			if op.Kind == drv.BulkWrite {
				failedReal = res.WriteErrs
			}
			if op.Kind == drv.BulkWrite && fmt.Sprint(failedReal) != fmt.Sprint(tres.failed) && !(len(failedReal) == 0 && len(tres.failed) == 0) {
				c.Violate("batch:failing-indexes", fmt.Sprintf("BulkWrite reported failing items %v, executing the items one by one fails at %v", failedReal, tres.failed),
					witness(map[string]interface{}{"op": op.String()}))
				return
			}
			if op.Kind == drv.InsertMany {
				if (res.Err != "") != (len(tres.failed) > 0) {
					c.Violate("batch:error-presence", fmt.Sprintf("InsertMany err=%q but single inserts fail at %v", res.Err, tres.failed), witness(map[string]interface{}{"op": op.String()}))
					return
				}
				if len(res.IDs)+len(tres.ids) > 0 && string(gen.ValueBytes(bson.A(res.IDs))) != string(gen.ValueBytes(bson.A(tres.ids))) {
					c.Violate("batch:inserted-ids", fmt.Sprintf("InsertMany reported inserted ids %s, single inserts succeeded for %s", gen.JSON(bson.A(res.IDs)), gen.JSON(bson.A(tres.ids))),
						witness(map[string]interface{}{"op": op.String()}))
					return
				}
			} else if op.Kind == drv.CreateIndexes {
				if (res.Err != "") != (len(tres.failed) > 0) {
					c.Violate("batch:error-presence", fmt.Sprintf("CreateMany err=%q but single index creations fail at %v", res.Err, tres.failed), witness(map[string]interface{}{"op": op.String()}))
					return
				}
			} else if res.Inserted != tres.sum.Inserted || res.Matched != tres.sum.Matched || res.Modified != tres.sum.Modified || res.Upserted != tres.sum.Upserted || res.Deleted != tres.sum.Deleted {
				c.Violate("batch:counts", fmt.Sprintf("BulkWrite counts %s differ from the sums of the single calls %s", res.String(), tres.sum.String()), witness(map[string]interface{}{"op": op.String()}))
				return
			}
		} else {
			t := opc.Clone()
			tres := tw.exec(&t)
			if d := res.Diff(tres); d != "" {
				// the same call on the same state must behave the same (determinism)
				c.Violate("twin:diverged", "the same call on an identical twin engine returned something else: "+d, witness(map[string]interface{}{"op": op.String(), "twin_history": tw.history()}))
				return
			}
		}
		if d := normDump(w.engine.Catalog()).Diff(normDump(tw.engine.Catalog())); d != "" {
			key := "twin:state-diverged"
			if multi {
				key = "batch:state-differs-from-singles"
			}
			c.Violate(key, "after "+op.Kind+" the database differs from a twin on which batches are executed as single calls: "+d,
				witness(map[string]interface{}{"op": op.String(), "twin_history": tw.history()}))
			return
		}
	}
	if w.inTxn {
		w.abort()
	}
}

type singlesResult struct {
	failed    []int
	succeeded int
	ids       []interface{}
	sum       drv.Res
}

// c02Singles executes the items of a batch one by one.
func c02Singles(tw *world, op *drv.Op) singlesResult {
	var out singlesResult
	switch op.Kind {
	case drv.InsertMany:
		for i, d := range op.Docs {
			s := drv.Op{Kind: drv.InsertOne, DB: op.DB, Coll: op.Coll, Docs: []bson.D{gen.CloneDoc(d)}}
			r := tw.exec(&s)
			if r.Err != "" {
				out.failed = append(out.failed, i)
				if op.Ordered {
					return out
				}
				continue
			}
			out.succeeded++
			out.ids = append(out.ids, r.IDs...)
		}
	case drv.CreateIndexes:
		for i, ix := range op.Indexes {
			s := drv.Op{Kind: drv.CreateIndex, DB: op.DB, Coll: op.Coll, Index: ix}
			s = s.Clone()
			r := tw.exec(&s)
			if r.Err != "" {
				out.failed = append(out.failed, i)
				return out
			}
			out.succeeded++
		}
	case drv.BulkWrite:
		for i, m := range op.Models {
			s := m.Clone()
			r := tw.exec(&s)
			if r.Err != "" {
				out.failed = append(out.failed, i)
				if op.Ordered {
					return out
				}
				continue
			}
			out.succeeded++
			switch s.Kind {
			case drv.InsertOne:
				out.sum.Inserted++
			case drv.DeleteOne, drv.DeleteMany:
				out.sum.Deleted += r.Matched
			default:
				out.sum.Matched += r.Matched
				out.sum.Modified += r.Modified
				out.sum.Upserted += r.Upserted
			}
		}
	}
	return out
}

// ---------------------------------------------------------------------------
// directed shapes: the k-th of n processed documents / items is the poison

type poison struct {
	name   string
	good   func(i int) bson.D // field values of a harmless document
	bad    func(i int) bson.D // field values of the poison document
	extra  []bson.D           // documents outside the filter (collision partners)
	update bson.D
	af     []bson.D
	index  *drv.IndexSpec
}

func c02Poisons() []poison {
	i32 := func(n int) int32 { return int32(n) }
	set := func(k string, v interface{}) bson.D { return bson.D{{Key: k, Value: v}} }
	return []poison{
		{name: "inc-on-string", good: func(i int) bson.D { return set("p", i32(i)) }, bad: func(i int) bson.D { return set("p", "str") },
			update: bson.D{{Key: "$inc", Value: set("p", int32(1))}}},
		{name: "push-on-scalar", good: func(i int) bson.D { return set("p", bson.A{i32(i)}) }, bad: func(i int) bson.D { return set("p", int32(5)) },
			update: bson.D{{Key: "$push", Value: set("p", int32(1))}}},
		{name: "addToSet-on-scalar", good: func(i int) bson.D { return set("p", bson.A{}) }, bad: func(i int) bson.D { return set("p", "s") },
			update: bson.D{{Key: "$addToSet", Value: set("p", int32(1))}}},
		{name: "pop-on-scalar", good: func(i int) bson.D { return set("p", bson.A{int32(1), int32(2)}) }, bad: func(i int) bson.D { return set("p", true) },
			update: bson.D{{Key: "$pop", Value: set("p", int32(1))}}},
		{name: "pull-on-scalar", good: func(i int) bson.D { return set("p", bson.A{int32(1), int32(2)}) }, bad: func(i int) bson.D { return set("p", int32(1)) },
			update: bson.D{{Key: "$pull", Value: set("p", int32(1))}}},
		{name: "cannot-put-below-scalar", good: func(i int) bson.D { return set("p", bson.D{{Key: "y", Value: i32(i)}}) }, bad: func(i int) bson.D { return set("p", int32(3)) },
			update: bson.D{{Key: "$set", Value: set("p.x", int32(1))}}},
		{name: "mul-int64-overflow", good: func(i int) bson.D { return set("p", int64(i)) }, bad: func(i int) bson.D { return set("p", int64(1)<<62) },
			update: bson.D{{Key: "$mul", Value: set("p", int64(4))}}},
		{name: "bit-on-double", good: func(i int) bson.D { return set("p", i32(i)) }, bad: func(i int) bson.D { return set("p", 1.5) },
			update: bson.D{{Key: "$bit", Value: set("p", bson.D{{Key: "or", Value: int32(4)}})}}},
		{name: "unique-collision", good: func(i int) bson.D { return set("u", i32(10*i)) }, bad: func(i int) bson.D { return set("u", int32(1000)) },
			extra:  []bson.D{{{Key: "_id", Value: "partner"}, {Key: "u", Value: int64(1001)}, {Key: "grp", Value: "other"}}},
			update: bson.D{{Key: "$inc", Value: set("u", int32(1))}}, index: &drv.IndexSpec{Keys: bson.D{{Key: "u", Value: int32(1)}}, Unique: true}},
		{name: "multikey-unique-collision", good: func(i int) bson.D { return set("u", bson.A{i32(10 * i), i32(10*i + 1)}) }, bad: func(i int) bson.D { return set("u", bson.A{int32(2000)}) },
			extra:  []bson.D{{{Key: "_id", Value: "partner"}, {Key: "u", Value: bson.A{int32(5000), 7777.0}}, {Key: "grp", Value: "other"}}},
			update: bson.D{{Key: "$push", Value: set("u", int32(7777))}}, index: &drv.IndexSpec{Keys: bson.D{{Key: "u", Value: int32(1)}}, Unique: true}},
		{name: "partial-unique-collision", good: func(i int) bson.D { return bson.D{{Key: "u", Value: int32(1)}, {Key: "f", Value: int32(0)}} }, bad: func(i int) bson.D { return bson.D{{Key: "u", Value: int32(9)}, {Key: "f", Value: int32(0)}} },
			extra:  []bson.D{{{Key: "_id", Value: "partner"}, {Key: "u", Value: int32(9)}, {Key: "f", Value: int32(5)}, {Key: "grp", Value: "other"}}},
			update: bson.D{{Key: "$inc", Value: set("f", int32(5))}},
			index:  &drv.IndexSpec{Keys: bson.D{{Key: "u", Value: int32(1)}}, Unique: true, Partial: bson.D{{Key: "f", Value: bson.D{{Key: "$gt", Value: int32(3)}}}}}},
		{name: "compound-unique-collision", good: func(i int) bson.D { return bson.D{{Key: "u", Value: i32(i)}, {Key: "v", Value: int32(1)}} }, bad: func(i int) bson.D { return bson.D{{Key: "u", Value: int32(77)}, {Key: "v", Value: int32(1)}} },
			extra:  []bson.D{{{Key: "_id", Value: "partner"}, {Key: "u", Value: 77.0}, {Key: "v", Value: int32(2)}, {Key: "grp", Value: "other"}}},
			update: bson.D{{Key: "$set", Value: set("v", int32(2))}}, index: &drv.IndexSpec{Keys: bson.D{{Key: "u", Value: int32(1)}, {Key: "v", Value: int32(-1)}}, Unique: true}},
		{name: "array-filter-on-scalar", good: func(i int) bson.D { return set("p", bson.A{int32(1), int32(5)}) }, bad: func(i int) bson.D { return set("p", int32(5)) },
			update: bson.D{{Key: "$set", Value: set("p.$[e]", int32(0))}}, af: []bson.D{{{Key: "e", Value: bson.D{{Key: "$gte", Value: int32(3)}}}}}},
		{name: "rename-into-scalar-parent", good: func(i int) bson.D { return bson.D{{Key: "p", Value: i32(i)}, {Key: "q", Value: bson.D{}}} }, bad: func(i int) bson.D { return bson.D{{Key: "p", Value: i32(i)}, {Key: "q", Value: int32(1)}} },
			update: bson.D{{Key: "$rename", Value: set("p", "q.z")}}},
	}
}

// c02InsertBatches: the k-th of n inserted documents is rejected (duplicate _id,
// duplicate unique key, duplicate inside the batch), ordered and unordered,
// compared with single inserts on a twin.
func c02InsertBatches(c *fw.Ctx) {
	caseNo := 0
	for kind := 0; kind < 3; kind++ {
		for n := 1; n <= 6; n++ {
			for k := 0; k < n; k++ {
				for _, ordered := range []bool{true, false} {
					caseNo++
					if caseNo%c.NBatches != c.Batch {
						continue
					}
					idx := 1500000 + caseNo
					if c.Skip(idx) {
						continue
					}
					var w, tw *world
					describe := func() interface{} {
						if w == nil {
							return nil
						}
						return map[string]interface{}{"history": w.history()}
					}
					c.Case(idx, describe, nil, func() {
						c.Eval(1)
						c.Count("directed_shapes", 1)
						var err error
						if w, err = openWorld(""); err != nil {
							return
						}
						defer w.close()
						if tw, err = openWorld(""); err != nil {
							return
						}
						defer tw.close()
						setup := []drv.Op{
							{Kind: drv.InsertOne, DB: "d", Coll: "c", Docs: []bson.D{{{Key: "_id", Value: "partner"}, {Key: "u", Value: int64(777)}}}},
							{Kind: drv.CreateIndex, DB: "d", Coll: "c", Index: drv.IndexSpec{Keys: bson.D{{Key: "u", Value: int32(1)}}, Unique: true}},
							{Kind: drv.CreateIndex, DB: "d", Coll: "c", Index: drv.IndexSpec{Keys: bson.D{{Key: "g", Value: int32(-1)}}}},
						}
						for _, o := range setup {
							a, b := o.Clone(), o.Clone()
							w.exec(&a)
							tw.exec(&b)
						}
						var docs []bson.D
						for i := 0; i < n; i++ {
							d := bson.D{{Key: "_id", Value: int32(i)}, {Key: "u", Value: int32(i)}, {Key: "g", Value: int32(i % 2)}}
							if i == k {
								switch kind {
								case 0:
									d[0].Value = "partner" // duplicate _id
								case 1:
									d[1].Value = 777.0 // duplicate unique key (other numeric type)
								default:
									if k > 0 {
										d[1].Value = int64(k - 1) // duplicate of an earlier item of the batch
									} else {
										d[1].Value = int32(777)
									}
								}
							}
							docs = append(docs, d)
						}
						op := drv.Op{Kind: drv.InsertMany, DB: "d", Coll: "c", Docs: docs, Ordered: ordered}
						opc := op.Clone()
						res := w.exec(&op)
						tres := c02Singles(tw, &opc)
						c.Count("batch_twin_compared", 1)
						wit := map[string]interface{}{"history": w.history(), "twin_history": tw.history(), "n": n, "k": k, "ordered": ordered}
						if res.Err == "" {
							c.Violate("directed:no-error", fmt.Sprintf("InsertMany whose item %d of %d is a duplicate reported success", k, n), wit)
							return
						}
						if tres.succeeded > 0 {
							c.Count("batch_partial_success", 1)
						}
						if len(res.IDs)+len(tres.ids) > 0 && string(gen.ValueBytes(bson.A(res.IDs))) != string(gen.ValueBytes(bson.A(tres.ids))) {
							c.Violate("batch:inserted-ids", fmt.Sprintf("InsertMany(ordered=%v) with a duplicate at item %d of %d reported inserted ids %s, single inserts succeeded for %s", ordered, k, n, gen.JSON(bson.A(res.IDs)), gen.JSON(bson.A(tres.ids))), wit)
							return
						}
						if d := normDump(w.engine.Catalog()).Diff(normDump(tw.engine.Catalog())); d != "" {
							c.Violate("batch:state-differs-from-singles", fmt.Sprintf("after InsertMany(ordered=%v) with a duplicate at item %d of %d the database differs from inserting the items one by one: %s", ordered, k, n, d), wit)
							return
						}
						c.Nontrivial(fw.Hash64([]byte(fmt.Sprintf("insertmany/%d/%d/%d/%v", kind, n, k, ordered))))
					})
				}
			}
		}
	}
}

func c02Directed(c *fw.Ctx) {
	c02InsertBatches(c)
	poisons := c02Poisons()
	ctx := context.Background()
	caseNo := 0
	for pi, p := range poisons {
		for n := 1; n <= 6; n++ {
			for k := 0; k < n; k++ {
				for variant := 0; variant < 4; variant++ { // 0 updateMany, 1 updateMany in txn, 2 bulk unordered, 3 bulk ordered
					caseNo++
					if caseNo%c.NBatches != c.Batch {
						continue
					}
					idx := 1000000 + ((pi*7+n)*7+k)*4 + variant
					if c.Skip(idx) {
						continue
					}
					var w *world
					describe := func() interface{} {
						if w == nil {
							return nil
						}
						return map[string]interface{}{"history": w.history()}
					}
					c.Case(idx, describe, nil, func() {
						c.Eval(1)
						c.Count("directed_shapes", 1)
						var err error
						w, err = openWorld("")
						if w != nil {
							w.solo = true
						}
						if err != nil {
							c.Inconclusive("open engine: " + err.Error())
							return
						}
						defer w.close()
						c02Shape(c, ctx, w, p, n, k, variant)
					})
				}
			}
		}
	}
}

func c02Shape(c *fw.Ctx, ctx context.Context, w *world, p poison, n, k, variant int) {
	witness := func(extra map[string]interface{}) interface{} {
		m := map[string]interface{}{"poison": p.name, "n": n, "k": k, "variant": variant, "history": w.history()}
		for kk, v := range extra {
			m[kk] = v
		}
		return m
	}
	var docs []bson.D
	for i := 0; i < n; i++ {
		f := p.good(i)
		if i == k {
			f = p.bad(i)
		}
		d := append(bson.D{{Key: "_id", Value: int32(i)}, {Key: "grp", Value: "g"}}, f...)
		// nested containers that the update also writes into (before it fails on the poison)
		d = append(d, bson.E{Key: "cells", Value: bson.A{bson.A{int32(1), int32(2)}, bson.A{int32(3), int32(4)}}},
			bson.E{Key: "deep", Value: bson.D{{Key: "arr", Value: bson.A{bson.D{{Key: "x", Value: int32(1)}}, bson.D{{Key: "x", Value: int32(2)}}}}}})
		docs = append(docs, d)
	}
	docs = append(docs, p.extra...)
	setup := drv.Op{Kind: drv.InsertMany, DB: "d", Coll: "c", Docs: docs, Ordered: true}
	if r := w.exec(&setup); r.Err != "" {
		c.Inconclusive("directed setup failed: " + r.Err)
		return
	}
	if p.index != nil {
		ci := drv.Op{Kind: drv.CreateIndex, DB: "d", Coll: "c", Index: *p.index}
		if r := w.exec(&ci); r.Err != "" {
			c.Inconclusive("directed index setup failed: " + r.Err)
			return
		}
	}
	// a second, unrelated secondary index so that index lists are part of the dump
	w.exec(&drv.Op{Kind: drv.CreateIndex, DB: "d", Coll: "c", Index: drv.IndexSpec{Keys: bson.D{{Key: "grp", Value: int32(1)}, {Key: "_id", Value: int32(-1)}}}})
	filter := bson.D{{Key: "grp", Value: "g"}}
	// the update first writes into an array inside an array and into an array of
	// sub-documents, then hits the poison
	nested := bson.D{{Key: "cells.0.1", Value: int32(99)}, {Key: "deep.arr.1.x", Value: int32(77)}}
	upd := gen.CloneDoc(p.update)
	merged := false
	for i := range upd {
		if upd[i].Key == "$set" {
			upd[i].Value = append(upd[i].Value.(bson.D), nested...)
			merged = true
		}
	}
	if !merged {
		upd = append(bson.D{{Key: "$set", Value: nested}}, upd...)
	}
	p.update = upd
	switch variant {
	case 0, 1:
		if variant == 1 {
			if err := w.begin(); err != nil {
				c.Inconclusive("begin: " + err.Error())
				return
			}
			// an earlier successful write inside the transaction
			w.exec(&drv.Op{Kind: drv.InsertOne, DB: "d", Coll: "c", Docs: []bson.D{{{Key: "_id", Value: "intxn"}, {Key: "grp", Value: "t"}}}})
		}
		before := exactDump(w.cat())
		op := drv.Op{Kind: drv.UpdateMany, DB: "d", Coll: "c", Filter: filter, Update: gen.CloneDoc(p.update), ArrayFilters: p.af}
		res := w.exec(&op)
		c.Count("error_calls_bracketed", 1)
		if k > 0 {
			c.Count("late_failures", 1)
		}
		if res.Err == "" {
			c.Violate("directed:no-error", fmt.Sprintf("UpdateMany over %d documents whose document %d cannot take the update (%s) reported success", n, k, p.name), witness(nil))
			return
		}
		after := exactDump(w.cat())
		if d := before.Diff(after); d != "" {
			c.Violate("error:state-changed", fmt.Sprintf("UpdateMany failed at document %d of %d (%s: %s) but the database differs from before the call: %s", k, n, p.name, res.Err, d),
				witness(map[string]interface{}{"before": before.String(), "after": after.String()}))
			return
		}
		if variant == 1 {
			c.Count("error_calls_in_txn", 1)
			if err := w.commit(); err != nil {
				c.Violate("directed:commit-after-error", "commit after a failed call inside the transaction failed: "+err.Error(), witness(nil))
				return
			}
			got := exactDump(w.engine.Catalog())
			delete(got, "local.oplog")
			want := before
			delete(want, "local.oplog")
			if d := want.Diff(got); d != "" {
				c.Violate("error:state-changed", "after committing a transaction in which a call failed the database holds other contents than the successful calls produced: "+d, witness(nil))
			}
		}
		c.Nontrivial(fw.Hash64([]byte(fmt.Sprintf("%s/%d/%d/%d", p.name, n, k, variant))))
		if c.WantSample() && k > 0 {
			c.Sample(map[string]interface{}{"shape": p.name, "matched_documents": n, "poison_position": k, "call": op.String(), "error": res.Err})
		}
	default:
		// batch: item i updates document i by _id; item k fails
		ordered := variant == 3
		var models []drv.Op
		for i := 0; i < n; i++ {
			models = append(models, drv.Op{Kind: drv.UpdateOne, DB: "d", Coll: "c", Filter: bson.D{{Key: "_id", Value: int32(i)}}, Update: gen.CloneDoc(p.update), ArrayFilters: p.af})
		}
		tw, err := openWorld("")
		if err != nil {
			return
		}
		defer tw.close()
		for _, l := range []drv.Op{setup} {
			t := l.Clone()
			tw.exec(&t)
		}
		if p.index != nil {
			tw.exec(&drv.Op{Kind: drv.CreateIndex, DB: "d", Coll: "c", Index: *p.index})
		}
		tw.exec(&drv.Op{Kind: drv.CreateIndex, DB: "d", Coll: "c", Index: drv.IndexSpec{Keys: bson.D{{Key: "grp", Value: int32(1)}, {Key: "_id", Value: int32(-1)}}}})
		op := drv.Op{Kind: drv.BulkWrite, DB: "d", Coll: "c", Models: models, Ordered: ordered}
		opc := op.Clone()
		res := w.exec(&op)
		tres := c02Singles(tw, &opc)
		c.Count("batch_twin_compared", 1)
		if tres.succeeded > 0 {
			c.Count("batch_partial_success", 1)
		}
		if len(tres.failed) == 0 {
			c.Violate("directed:no-error", "the poisoned item did not fail as a single call ("+p.name+")", witness(nil))
			return
		}
		if fmt.Sprint(res.WriteErrs) != fmt.Sprint(tres.failed) {
			c.Violate("batch:failing-indexes", fmt.Sprintf("BulkWrite(ordered=%v) reported failing items %v, executing the items one by one fails at %v", ordered, res.WriteErrs, tres.failed), witness(nil))
			return
		}
		if d := normDump(w.engine.Catalog()).Diff(normDump(tw.engine.Catalog())); d != "" {
			c.Violate("batch:state-differs-from-singles", fmt.Sprintf("after BulkWrite(ordered=%v) with failing item %d of %d (%s) the database differs from executing the items one by one: %s", ordered, k, n, p.name, d),
				witness(map[string]interface{}{"twin_history": tw.history()}))
			return
		}
		c.Nontrivial(fw.Hash64([]byte(fmt.Sprintf("%s/%d/%d/%d", p.name, n, k, variant))))
	}
}
