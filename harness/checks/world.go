package checks

import (
	"context"
	"fmt"
	"os"
	"path/filepath"
	"sort"

	"github.com/256dpi/lungo"
	"go.mongodb.org/mongo-driver/bson"

	"verifharness/drv"
	"verifharness/mon"
)

// world is one engine under test plus the bookkeeping the history-driven
// checks share: optional file backing (reload), an optional open session
// transaction, and a log of the executed calls for witnesses.
type world struct {
	client  lungo.IClient
	engine  *lungo.Engine
	file    string // store file ("" = memory store)
	opts    lungo.Options
	sess    lungo.ISession
	sc      lungo.ISessionContext
	inTxn   bool
	log     []string
	reloads int
	// solo: the world is driven by one goroutine; a writer slot that is
	// occupied between two of its calls (outside its own session transaction)
	// was leaked by an earlier call, and every later write would wait out the
	// one minute acquisition timeout. Such a world stops executing calls.
	solo   bool
	wedged string
}

func quietOptions(store lungo.Store) lungo.Options {
	// a very long expiry interval keeps the background goroutine from
	// committing behind the monitor's back; a large oplog keeps every event
	return lungo.Options{Store: store, ExpireInterval: 1 << 40, MinOplogSize: 1 << 20, MaxOplogSize: 1 << 21, MinOplogAge: 1, MaxOplogAge: 3600e9 * 24}
}

func openWorld(file string) (*world, error) { return openWorldWith(file, nil) }

// openWorldWith lets the caller adjust the engine options (e.g. a small change
// log window).
func openWorldWith(file string, mod func(*lungo.Options)) (*world, error) {
	w := &world{file: file}
	var store lungo.Store
	if file != "" {
		store = lungo.NewFileStore(file, 0644)
	} else {
		store = lungo.NewMemoryStore()
	}
	w.opts = quietOptions(store)
	if mod != nil {
		mod(&w.opts)
	}
	client, engine, err := lungo.Open(nil, w.opts)
	if err != nil {
		return nil, err
	}
	w.client, w.engine = client, engine
	return w, nil
}

func (w *world) close() {
	if w.sess != nil {
		w.sess.EndSession(nil)
		w.sess, w.sc, w.inTxn = nil, nil, false
	}
	if w.engine != nil {
		w.engine.Close()
	}
}

// reload closes the engine and opens a new one on the same file.
func (w *world) reload() error {
	if w.file == "" {
		return fmt.Errorf("not file backed")
	}
	w.close()
	w.opts.Store = lungo.NewFileStore(w.file, 0644)
	client, engine, err := lungo.Open(nil, w.opts)
	if err != nil {
		w.engine = nil
		return err
	}
	w.client, w.engine = client, engine
	w.reloads++
	w.note("-- reload from file")
	return nil
}

func (w *world) note(s string) {
	w.log = append(w.log, s)
	if len(w.log) > 400 {
		w.log = w.log[len(w.log)-400:]
	}
}

// history returns the recorded calls (witness).
func (w *world) history() []string {
	out := make([]string, len(w.log))
	copy(out, w.log)
	return out
}

// ctx is the context to issue calls with (the session context inside a
// transaction).
func (w *world) ctx() context.Context {
	if w.inTxn && w.sc != nil {
		return w.sc
	}
	return context.Background()
}

// cat is the catalog the next call will read: the open transaction's or the
// engine's.
func (w *world) cat() *lungo.Catalog {
	if w.inTxn {
		if s, ok := w.sess.(*lungo.Session); ok {
			if t := s.Transaction(); t != nil {
				return t.Catalog()
			}
		}
	}
	return w.engine.Catalog()
}

func (w *world) begin() error {
	sess, err := w.client.StartSession()
	if err != nil {
		return err
	}
	if err := sess.StartTransaction(); err != nil {
		sess.EndSession(nil)
		return err
	}
	w.sess = sess
	lungo.WithSession(context.Background(), sess, func(sc lungo.ISessionContext) error {
		w.sc = sc
		return nil
	})
	w.inTxn = true
	w.note("-- start transaction")
	return nil
}

func (w *world) commit() error {
	err := w.sess.CommitTransaction(context.Background())
	w.sess.EndSession(nil)
	w.sess, w.sc, w.inTxn = nil, nil, false
	w.note(fmt.Sprintf("-- commit transaction (err=%v)", err))
	return err
}

func (w *world) abort() error {
	err := w.sess.AbortTransaction(context.Background())
	w.sess.EndSession(nil)
	w.sess, w.sc, w.inTxn = nil, nil, false
	w.note("-- abort transaction")
	return err
}

// exec runs a call in the current context and logs it.
func (w *world) exec(op *drv.Op) drv.Res {
	if w.solo && !w.inTxn && w.wedged == "" && w.engine != nil {
		if free, active, alive, _ := w.engine.VerifState(); alive && (free != 1 || active) {
			w.wedged = fmt.Sprintf("the writer slot is occupied between two calls of a single client (free=%d, transaction registered=%v): an earlier call did not release it", free, active)
			w.note("-- " + w.wedged)
		}
	}
	if w.wedged != "" {
		return drv.Res{Err: "engine wedged: " + w.wedged}
	}
	res := drv.Exec(w.ctx(), w.client, op)
	w.note(op.String() + "  =>  " + res.String())
	return res
}

func (w *world) peek(db, coll string) []bson.D {
	return mon.Docs(w.cat(), lungo.Handle{db, coll})
}

func (w *world) indexNames(db, coll string) []string {
	ns := w.cat().Namespaces[lungo.Handle{db, coll}]
	if ns == nil {
		return nil
	}
	var out []string
	for n := range ns.Indexes {
		out = append(out, n)
	}
	sort.Strings(out)
	return out
}

func scratchFile(dir string, idx int) string {
	p := filepath.Join(dir, fmt.Sprintf("store-%d", idx))
	os.MkdirAll(p, 0755)
	return filepath.Join(p, "db.bson")
}

func jsonStrings(docs []bson.D) []string { return jsonList(docs) }
