package checks

import (
	"context"
	"fmt"
	"sort"
	"sync/atomic"
	"time"

	"github.com/256dpi/lungo"
	"go.mongodb.org/mongo-driver/bson"
	"go.mongodb.org/mongo-driver/bson/primitive"

	"verifharness/drv"
	"verifharness/fw"
	"verifharness/gen"
	"verifharness/mon"
	"verifharness/ref"
)

// C19 — TTL expiry deletes exactly the expired documents and nothing else.

func init() {
	fw.Register(&fw.Check{
		ID: "C19",
		Rule: "seeded catalogs of 1-3 collections with 0-2 TTL indexes (expireAfterSeconds 0, 60, 86400; top-level and dotted fields) next to unique, compound and partial indexes; documents whose indexed field holds an old date, a new date (each generated at least one hour away from the cutoff and labelled), a number, string, bool, null, timestamp, document, an array of old/new/mixed/no dates, or is missing; " +
			"one expiry pass is run on a locked transaction: the set of removed _ids must equal the set computed from the labels, collections without TTL index must be byte-identical, the appended change events must be exactly one delete per removed document, index invariants must hold afterwards, and a pass that removes nothing must leave the transaction clean and the dump unchanged; " +
			"the background loop is checked on its own logical clock (hook expire.pass_begin/pass_end): after one full pass that began after the insert the expired documents are gone and the others are not; non-trivial = a collection held both expired and surviving documents under a TTL index; distinct = hash of the catalog",
		Assumptions: []string{"dates are labelled old/new at generation, at least 1 h from now-expiry, so the oracle never reads the clock", "TTL indexes with a partial filter and key paths that fan out over arrays of sub-documents are not generated"},
		Batches:     func(tier string) int { return 16 },
		Require: func(tier string) map[string]int64 {
			return map[string]int64{"passes": 300, "docs_judged": 3000, "expired_expected": 500, "survivors_expected": 1500, "noop_passes": 50, "collections_without_ttl": 100, "array_dates": 200, "zero_second_indexes": 50, "background_passes_observed": 5, "idle_expiry_checks": 5, "compound_ttl_requests": 40, "plain_indexes_on_date_fields": 100, "long_interval_indexes": 40}
		},
		Run: runC19,
	})
}

type ttlField struct {
	path   string
	expire int32
}

// ttlValue draws a value for a field and tells whether it makes the document
// expire under a TTL index with the given expiry on that field.
func ttlValue(r *fw.Rand, now time.Time, expire int32, c *fw.Ctx) (interface{}, bool) {
	cutoff := now.Add(-time.Duration(expire) * time.Second)
	old := primitive.NewDateTimeFromTime(cutoff.Add(-time.Duration(1+r.Intn(48)) * time.Hour))
	young := primitive.NewDateTimeFromTime(cutoff.Add(time.Duration(1+r.Intn(48)) * time.Hour))
	switch r.Intn(16) {
	case 0, 1, 2:
		return old, true
	case 3, 4, 5:
		return young, false
	case 6:
		return int64(old), false // a number that looks like an old date
	case 7:
		return "2001-01-01T00:00:00Z", false
	case 8:
		return fw.Pick(r, []interface{}{true, nil, primitive.Timestamp{T: 1, I: 1}, 0.0, bson.D{{Key: "d", Value: old}}}), false
	case 9:
		c.Count("array_dates", 1)
		return bson.A{old}, true
	case 10:
		c.Count("array_dates", 1)
		return bson.A{young}, false
	case 11:
		c.Count("array_dates", 1)
		switch r.Intn(4) {
		case 0:
			return bson.A{young, old}, true
		case 1:
			return bson.A{old, old, young}, true // the same date twice: one index key, two positions
		case 2:
			return bson.A{old, "x", old}, true
		}
		return bson.A{"x", old, int32(5)}, true
	case 12:
		return bson.A{}, false
	case 13:
		return bson.A{"x", int32(5), young}, false
	default:
		return ref.Missing, false
	}
}

func runC19(c *fw.Ctx) {
	if c.Batch == 0 {
		c19Background(c)
	}
	n := c.N(480, 9600) / c.NBatches
	for q := 0; q < n; q++ {
		idx := c.Batch*n + q
		if c.Skip(idx) {
			continue
		}
		r := c.Rand(idx)
		var w *world
		describe := func() interface{} {
			if w == nil {
				return nil
			}
			return map[string]interface{}{"history": w.history()}
		}
		c.Case(idx, describe, nil, func() {
			c.Eval(1)
			var err error
			w, err = openWorld("")
			if err != nil {
				c.Inconclusive("open engine: " + err.Error())
				return
			}
			defer w.close()
			c19Case(c, w, r)
		})
	}
}

type c19Coll struct {
	name   string
	ttl    []ttlField
	expect map[string]bool // id key -> expires
	ids    map[string]interface{}
}

func setPath(d bson.D, path string, v interface{}) bson.D {
	for i := 0; i < len(path); i++ {
		if path[i] == '.' {
			head, rest := path[:i], path[i+1:]
			for j := range d {
				if d[j].Key == head {
					sub, _ := d[j].Value.(bson.D)
					d[j].Value = setPath(sub, rest, v)
					return d
				}
			}
			return append(d, bson.E{Key: head, Value: setPath(bson.D{}, rest, v)})
		}
	}
	return append(d, bson.E{Key: path, Value: v})
}

func c19Build(c *fw.Ctx, w *world, r *fw.Rand, now time.Time, forceNoExpiry bool) ([]*c19Coll, bool) {
	ncoll := r.Range(1, 3)
	var colls []*c19Coll
	paths := []string{"t", "u", "s.t"}
	for ci := 0; ci < ncoll; ci++ {
		cc := &c19Coll{name: fmt.Sprintf("c%d", ci), expect: map[string]bool{}, ids: map[string]interface{}{}}
		nttl := r.Intn(3)
		used := map[string]bool{}
		for k := 0; k < nttl; k++ {
			p := fw.Pick(r, paths)
			if used[p] {
				continue
			}
			used[p] = true
			e := fw.Pick(r, []int32{0, 60, 86400, 0, 60, 86400, 30 * 86400, 60 * 86400, 400 * 86400})
			if e > 86400 {
				c.Count("long_interval_indexes", 1)
			}
			if e == 0 {
				c.Count("zero_second_indexes", 1)
			}
			cc.ttl = append(cc.ttl, ttlField{path: p, expire: e})
		}
		if len(cc.ttl) == 0 {
			c.Count("collections_without_ttl", 1)
		}
		ndocs := r.Range(0, 10)
		var docs []bson.D
		for i := 0; i < ndocs; i++ {
			d := bson.D{{Key: "_id", Value: int32(i)}, {Key: "k", Value: int32(i % 3)}, {Key: "g", Value: int32(i)}}
			expires := false
			for _, p := range paths {
				exp := int32(10 * 86400) // fields without TTL index: ancient dates must survive
				isTTL := false
				for _, f := range cc.ttl {
					if f.path == p {
						exp, isTTL = f.expire, true
					}
				}
				v, ex := ttlValue(r, now, exp, c)
				if forceNoExpiry && ex && isTTL {
					v, ex = "kept", false
				}
				if v != ref.Missing {
					d = setPath(d, p, v)
				}
				if isTTL && ex {
					expires = true
				}
			}
			docs = append(docs, d)
			key := string(gen.ValueBytes(int32(i)))
			cc.expect[key] = expires
			cc.ids[key] = int32(i)
		}
		if len(docs) > 0 {
			if res := w.exec(&drv.Op{Kind: drv.InsertMany, DB: "d", Coll: cc.name, Docs: docs, Ordered: true}); res.Err != "" {
				c.Inconclusive("setup insert failed: " + res.Err)
				return nil, false
			}
		} else {
			w.exec(&drv.Op{Kind: drv.CreateCollection, DB: "d", Coll: cc.name})
		}
		for _, f := range cc.ttl {
			e := f.expire
			if res := w.exec(&drv.Op{Kind: drv.CreateIndex, DB: "d", Coll: cc.name, Index: drv.IndexSpec{Keys: bson.D{{Key: f.path, Value: int32(1)}}, Expire: &e}}); res.Err != "" {
				c.Violate("ttl:index-create", "creating a TTL index failed: "+res.Err, map[string]interface{}{"history": w.history()})
				return nil, false
			}
		}
		// other indexes next to the TTL ones
		if r.Bool() {
			w.exec(&drv.Op{Kind: drv.CreateIndex, DB: "d", Coll: cc.name, Index: drv.IndexSpec{Keys: bson.D{{Key: "g", Value: int32(1)}}, Unique: true}})
		}
		if r.Bool() {
			w.exec(&drv.Op{Kind: drv.CreateIndex, DB: "d", Coll: cc.name, Index: drv.IndexSpec{Keys: bson.D{{Key: "k", Value: int32(1)}, {Key: "g", Value: int32(-1)}}}})
		}
		if r.Bool() {
			w.exec(&drv.Op{Kind: drv.CreateIndex, DB: "d", Coll: cc.name, Index: drv.IndexSpec{Keys: bson.D{{Key: "k", Value: int32(-1)}}, Partial: bson.D{{Key: "g", Value: bson.D{{Key: "$gt", Value: int32(2)}}}}}})
		}
		// an ordinary index on a field that holds (ancient) dates does not make
		// them expire
		for _, p := range paths {
			if !used[p] && r.Bool() {
				c.Count("plain_indexes_on_date_fields", 1)
				w.exec(&drv.Op{Kind: drv.CreateIndex, DB: "d", Coll: cc.name, Index: drv.IndexSpec{Keys: bson.D{{Key: p, Value: int32(1)}}}})
			}
		}
		// a compound index is never a TTL index: asking for one with
		// expireAfterSeconds must be refused (single-field restriction), and
		// the old dates in its first field must survive every pass
		if r.Bool() {
			for _, p := range paths {
				if used[p] {
					continue
				}
				e := fw.Pick(r, []int32{0, 60})
				c.Count("compound_ttl_requests", 1)
				if res := w.exec(&drv.Op{Kind: drv.CreateIndex, DB: "d", Coll: cc.name, Index: drv.IndexSpec{Keys: bson.D{{Key: p, Value: int32(1)}, {Key: "k", Value: int32(1)}}, Expire: &e}}); res.Err == "" {
					c.Violate("ttl:compound-accepted", fmt.Sprintf("a compound index {%s:1,k:1} with expireAfterSeconds %d was accepted (TTL indexes are single-field)", p, e), map[string]interface{}{"history": w.history()})
					return nil, false
				}
				break
			}
		}
		colls = append(colls, cc)
	}
	return colls, true
}

func c19Case(c *fw.Ctx, w *world, r *fw.Rand) {
	now := time.Now()
	forceNoExpiry := r.Chance(1, 6)
	colls, ok := c19Build(c, w, r, now, forceNoExpiry)
	if !ok {
		return
	}
	witness := func(extra map[string]interface{}) interface{} {
		m := map[string]interface{}{"history": w.history()}
		for k, v := range extra {
			m[k] = v
		}
		return m
	}
	txn, err := w.engine.Begin(context.Background(), true)
	if err != nil {
		c.Violate("ttl:begin", "Begin failed: "+err.Error(), witness(nil))
		return
	}
	defer w.engine.Abort(txn)
	before := txn.Catalog()
	beforeDump := exactDump(before)
	beforeCont := contentsOf(before)
	len0 := mon.OplogLen(before)
	if err := txn.Expire(); err != nil {
		c.Violate("ttl:expire-error", "the expiry pass failed: "+err.Error(), witness(nil))
		return
	}
	c.Count("passes", 1)
	after := txn.Catalog()
	afterCont := contentsOf(after)
	wantRemoved := 0
	mixed := false
	for _, cc := range colls {
		ns := "d." + cc.name
		exp, sur := 0, 0
		for key, expires := range cc.expect {
			c.Count("docs_judged", 1)
			_, still := afterCont[ns][key]
			if expires {
				exp++
				c.Count("expired_expected", 1)
				if still {
					c.Violate("ttl:expired-kept", fmt.Sprintf("document %s of %s is expired under a TTL index but survived the pass", decodeDoc(beforeCont[ns][key]), ns), witness(map[string]interface{}{"ttl_indexes": fmt.Sprint(cc.ttl)}))
					return
				}
			} else {
				sur++
				c.Count("survivors_expected", 1)
				if !still {
					c.Violate("ttl:unexpired-removed", fmt.Sprintf("document %s of %s is not expired under any TTL index (%v) but the pass removed it", decodeDoc(beforeCont[ns][key]), ns, cc.ttl), witness(nil))
					return
				}
				if afterCont[ns][key] != beforeCont[ns][key] {
					c.Violate("ttl:survivor-changed", "a surviving document changed during the expiry pass", witness(nil))
					return
				}
			}
		}
		wantRemoved += exp
		if exp > 0 && sur > 0 {
			mixed = true
		}
		if len(cc.ttl) == 0 {
			if beforeDump[ns] != exactDump(after)[ns] {
				c.Violate("ttl:touched-collection-without-ttl", "a collection without TTL index differs after the expiry pass", witness(nil))
				return
			}
		}
	}
	// change events: exactly one delete per removed document
	evs := oplogEvents(after)
	if len(evs)-len0 != wantRemoved {
		c.Violate("ttl:event-count", fmt.Sprintf("the pass removed %d documents but appended %d change events", wantRemoved, len(evs)-len0), witness(nil))
		return
	}
	logged := map[string]int{}
	for _, ev := range evs[len0:] {
		typ, _ := ref.GetPath(ev, "operationType").(string)
		if typ != "delete" {
			c.Violate("ttl:event-type", "the expiry pass appended a "+typ+" event", witness(nil))
			return
		}
		coll, _ := ref.GetPath(ev, "ns.coll").(string)
		logged["d."+coll+"/"+string(gen.ValueBytes(ref.GetPath(ev, "documentKey._id")))]++
	}
	for _, cc := range colls {
		for key, expires := range cc.expect {
			n := logged["d."+cc.name+"/"+key]
			if (expires && n != 1) || (!expires && n != 0) {
				c.Violate("ttl:event-keys", fmt.Sprintf("document %v of %s: expired=%v but %d delete events were logged", cc.ids[key], cc.name, expires, n), witness(nil))
				return
			}
		}
	}
	for _, p := range mon.CheckCatalog(after, nil) {
		c.Violate("ttl:inv:"+p.Kind, "after the expiry pass: "+p.String(), witness(nil))
		return
	}
	if wantRemoved == 0 {
		c.Count("noop_passes", 1)
		if txn.Dirty() {
			c.Violate("ttl:noop-dirty", "an expiry pass that removed nothing marked the transaction dirty", witness(nil))
			return
		}
		if d := beforeDump.Diff(exactDump(after)); d != "" {
			c.Violate("ttl:noop-changed", "an expiry pass that removed nothing changed the database: "+d, witness(nil))
			return
		}
	} else if !txn.Dirty() {
		c.Violate("ttl:not-dirty", "an expiry pass that removed documents left the transaction clean (the removals would never be committed)", witness(nil))
		return
	}
	// the catalog the transaction started from is untouched (copy on write)
	if d := beforeDump.Diff(exactDump(before)); d != "" {
		c.Violate("ttl:mutated-snapshot", "the expiry pass changed the catalog the transaction was started from: "+d, witness(nil))
		return
	}
	// commit and compare with the engine's view
	if err := w.engine.Commit(txn); err != nil {
		c.Violate("ttl:commit", "committing the expiry pass failed: "+err.Error(), witness(nil))
		return
	}
	if d := afterCont.diff(contentsOf(w.engine.Catalog())); d != "" {
		c.Violate("ttl:commit-differs", "after committing the expiry pass the engine shows other contents: "+d, witness(nil))
		return
	}
	if mixed {
		keys := []string{}
		for k := range beforeDump {
			keys = append(keys, beforeDump[k])
		}
		sort.Strings(keys)
		c.Nontrivial(fw.Hash64([]byte(fmt.Sprint(keys))))
		if c.WantSample() {
			hs := w.history()
			if len(hs) > 6 {
				hs = hs[:6]
			}
			c.Sample(map[string]interface{}{"setup_calls": hs, "removed": wantRemoved})
		}
	}
}

// c19Background checks the expiry goroutine on its own logical clock.
// c19TimePasses: a document that is not expired when it is written becomes
// expired merely because time passes, on an otherwise idle database (no
// commit in between). Once its date is certainly older than the interval, a
// background pass that began after that moment must have removed it, and a
// document dated in the future must still be there. The clock is only used
// to wait; the verdict is taken on the pass counter.
func c19TimePasses(c *fw.Ctx, w *world, begun, ended *atomic.Int64) bool {
	e := int32(1)
	if res := w.exec(&drv.Op{Kind: drv.CreateIndex, DB: "d", Coll: "tick", Index: drv.IndexSpec{Keys: bson.D{{Key: "at", Value: int32(1)}}, Expire: &e}}); res.Err != "" {
		c.Violate("ttl:index-create", "creating a TTL index failed: "+res.Err, map[string]interface{}{"history": w.history()})
		return false
	}
	t0 := time.Now()
	docs := []bson.D{{{Key: "_id", Value: "soon"}, {Key: "at", Value: primitive.NewDateTimeFromTime(t0)}}, {{Key: "_id", Value: "later"}, {Key: "at", Value: primitive.NewDateTimeFromTime(t0.Add(time.Hour))}}}
	if res := w.exec(&drv.Op{Kind: drv.InsertMany, DB: "d", Coll: "tick", Docs: docs, Ordered: true}); res.Err != "" {
		c.Inconclusive("setup insert failed: " + res.Err)
		return false
	}
	// idle until the first document is certainly older than one second
	for time.Since(t0) < 1500*time.Millisecond {
		time.Sleep(50 * time.Millisecond)
	}
	b0 := begun.Load()
	deadline := time.Now().Add(30 * time.Second)
	for !(begun.Load() >= b0+2 && ended.Load() >= b0+2) {
		if time.Now().After(deadline) {
			c.Inconclusive("the expiry goroutine did not complete two passes within 30 s on an idle database")
			return false
		}
		time.Sleep(5 * time.Millisecond)
	}
	c.Count("idle_expiry_checks", 1)
	cont := contentsOf(w.engine.Catalog())["d.tick"]
	_, soon := cont[string(gen.ValueBytes("soon"))]
	_, later := cont[string(gen.ValueBytes("later"))]
	if soon {
		c.Violate("ttl:background-kept-idle", "a document whose date became older than the interval while the database was idle is still present after a full background pass that began afterwards", map[string]interface{}{"history": w.history()})
		return false
	}
	if !later {
		c.Violate("ttl:background-removed", "a document dated in the future was removed by the background pass", map[string]interface{}{"history": w.history()})
		return false
	}
	return true
}

func c19Background(c *fw.Ctx) {
	rounds := c.N(6, 40)
	for k := 0; k < rounds; k++ {
		idx := 6000000 + k
		if c.Skip(idx) {
			continue
		}
		r := c.Rand(idx)
		c.Case(idx, nil, nil, func() {
			c.Eval(1)
			var begun, ended atomic.Int64
			lungo.SetVerifHook(func(point string, obj interface{}) {
				switch point {
				case "expire.pass_begin":
					begun.Add(1)
				case "expire.pass_end":
					ended.Add(1)
				}
			})
			defer lungo.SetVerifHook(nil)
			var errs atomic.Int64
			w, err := openWorldWith("", func(o *lungo.Options) {
				o.ExpireInterval = 20 * time.Millisecond
				o.ExpireErrors = func(error) { errs.Add(1) }
			})
			if err != nil {
				c.Inconclusive("open engine: " + err.Error())
				return
			}
			defer w.close()
			now := time.Now()
			colls, ok := c19Build(c, w, r, now, false)
			if !ok {
				return
			}
			// a full pass that began after the last setup call
			b0 := begun.Load()
			deadline := time.Now().Add(30 * time.Second)
			for {
				// pass number b0+1 began after the setup and has ended when
				// ended >= b0+1 (passes do not overlap)
				if begun.Load() >= b0+2 && ended.Load() >= b0+2 {
					break
				}
				if time.Now().After(deadline) {
					c.Inconclusive(fmt.Sprintf("the expiry goroutine did not complete two passes within 30 s (begun=%d ended=%d)", begun.Load()-b0, ended.Load()-b0))
					return
				}
				time.Sleep(5 * time.Millisecond)
			}
			c.Count("background_passes_observed", 1)
			if !c19TimePasses(c, w, &begun, &ended) {
				return
			}
			cont := contentsOf(w.engine.Catalog())
			for _, cc := range colls {
				ns := "d." + cc.name
				for key, expires := range cc.expect {
					_, still := cont[ns][key]
					if expires && still {
						c.Violate("ttl:background-kept", fmt.Sprintf("document %v of %s is expired but still present after a full background pass", cc.ids[key], cc.name), map[string]interface{}{"history": w.history(), "reported_errors": errs.Load()})
						return
					}
					if !expires && !still {
						c.Violate("ttl:background-removed", fmt.Sprintf("document %v of %s is not expired but was removed by the background pass", cc.ids[key], cc.name), map[string]interface{}{"history": w.history()})
						return
					}
				}
			}
		})
	}
}
