package checks

import (
	"context"
	"errors"
	"fmt"
	"runtime"
	"sort"
	"strings"
	"sync"
	"sync/atomic"
	"time"

	"github.com/256dpi/lungo"
	"github.com/anishathalye/porcupine"
	"go.mongodb.org/mongo-driver/bson"
	"go.mongodb.org/mongo-driver/mongo/options"

	"verifharness/fw"
	"verifharness/gen"
	"verifharness/ref"
	"verifharness/sched"
)

// C04 — concurrent operations are strictly serializable; no update is lost.

func init() {
	fw.Register(&fw.Check{
		ID:   "C04",
		Race: true,
		Rule: "many short histories: 4-12 client goroutines issue reads, register writes, compare-and-set updates, counter increments returning the new value, list appends, find-and-delete, read-modify-write and two-document transfer transactions (committed or aborted) and whole-collection snapshot reads on 3-5 keys; every write carries a unique tag; calls are recorded at the client boundary with invoke/return stamps from one atomic counter; GOMAXPROCS in {2,4,16}; random yields/sleeps at the out-of-lock hook points and one directed hold per history (actor A parked at an out-of-lock point until actor B passes another); " +
			"oracles: (1) commit-order replay - change-log events are attributed to calls by tag, the order must respect real time, replaying the effectful calls one at a time in that order on a fresh engine must reproduce every returned result and the final contents, and every read / no-effect call must be reproduced at some prefix inside its real-time window; (2) porcupine linearizability check of the single-key operations against a sequential register/counter/list model, partitioned by key (60 s timeout = inconclusive); " +
			"(3) conservation and exactly-once: the balance sum is constant in every snapshot read, counters equal the acknowledged increments, acknowledged list ids appear exactly once; (4) token monitor on the hook trace; plus a lost-update hammer (plain $inc, read-modify-write transactions, and goroutines sharing one session transaction); race reports are violations; " +
			"non-trivial = the history had overlapping calls on one key and at least one committed multi-document transaction; distinct = hash of the recorded history",
		Assumptions: []string{"the change log is the serialization witness (C08 checks the log itself)", "only interleavings the Go scheduler produced under the injected delays are judged"},
		Batches:     func(tier string) int { return 16 },
		Parallel:    func(tier string) int { return 8 },
		Require: func(tier string) map[string]int64 {
			return map[string]int64{"histories": 100, "calls_recorded": 8000, "effectful_replayed": 3000, "reads_placed": 2000, "porcupine_ok": 150, "transactions_committed": 200, "snapshot_reads_checked": 300,
				"overlapping_pairs": 5000, "hammer_increments": 3000, "queue_jobs": 1000, "transactions_ending_with_a_noop": 500, "hook_events": 20000}
		},
		WorkerTimeoutSec: func(tier string) int {
			if tier == "thorough" {
				return 4000
			}
			return 900
		},
		Run: runC04,
	})
}

type c04Op struct {
	ID     string `json:"id"`
	Client int    `json:"client"`
	Kind   string `json:"kind"`
	Key    int    `json:"key"`
	Key2   int    `json:"key2,omitempty"`
	Old    string `json:"old,omitempty"`
	Abort  bool   `json:"abort,omitempty"`
	Inv    int64  `json:"inv"`
	Ret    int64  `json:"ret"`
	Out    string `json:"out"`
	Err    string `json:"err,omitempty"`
	// effect claimed by the result (a write was acknowledged)
	effect bool
}

type c04Doc struct {
	ID   int32    `bson:"_id"`
	V    string   `bson:"v"`
	N    int64    `bson:"n"`
	Log  []string `bson:"log"`
	Bal  int64    `bson:"bal"`
	Last string   `bson:"last"`
}

func (d c04Doc) String() string {
	return fmt.Sprintf("{v=%s n=%d log=%s bal=%d last=%s}", d.V, d.N, strings.Join(d.Log, ","), d.Bal, d.Last)
}

const c04Coll = "acc"
const c04Journal = "journal"

// c04Exec runs one operation against a client and renders its outcome. The
// same function is used for the concurrent run and for the sequential replay.
func c04Exec(ctx context.Context, client lungo.IClient, op *c04Op) {
	coll := client.Database("d").Collection(c04Coll)
	key := bson.D{{Key: "_id", Value: int32(op.Key)}}
	fail := func(err error) {
		op.Err = err.Error()
		op.Out = "error"
	}
	switch op.Kind {
	case "read":
		var d c04Doc
		err := coll.FindOne(ctx, key).Decode(&d)
		switch {
		case errors.Is(err, lungo.ErrNoDocuments):
			op.Out = "none"
		case err != nil:
			fail(err)
		default:
			op.Out = d.String()
		}
	case "readall":
		cur, err := coll.Find(ctx, bson.D{}, options.Find().SetSort(bson.D{{Key: "_id", Value: int32(1)}}))
		if err != nil {
			fail(err)
			return
		}
		var ds []c04Doc
		if err := cur.All(ctx, &ds); err != nil {
			fail(err)
			return
		}
		var sb strings.Builder
		for _, d := range ds {
			fmt.Fprintf(&sb, "%d:%s ", d.ID, d.String())
		}
		op.Out = sb.String()
	case "write":
		res, err := coll.UpdateOne(ctx, key, bson.D{{Key: "$set", Value: bson.D{{Key: "v", Value: op.ID}, {Key: "last", Value: op.ID}}}}, options.Update().SetUpsert(true))
		if err != nil {
			fail(err)
			return
		}
		op.Out = fmt.Sprintf("matched=%d upserted=%d", res.MatchedCount, res.UpsertedCount)
		op.effect = true
	case "inc":
		var d c04Doc
		err := coll.FindOneAndUpdate(ctx, key, bson.D{{Key: "$inc", Value: bson.D{{Key: "n", Value: int64(1)}}}, {Key: "$set", Value: bson.D{{Key: "last", Value: op.ID}}}},
			options.FindOneAndUpdate().SetUpsert(true).SetReturnDocument(options.After)).Decode(&d)
		if err != nil {
			fail(err)
			return
		}
		op.Out = fmt.Sprintf("n=%d", d.N)
		op.effect = true
	case "cas":
		res, err := coll.UpdateOne(ctx, bson.D{{Key: "_id", Value: int32(op.Key)}, {Key: "v", Value: op.Old}}, bson.D{{Key: "$set", Value: bson.D{{Key: "v", Value: op.ID}, {Key: "last", Value: op.ID}}}})
		if err != nil {
			fail(err)
			return
		}
		op.Out = fmt.Sprintf("matched=%d", res.MatchedCount)
		op.effect = res.MatchedCount == 1
	case "append":
		res, err := coll.UpdateOne(ctx, key, bson.D{{Key: "$push", Value: bson.D{{Key: "log", Value: op.ID}}}, {Key: "$set", Value: bson.D{{Key: "last", Value: op.ID}}}}, options.Update().SetUpsert(true))
		if err != nil {
			fail(err)
			return
		}
		op.Out = fmt.Sprintf("matched=%d upserted=%d", res.MatchedCount, res.UpsertedCount)
		op.effect = true
	case "delete":
		var d c04Doc
		err := coll.FindOneAndDelete(ctx, key).Decode(&d)
		switch {
		case errors.Is(err, lungo.ErrNoDocuments):
			op.Out = "none"
		case err != nil:
			fail(err)
		default:
			op.Out = "deleted " + d.String()
			op.effect = true
		}
	case "rmw", "transfer":
		sess, err := client.StartSession()
		if err != nil {
			fail(err)
			return
		}
		defer sess.EndSession(ctx)
		if err := sess.StartTransaction(); err != nil {
			fail(err)
			return
		}
		var out string
		err = lungo.WithSession(ctx, sess, func(sc lungo.ISessionContext) error {
			if op.Key%2 == 0 {
				// every second transaction first writes another collection, so
				// that its later steps run in a transaction that is already dirty
				// (the journal's events are not attributed below)
				if _, err := client.Database("d").Collection(c04Journal).InsertOne(sc, bson.D{{Key: "_id", Value: op.ID}}); err != nil {
					return err
				}
			}
			if op.Kind == "rmw" {
				var d c04Doc
				err := coll.FindOne(sc, key).Decode(&d)
				if err != nil && !errors.Is(err, lungo.ErrNoDocuments) {
					return err
				}
				runtime.Gosched()
				if _, err = coll.UpdateOne(sc, key, bson.D{{Key: "$set", Value: bson.D{{Key: "n", Value: d.N + 1}, {Key: "last", Value: op.ID}}}}, options.Update().SetUpsert(true)); err != nil {
					return err
				}
				// a second step in the same transaction: the read must see the first write
				var d2 c04Doc
				if err := coll.FindOne(sc, key).Decode(&d2); err != nil {
					return err
				}
				out = fmt.Sprintf("read n=%d,%d", d.N, d2.N)
				_, err = coll.UpdateOne(sc, key, bson.D{{Key: "$set", Value: bson.D{{Key: "n", Value: d2.N + 1}}}})
				return err
			}
			var a, b c04Doc
			k2 := bson.D{{Key: "_id", Value: int32(op.Key2)}}
			if err := coll.FindOne(sc, key).Decode(&a); err != nil {
				return err
			}
			if err := coll.FindOne(sc, k2).Decode(&b); err != nil {
				return err
			}
			out = fmt.Sprintf("read bal=%d,%d", a.Bal, b.Bal)
			amt := int64(1 + op.Key%3)
			if _, err := coll.UpdateOne(sc, key, bson.D{{Key: "$inc", Value: bson.D{{Key: "bal", Value: -amt}}}, {Key: "$set", Value: bson.D{{Key: "last", Value: op.ID}}}}); err != nil {
				return err
			}
			runtime.Gosched()
			_, err := coll.UpdateOne(sc, k2, bson.D{{Key: "$inc", Value: bson.D{{Key: "bal", Value: amt}}}, {Key: "$set", Value: bson.D{{Key: "last", Value: op.ID}}}})
			return err
		})
		if err != nil {
			sess.AbortTransaction(ctx)
			fail(err)
			return
		}
		if op.Abort {
			sess.AbortTransaction(ctx)
			op.Out = out + " aborted"
			return
		}
		if err := sess.CommitTransaction(ctx); err != nil {
			fail(err)
			return
		}
		op.Out = out + " committed"
		op.effect = true
	}
}

func c04Setup(ctx context.Context, client lungo.IClient, keys int, bank bool) error {
	coll := client.Database("d").Collection(c04Coll)
	for k := 0; k < keys; k++ {
		if !bank && k%2 == 1 {
			continue // register profile: some keys start absent
		}
		_, err := coll.InsertOne(ctx, bson.D{{Key: "_id", Value: int32(k)}, {Key: "v", Value: "init"}, {Key: "n", Value: int64(0)}, {Key: "log", Value: bson.A{}}, {Key: "bal", Value: int64(100)}, {Key: "last", Value: "init"}})
		if err != nil {
			return err
		}
	}
	return nil
}

func runC04(c *fw.Ctx) {
	c04Hammer(c)
	n := c.N(160, 1600) / c.NBatches
	for q := 0; q < n; q++ {
		idx := c.Batch*n + q
		if c.Skip(idx) {
			continue
		}
		r := c.Rand(idx)
		c.Case(idx, nil, nil, func() {
			c.Eval(1)
			c04History(c, r, idx)
		})
		if c.Violations() > 10 {
			return
		}
	}
}

func c04History(c *fw.Ctx, r *fw.Rand, idx int) {
	procs := []int{2, 4, 16}[idx%3]
	prev := runtime.GOMAXPROCS(procs)
	defer runtime.GOMAXPROCS(prev)
	ctx := context.Background()
	w, err := openWorld("")
	if err != nil {
		c.Inconclusive("open engine: " + err.Error())
		return
	}
	defer w.close()
	bank := idx%2 == 0
	keys := r.Range(3, 5)
	if err := c04Setup(ctx, w.client, keys, bank); err != nil {
		c.Inconclusive("setup: " + err.Error())
		return
	}
	setupEvents := len(oplogEvents(w.engine.Catalog()))
	var clock atomic.Int64
	ctl := sched.New(&clock)
	ctl.Random = true
	nclients := r.Range(4, 12)
	perClient := c.N(90, 120) / nclients
	// one directed hold between two clients over out-of-lock points
	outPts := []string{"begin.unlocked", "begin.acquired", "session.start.reserved", "session.start.begun"}
	hn := idx / 3
	ctl.SetHold(sched.Hold{Actor: hn % nclients, Point: outPts[(hn/nclients)%len(outPts)], UntilActor: (hn%nclients + 1) % nclients, UntilPoint: fw.Pick(r, []string{"commit.before_publish", "begin.acquired", "token.release", "commit.before_store"}), Timeout: 20 * time.Millisecond})
	ctl.Install()
	defer sched.Remove()
	ops := make([][]*c04Op, nclients)
	seeds := make([]*fw.Rand, nclients)
	for i := range seeds {
		seeds[i] = r.Fork()
	}
	var wg sync.WaitGroup
	for cl := 0; cl < nclients; cl++ {
		wg.Add(1)
		go func(cl int) {
			defer wg.Done()
			ctl.Register(cl, uint64(cl)*2654435761+7)
			rr := seeds[cl]
			lastSeen := map[int]string{}
			for j := 0; j < perClient; j++ {
				op := &c04Op{ID: fmt.Sprintf("c%d-%d", cl, j), Client: cl, Key: rr.Intn(keys)}
				if bank {
					switch x := rr.Intn(10); {
					case x < 3:
						op.Kind = "transfer"
						op.Key2 = (op.Key + 1 + rr.Intn(keys-1)) % keys
						op.Abort = rr.Chance(1, 4)
					case x < 5:
						op.Kind = "readall"
					case x < 7:
						op.Kind = "inc"
					case x < 9:
						op.Kind = "rmw"
						op.Abort = rr.Chance(1, 5)
					default:
						op.Kind = "read"
					}
				} else {
					switch x := rr.Intn(12); {
					case x < 3:
						op.Kind = "read"
					case x < 5:
						op.Kind = "write"
					case x < 7:
						op.Kind = "cas"
						op.Old = lastSeen[op.Key]
						if op.Old == "" {
							op.Old = "init"
						}
					case x < 9:
						op.Kind = "inc"
					case x < 10:
						op.Kind = "append"
					case x < 11:
						op.Kind = "delete"
					default:
						op.Kind = "readall"
					}
				}
				op.Inv = clock.Add(1)
				c04Exec(ctx, w.client, op)
				op.Ret = clock.Add(1)
				if op.Kind == "read" && strings.HasPrefix(op.Out, "{v=") {
					lastSeen[op.Key] = strings.SplitN(op.Out[3:], " ", 2)[0]
				}
				if op.Kind == "write" || (op.Kind == "cas" && op.effect) {
					lastSeen[op.Key] = op.ID
				}
				ops[cl] = append(ops[cl], op)
			}
		}(cl)
	}
	done := make(chan struct{})
	go func() { wg.Wait(); close(done) }()
	select {
	case <-done:
	case <-time.After(90 * time.Second):
		c.Inconclusive("history watchdog fired (clients did not finish within 90 s): " + firstFrames(fullDump(), 60))
		return
	}
	var all []*c04Op
	for _, l := range ops {
		all = append(all, l...)
	}
	c.Count("histories", 1)
	c.Count("calls_recorded", int64(len(all)))
	c.Count("hook_events", int64(len(ctl.Events())))
	witness := func(extra map[string]interface{}) interface{} {
		sorted := append([]*c04Op{}, all...)
		sort.Slice(sorted, func(i, j int) bool { return sorted[i].Inv < sorted[j].Inv })
		m := map[string]interface{}{"history": sorted, "keys": keys, "clients": nclients, "gomaxprocs": procs, "bank_profile": bank}
		for k, v := range extra {
			m[k] = v
		}
		return m
	}
	for _, op := range all {
		if op.Err != "" {
			c.Violate("serial:unexpected-error", fmt.Sprintf("call %s (%s key %d) failed: %s", op.ID, op.Kind, op.Key, op.Err), witness(nil))
			return
		}
	}
	if mx := ctl.MaxHolders.Load(); mx > 1 {
		c.Violate("token:two-holders", fmt.Sprintf("the hook trace shows %d simultaneous holders of the writer slot", mx), witness(map[string]interface{}{"hook_trace": ctl.TraceStrings(80)}))
		return
	}
	if ctl.MinHolders.Load() < 0 {
		c.Violate("token:released-twice", "the hook trace shows a release of the writer slot without acquisition", witness(nil))
		return
	}
	// overlap statistics
	overlap := int64(0)
	for i, a := range all {
		for _, b := range all[i+1:] {
			if a.Client != b.Client && a.Inv < b.Ret && b.Inv < a.Ret && (a.Key == b.Key || a.Kind == "readall" || b.Kind == "readall") {
				overlap++
			}
		}
	}
	c.Count("overlapping_pairs", overlap)

	if !c04CommitOrder(c, ctx, w, all, keys, bank, setupEvents, witness) {
		return
	}
	if !c04Porcupine(c, all, bank, witness) {
		return
	}
	if !c04Conservation(c, ctx, w, all, keys, bank, witness) {
		return
	}
	committed := 0
	for _, op := range all {
		if (op.Kind == "transfer" || op.Kind == "rmw") && op.effect {
			committed++
		}
	}
	c.Count("transactions_committed", int64(committed))
	if overlap > 0 && (committed > 0 || !bank) {
		var sb strings.Builder
		for _, op := range all {
			fmt.Fprintf(&sb, "%s%d%d%d%s;", op.Kind, op.Key, op.Inv, op.Ret, op.Out)
		}
		c.Nontrivial(fw.Hash64([]byte(sb.String())))
		if c.WantSample() {
			sorted := append([]*c04Op{}, all...)
			sort.Slice(sorted, func(i, j int) bool { return sorted[i].Inv < sorted[j].Inv })
			if len(sorted) > 14 {
				sorted = sorted[:14]
			}
			c.Sample(map[string]interface{}{"first_calls": sorted, "clients": nclients, "keys": keys, "gomaxprocs": procs, "overlapping_pairs": overlap, "distinct_hook_interleaving": ctl.InterleavingHash()})
		}
	}
}

// c04CommitOrder: oracle 1.
func c04CommitOrder(c *fw.Ctx, ctx context.Context, w *world, all []*c04Op, keys int, bank bool, setupEvents int, witness func(map[string]interface{}) interface{}) bool {
	byID := map[string]*c04Op{}
	for _, op := range all {
		byID[op.ID] = op
	}
	var evs []bson.D
	for _, ev := range oplogEvents(w.engine.Catalog())[setupEvents:] {
		if coll, _ := ref.GetPath(ev, "ns.coll").(string); coll == c04Journal {
			continue
		}
		evs = append(evs, ev)
	}
	// attribute events to calls
	var order []*c04Op
	firstPos := map[string]int{}
	lastPos := map[string]int{}
	count := map[string]int{}
	prevTag := map[int32]string{} // last tag per key
	for k := 0; k < keys; k++ {
		if bank || k%2 == 0 {
			prevTag[int32(k)] = "init"
		}
	}
	for p, ev := range evs {
		typ, _ := ref.GetPath(ev, "operationType").(string)
		id, _ := ref.GetPath(ev, "documentKey._id").(int32)
		var opid string
		if typ == "delete" {
			// the delete that returned the version tagged prevTag[id]
			for _, op := range all {
				if op.Kind == "delete" && op.effect && op.Key == int(id) && strings.Contains(op.Out, "last="+prevTag[id]+"}") && count[op.ID] == 0 {
					opid = op.ID
					break
				}
			}
			prevTag[id] = ""
		} else {
			opid, _ = ref.GetPath(ev, "fullDocument.last").(string)
			prevTag[id] = opid
		}
		op := byID[opid]
		if op == nil {
			c.Violate("serial:unattributed-event", fmt.Sprintf("change-log event %d (%s of key %d, tag %q) belongs to no recorded acknowledged call", p, typ, id, opid), witness(map[string]interface{}{"event": gen.JSON(ev)}))
			return false
		}
		if count[opid] == 0 {
			firstPos[opid] = p
			order = append(order, op)
		} else if lastPos[opid] != p-1 {
			c.Violate("serial:interleaved-transaction", fmt.Sprintf("the events of call %s are not contiguous in the change log (another call's event lies between them)", opid), witness(nil))
			return false
		}
		lastPos[opid] = p
		count[opid]++
	}
	// acknowledged effects must be logged exactly
	for _, op := range all {
		want := 0
		if op.effect {
			want = 1
			if op.Kind == "transfer" || op.Kind == "rmw" {
				want = 2
			}
		}
		if count[op.ID] != want {
			c.Violate("serial:acknowledged-write-vs-log", fmt.Sprintf("call %s (%s key %d) returned %q but the change log holds %d events of it (expected %d): a lost or phantom write", op.ID, op.Kind, op.Key, op.Out, count[op.ID], want), witness(nil))
			return false
		}
	}
	// real time: a call that returned before another was invoked comes first
	for i := range order {
		for j := i + 1; j < len(order); j++ {
			if order[j].Ret < order[i].Inv {
				c.Violate("serial:real-time-order", fmt.Sprintf("call %s returned before call %s was invoked, but the change log orders %s first", order[j].ID, order[i].ID, order[i].ID), witness(nil))
				return false
			}
		}
	}
	// replay on a fresh single-threaded engine
	rw, err := openWorld("")
	if err != nil {
		c.Inconclusive("open replay engine: " + err.Error())
		return true
	}
	defer rw.close()
	if err := c04Setup(ctx, rw.client, keys, bank); err != nil {
		c.Inconclusive("replay setup: " + err.Error())
		return true
	}
	pos := map[string]int{} // 1-based position among the effectful calls
	for i, op := range order {
		pos[op.ID] = i + 1
	}
	type pending struct {
		op     *c04Op
		lo, hi int
		ok     bool
	}
	var pend []*pending
	for _, op := range all {
		if count[op.ID] > 0 {
			continue
		}
		p := &pending{op: op, lo: 0, hi: len(order)}
		for i, e := range order {
			if e.Ret < op.Inv && i+1 > p.lo {
				p.lo = i + 1
			}
			if e.Inv > op.Ret && i < p.hi {
				p.hi = i
			}
		}
		pend = append(pend, p)
	}
	for k := 0; k <= len(order); k++ {
		for _, p := range pend {
			if p.ok || k < p.lo || k > p.hi {
				continue
			}
			cp := *p.op
			cp.Out, cp.Err = "", ""
			if cp.Kind == "rmw" || cp.Kind == "transfer" {
				c04Exec(ctx, rw.client, &cp) // aborts itself
			} else {
				// evaluate without side effects: inside a transaction that is aborted
				// (a compare-and-set that failed in the run may match at another prefix)
				if err := rw.begin(); err != nil {
					c.Inconclusive("replay: cannot start a probe transaction: " + err.Error())
					return true
				}
				c04Exec(rw.ctx(), rw.client, &cp)
				rw.abort()
			}
			if cp.Out == p.op.Out {
				p.ok = true
				c.Count("reads_placed", 1)
			}
		}
		if k == len(order) {
			break
		}
		e := order[k]
		cp := *e
		cp.Out, cp.Err = "", ""
		c04Exec(ctx, rw.client, &cp)
		c.Count("effectful_replayed", 1)
		if cp.Out != e.Out {
			c.Violate("serial:result-differs-from-serial-execution", fmt.Sprintf("replaying the committed calls one at a time in change-log order, call %s (%s key %d, position %d) returns %q but the concurrent run returned %q", e.ID, e.Kind, e.Key, k+1, cp.Out, e.Out), witness(nil))
			return false
		}
	}
	for _, p := range pend {
		if !p.ok {
			c.Violate("serial:read-not-at-any-prefix", fmt.Sprintf("call %s (%s key %d) returned %q; no committed prefix between positions %d and %d of the change-log order (its real-time window) yields that result", p.op.ID, p.op.Kind, p.op.Key, p.op.Out, p.lo, p.hi), witness(nil))
			return false
		}
	}
	// final contents
	a, b := contentsOf(w.engine.Catalog()), contentsOf(rw.engine.Catalog())
	if d := a.diff(b); d != "" {
		c.Violate("serial:final-state-differs", "the final contents differ from replaying the committed calls in change-log order: "+d, witness(nil))
		return false
	}
	return true
}

// ---------------------------------------------------------------------------
// oracle 2: porcupine on single-key operations

type c04In struct {
	Kind, ID, Old string
	Key           int
	Abort         bool
}

type c04State struct {
	Exists bool
	V      string
	N      int64
	Log    string
	Bal    int64
	Last   string
}

func (s c04State) doc() string {
	return fmt.Sprintf("{v=%s n=%d log=%s bal=%d last=%s}", s.V, s.N, s.Log, s.Bal, s.Last)
}

func c04Step(state, input, output interface{}) (bool, interface{}) {
	s := state.(c04State)
	in := input.(c04In)
	out := output.(string)
	switch in.Kind {
	case "read":
		if !s.Exists {
			return out == "none", s
		}
		return out == s.doc(), s
	case "write":
		want := "matched=1 upserted=0"
		if !s.Exists {
			want = "matched=0 upserted=1"
			s = c04State{Exists: true}
		}
		s.V, s.Last = in.ID, in.ID
		return out == want, s
	case "inc":
		if !s.Exists {
			s = c04State{Exists: true}
		}
		s.N++
		s.Last = in.ID
		return out == fmt.Sprintf("n=%d", s.N), s
	case "cas":
		if s.Exists && s.V == in.Old {
			s.V, s.Last = in.ID, in.ID
			return out == "matched=1", s
		}
		return out == "matched=0", s
	case "append":
		want := "matched=1 upserted=0"
		if !s.Exists {
			want = "matched=0 upserted=1"
			s = c04State{Exists: true}
		}
		if s.Log == "" {
			s.Log = in.ID
		} else {
			s.Log += "," + in.ID
		}
		s.Last = in.ID
		return out == want, s
	case "delete":
		if !s.Exists {
			return out == "none", s
		}
		want := "deleted " + s.doc()
		return out == want, c04State{}
	case "rmw":
		n := s.N
		if in.Abort {
			return out == fmt.Sprintf("read n=%d,%d aborted", n, n+1), s
		}
		if !s.Exists {
			s = c04State{Exists: true}
		}
		s.N = n + 2
		s.Last = in.ID
		return out == fmt.Sprintf("read n=%d,%d committed", n, n+1), s
	}
	return false, s
}

func c04Porcupine(c *fw.Ctx, all []*c04Op, bank bool, witness func(map[string]interface{}) interface{}) bool {
	if bank {
		// transfers change two keys at once; the bank profile is judged by the
		// commit-order replay and the conservation oracle
		return true
	}
	byKey := map[int][]porcupine.Operation{}
	for _, op := range all {
		if op.Kind == "readall" {
			continue
		}
		byKey[op.Key] = append(byKey[op.Key], porcupine.Operation{ClientId: op.Client, Input: c04In{Kind: op.Kind, ID: op.ID, Old: op.Old, Key: op.Key, Abort: op.Abort}, Call: op.Inv, Output: op.Out, Return: op.Ret})
	}
	for k, ops := range byKey {
		init := c04State{}
		if k%2 == 0 {
			init = c04State{Exists: true, V: "init", Bal: 100, Last: "init"}
		}
		model := porcupine.Model{
			Init:  func() interface{} { return init },
			Step:  c04Step,
			Equal: func(a, b interface{}) bool { return a.(c04State) == b.(c04State) },
		}
		res, _ := porcupine.CheckOperationsVerbose(model, ops, 60*time.Second)
		switch res {
		case porcupine.Ok:
			c.Count("porcupine_ok", 1)
		case porcupine.Illegal:
			c.Violate("linearizability:key-history-illegal", fmt.Sprintf("the operations on key %d are not linearizable against the sequential register/counter/list model (porcupine)", k), witness(map[string]interface{}{"key": k}))
			return false
		default:
			c.Count("porcupine_unknown", 1)
			c.Inconclusive(fmt.Sprintf("porcupine timed out on key %d (%d operations)", k, len(ops)))
		}
	}
	return true
}

// ---------------------------------------------------------------------------
// oracle 3: conservation / exactly-once

func c04Conservation(c *fw.Ctx, ctx context.Context, w *world, all []*c04Op, keys int, bank bool, witness func(map[string]interface{}) interface{}) bool {
	coll := w.client.Database("d").Collection(c04Coll)
	cur, err := coll.Find(ctx, bson.D{})
	if err != nil {
		return true
	}
	var final []c04Doc
	cur.All(ctx, &final)
	if bank {
		// every snapshot read shows the same balance sum
		for _, op := range all {
			if op.Kind != "readall" {
				continue
			}
			c.Count("snapshot_reads_checked", 1)
			sum, n := int64(0), 0
			for _, part := range strings.Fields(op.Out) {
				if i := strings.Index(part, "bal="); i >= 0 {
					var b int64
					fmt.Sscanf(part[i:], "bal=%d", &b)
					sum += b
					n++
				}
			}
			if n != keys || sum != int64(100*keys) {
				c.Violate("conservation:snapshot-sum", fmt.Sprintf("a snapshot read (%s) saw %d accounts with a balance sum of %d (must be %d accounts, sum %d): it observed half of a transfer", op.ID, n, sum, keys, 100*keys), witness(nil))
				return false
			}
		}
		// counters: acknowledged increments
		want := map[int]int64{}
		for _, op := range all {
			if op.Kind == "inc" && op.effect {
				want[op.Key]++
			}
			if op.Kind == "rmw" && op.effect {
				want[op.Key] += 2
			}
		}
		for _, d := range final {
			if d.N != want[int(d.ID)] {
				c.Violate("conservation:lost-update", fmt.Sprintf("the counter of key %d is %d after %d acknowledged increments (plain and read-modify-write transactions)", d.ID, d.N, want[int(d.ID)]), witness(nil))
				return false
			}
		}
	} else {
		for _, op := range all {
			if op.Kind == "readall" {
				c.Count("snapshot_reads_checked", 1)
			}
		}
	}
	// appended ids appear at most once; acknowledged appends since the last delete are all present
	for _, d := range final {
		seen := map[string]bool{}
		for _, id := range d.Log {
			if seen[id] {
				c.Violate("conservation:duplicate-append", fmt.Sprintf("id %s appears twice in the list of key %d", id, d.ID), witness(nil))
				return false
			}
			seen[id] = true
		}
	}
	return true
}

// ---------------------------------------------------------------------------
// lost-update hammer

// c04Queue: a priority queue worked on by claimers (FindOneAndUpdate
// ready -> running, sorted) and cancellers (FindOneAndDelete of a ready job,
// sorted), all auto-committed and concurrent. Each call is a read-modify-write
// on the first matching document: the document it returns must have matched
// its filter (state ready), and every job ends up claimed or cancelled, never
// both, never twice.
func c04Queue(c *fw.Ctx) {
	if c.Batch >= 8 {
		return
	}
	idx := 9800100 + c.Batch
	if c.Skip(idx) {
		return
	}
	c.Case(idx, nil, nil, func() {
		c.Eval(1)
		ctx := context.Background()
		w, err := openWorld("")
		if err != nil {
			c.Inconclusive("open engine: " + err.Error())
			return
		}
		defer w.close()
		ctl := sched.New(nil)
		ctl.Random = true
		ctl.Install()
		defer sched.Remove()
		jobs := c.N(240, 1200)
		coll := w.client.Database("d").Collection("jobs")
		var docs []interface{}
		for i := 0; i < jobs; i++ {
			docs = append(docs, bson.D{{Key: "_id", Value: int32(i)}, {Key: "state", Value: "ready"}, {Key: "prio", Value: int32((i * 7) % 13)}})
		}
		if _, err := coll.InsertMany(ctx, docs); err != nil {
			c.Inconclusive("setup: " + err.Error())
			return
		}
		type job struct {
			ID    int32  `bson:"_id"`
			State string `bson:"state"`
		}
		var mu sync.Mutex
		claimed, cancelled := map[int32]int{}, map[int32]int{}
		var bad atomic.Value
		var wg sync.WaitGroup
		workers := 8
		for g := 0; g < workers; g++ {
			wg.Add(1)
			go func(g int) {
				defer wg.Done()
				ctl.Register(g, uint64(g)+101)
				sortDoc := bson.D{{Key: "prio", Value: int32(1)}, {Key: "_id", Value: int32(1)}}
				if g%4 >= 2 {
					sortDoc = bson.D{{Key: "prio", Value: int32(-1)}}
				}
				for {
					var j job
					var err error
					if g%2 == 0 {
						err = coll.FindOneAndUpdate(ctx, bson.D{{Key: "state", Value: "ready"}}, bson.D{{Key: "$set", Value: bson.D{{Key: "state", Value: "running"}, {Key: "by", Value: int32(g)}}}}, options.FindOneAndUpdate().SetSort(sortDoc)).Decode(&j)
					} else {
						err = coll.FindOneAndDelete(ctx, bson.D{{Key: "state", Value: "ready"}}, options.FindOneAndDelete().SetSort(sortDoc)).Decode(&j)
					}
					if errors.Is(err, lungo.ErrNoDocuments) {
						return
					}
					if err != nil {
						bad.CompareAndSwap(nil, "a queue call failed: "+err.Error())
						return
					}
					if j.State != "ready" {
						kind := "FindOneAndUpdate"
						if g%2 == 1 {
							kind = "FindOneAndDelete"
						}
						bad.CompareAndSwap(nil, fmt.Sprintf("%s({state: ready}) acted on and returned job %d in state %q: a concurrent write was overwritten", kind, j.ID, j.State))
						return
					}
					mu.Lock()
					if g%2 == 0 {
						claimed[j.ID]++
					} else {
						cancelled[j.ID]++
					}
					mu.Unlock()
				}
			}(g)
		}
		wg.Wait()
		c.Count("queue_jobs", int64(jobs))
		c.Count("hammer_increments", int64(len(claimed)+len(cancelled)))
		if p := bad.Load(); p != nil {
			c.Violate("queue:overwritten", p.(string), nil)
			return
		}
		for i := 0; i < jobs; i++ {
			id := int32(i)
			if claimed[id]+cancelled[id] != 1 {
				c.Violate("queue:not-exactly-once", fmt.Sprintf("job %d was claimed %d times and cancelled %d times", id, claimed[id], cancelled[id]), nil)
				return
			}
		}
		n, _ := coll.CountDocuments(ctx, bson.D{})
		r, _ := coll.CountDocuments(ctx, bson.D{{Key: "state", Value: "running"}})
		if int(n) != len(claimed) || int(r) != len(claimed) {
			c.Violate("queue:contents", fmt.Sprintf("%d jobs were claimed and %d cancelled, but the collection holds %d documents (%d running)", len(claimed), len(cancelled), n, r), nil)
		}
	})
}

func c04Hammer(c *fw.Ctx) {
	c04Queue(c)
	if c.Batch >= 8 {
		return
	}
	idx := 9800000 + c.Batch
	if c.Skip(idx) {
		return
	}
	c.Case(idx, nil, nil, func() {
		c.Eval(1)
		ctx := context.Background()
		w, err := openWorld("")
		if err != nil {
			c.Inconclusive("open engine: " + err.Error())
			return
		}
		defer w.close()
		ctl := sched.New(nil)
		ctl.Random = true
		ctl.Install()
		defer sched.Remove()
		coll := w.client.Database("d").Collection("ctr")
		coll.InsertOne(ctx, bson.D{{Key: "_id", Value: "plain"}, {Key: "n", Value: int64(0)}})
		coll.InsertOne(ctx, bson.D{{Key: "_id", Value: "rmw"}, {Key: "n", Value: int64(0)}})
		coll.InsertOne(ctx, bson.D{{Key: "_id", Value: "marker"}, {Key: "v", Value: int32(1)}})
		var trailingNoops atomic.Int64
		workers := c.N(8, 16)
		per := c.N(60, 500)
		var acked, ackedRMW atomic.Int64
		var wg sync.WaitGroup
		for g := 0; g < workers; g++ {
			wg.Add(1)
			go func(g int) {
				defer wg.Done()
				ctl.Register(g, uint64(g)+11)
				for i := 0; i < per; i++ {
					if _, err := coll.UpdateOne(ctx, bson.D{{Key: "_id", Value: "plain"}}, bson.D{{Key: "$inc", Value: bson.D{{Key: "n", Value: int64(1)}}}}); err == nil {
						acked.Add(1)
					}
					if i%3 == 0 {
						sess, err := w.client.StartSession()
						if err != nil {
							continue
						}
						_, err = sess.WithTransaction(ctx, func(sc lungo.ISessionContext) (interface{}, error) {
							var d struct {
								N int64 `bson:"n"`
							}
							if err := coll.FindOne(sc, bson.D{{Key: "_id", Value: "rmw"}}).Decode(&d); err != nil {
								return nil, err
							}
							runtime.Gosched()
							_, err := coll.UpdateOne(sc, bson.D{{Key: "_id", Value: "rmw"}}, bson.D{{Key: "$set", Value: bson.D{{Key: "n", Value: d.N + 1}}}})
							if err != nil {
								return nil, err
							}
							// the transaction ends with a call that changes nothing (same
							// content, no match): its earlier write must still be committed
							switch (i / 3) % 6 {
							case 1:
								_, err = coll.ReplaceOne(sc, bson.D{{Key: "_id", Value: "marker"}}, bson.D{{Key: "v", Value: int32(1)}})
							case 2:
								_, err = coll.UpdateOne(sc, bson.D{{Key: "_id", Value: "marker"}}, bson.D{{Key: "$set", Value: bson.D{{Key: "v", Value: int32(1)}}}})
							case 3:
								_, err = coll.DeleteOne(sc, bson.D{{Key: "_id", Value: "no such document"}})
							case 4:
								err = coll.FindOneAndReplace(sc, bson.D{{Key: "_id", Value: "no such document"}}, bson.D{{Key: "v", Value: int32(2)}}).Err()
								if errors.Is(err, lungo.ErrNoDocuments) {
									err = nil
								}
							case 5:
								_, err = coll.UpdateMany(sc, bson.D{{Key: "v", Value: int32(77)}}, bson.D{{Key: "$inc", Value: bson.D{{Key: "v", Value: int32(1)}}}})
							}
							trailingNoops.Add(1)
							return nil, err
						})
						if err == nil {
							ackedRMW.Add(1)
						}
						sess.EndSession(ctx)
					}
				}
			}(g)
		}
		wg.Wait()
		c.Count("hammer_increments", acked.Load()+ackedRMW.Load())
		c.Count("transactions_ending_with_a_noop", trailingNoops.Load())
		var d struct {
			N int64 `bson:"n"`
		}
		coll.FindOne(ctx, bson.D{{Key: "_id", Value: "plain"}}).Decode(&d)
		if d.N != acked.Load() {
			c.Violate("hammer:lost-update", fmt.Sprintf("%d acknowledged $inc calls from %d goroutines left the counter at %d", acked.Load(), workers, d.N), nil)
			return
		}
		coll.FindOne(ctx, bson.D{{Key: "_id", Value: "rmw"}}).Decode(&d)
		if d.N != ackedRMW.Load() {
			c.Violate("hammer:lost-update", fmt.Sprintf("%d committed read-modify-write transactions from %d goroutines left the counter at %d", ackedRMW.Load(), workers, d.N), nil)
			return
		}
		if mx := ctl.MaxHolders.Load(); mx > 1 {
			c.Violate("token:two-holders", fmt.Sprintf("the hook trace shows %d simultaneous holders of the writer slot", mx), nil)
			return
		}
		// goroutines sharing one session transaction: each increments its own counter
		sess, err := w.client.StartSession()
		if err != nil {
			return
		}
		defer sess.EndSession(ctx)
		for round := 0; round < 3; round++ {
			if err := sess.StartTransaction(); err != nil {
				c.Violate("hammer:shared-start", "StartTransaction failed: "+err.Error(), nil)
				return
			}
			var sctx context.Context
			lungo.WithSession(ctx, sess, func(sc lungo.ISessionContext) error { sctx = sc; return nil })
			shared := w.client.Database("d").Collection("shared")
			nper := 40
			acks := make([]int64, workers)
			var delMu sync.Mutex
			var deleted []string
			taken := map[string]int{}
			// victims and queue entries exist before the transaction starts its writes
			var seedDocs []interface{}
			for g := 0; g < workers; g++ {
				for i := 0; i < nper; i++ {
					if i%4 == 1 {
						seedDocs = append(seedDocs, bson.D{{Key: "_id", Value: fmt.Sprintf("victim-%d-%d-%d", round, g, i)}})
					}
					if i%4 == 3 {
						seedDocs = append(seedDocs, bson.D{{Key: "_id", Value: fmt.Sprintf("queue-%d-%d-%d", round, g, i)}, {Key: "queue", Value: int32(round)}})
					}
				}
			}
			if _, err := shared.InsertMany(sctx, seedDocs); err != nil {
				c.Violate("hammer:shared-seed", "seeding inside the shared transaction failed: "+err.Error(), nil)
				return
			}
			var sg sync.WaitGroup
			for g := 0; g < workers; g++ {
				sg.Add(1)
				go func(g int) {
					defer sg.Done()
					for i := 0; i < nper; i++ {
						_, err := shared.UpdateOne(sctx, bson.D{{Key: "_id", Value: int32(g)}}, bson.D{{Key: "$inc", Value: bson.D{{Key: "n", Value: int64(1)}}}}, options.Update().SetUpsert(true))
						if err == nil {
							acks[g]++
						}
						if i%7 == 0 {
							shared.InsertOne(sctx, bson.D{{Key: "g", Value: int32(g)}, {Key: "i", Value: int32(i)}, {Key: "r", Value: int32(round)}})
						}
						// deletes inside the shared transaction: own victims by id, and a
						// common queue from which every document may be taken once
						if i%4 == 1 {
							vid := fmt.Sprintf("victim-%d-%d-%d", round, g, i)
							if res, err := shared.DeleteOne(sctx, bson.D{{Key: "_id", Value: vid}}); err == nil && res.DeletedCount == 1 {
								delMu.Lock()
								deleted = append(deleted, vid)
								delMu.Unlock()
							}
						}
						if i%4 == 3 {
							var qd struct {
								ID string `bson:"_id"`
							}
							if err := shared.FindOneAndDelete(sctx, bson.D{{Key: "queue", Value: int32(round)}}).Decode(&qd); err == nil {
								delMu.Lock()
								taken[qd.ID]++
								delMu.Unlock()
							}
						}
					}
				}(g)
			}
			sg.Wait()
			if err := sess.CommitTransaction(ctx); err != nil {
				c.Violate("hammer:shared-commit", "CommitTransaction failed: "+err.Error(), nil)
				return
			}
			// acknowledged deletes are gone, every queue entry was handed out at most once and is gone
			for _, vid := range deleted {
				if n, _ := shared.CountDocuments(ctx, bson.D{{Key: "_id", Value: vid}}); n != 0 {
					c.Violate("hammer:lost-delete-in-shared-transaction", fmt.Sprintf("DeleteOne of %s was acknowledged (DeletedCount=1) inside a session transaction shared by %d goroutines, but the document still exists after the commit", vid, workers), nil)
					return
				}
			}
			c.Count("hammer_increments", int64(len(deleted)+len(taken)))
			for id, n := range taken {
				if n > 1 {
					c.Violate("hammer:double-take-in-shared-transaction", fmt.Sprintf("FindOneAndDelete returned document %s %d times inside a shared session transaction", id, n), nil)
					return
				}
				if k, _ := shared.CountDocuments(ctx, bson.D{{Key: "_id", Value: id}}); k != 0 {
					c.Violate("hammer:lost-delete-in-shared-transaction", fmt.Sprintf("FindOneAndDelete returned %s inside a shared session transaction but the document still exists after the commit", id), nil)
					return
				}
			}
			for g := 0; g < workers; g++ {
				var d struct {
					N int64 `bson:"n"`
				}
				shared.FindOne(ctx, bson.D{{Key: "_id", Value: int32(g)}}).Decode(&d)
				want := int64(0)
				_ = want
				c.Count("hammer_increments", acks[g])
				if d.N != int64(round)*int64(nper)+acks[g] {
					c.Violate("hammer:lost-update-in-shared-transaction", fmt.Sprintf("goroutine %d made %d acknowledged increments inside a session transaction shared with %d goroutines (round %d); its counter is %d instead of %d", g, acks[g], workers, round, d.N, int64(round)*int64(nper)+acks[g]), nil)
					return
				}
			}
		}
	})
}
