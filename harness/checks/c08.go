package checks

import (
	"context"
	"fmt"
	"sort"
	"time"

	"github.com/256dpi/lungo"
	"github.com/256dpi/lungo/bsonkit"
	"go.mongodb.org/mongo-driver/bson"
	"go.mongodb.org/mongo-driver/bson/primitive"

	"verifharness/drv"
	"verifharness/fw"
	"verifharness/gen"
	"verifharness/mon"
	"verifharness/ref"
)

// C08 — the change log is a faithful, gap-free, ordered record.

func init() {
	fw.Register(&fw.Check{
		ID: "C08",
		Rule: "(a) seeded histories (all write kinds and update operators, multi-updates, bulk writes, failed calls, no-op writes, session transactions committed and aborted, collection and database drops); after every call the change log is read from the engine: ids strictly increasing, the log only grows by appending, the number and types of appended events are predicted from the call's outcome and the documents that actually changed " +
			"(error/no-op/abort -> none), replaying the events appended between observation points i<j (all pairs with j-i<=8 plus random long-range pairs and (0,j)) onto the contents at i must give the contents at j, and every update event's updatedFields/removedFields applied as $set/$unset to the previous version must give the new version up to field order; " +
			"(b) retention: Transaction.Clean on crafted change logs for the complete cross product length 0-12 x minSize 0-12 x maxSize 0-12 x minAge {0,5m} x maxAge {1h,3h} x every monotone age pattern over {2h,30m,2m}, expected removal = events that are beyond max size or max age and not protected by min size or min age (a prefix), and the same oracle after every commit of an engine opened on a pre-loaded store; " +
			"non-trivial history = contains an update event, a failed or no-op call and a multi-event call; distinct = hash of the executed call list",
		Assumptions: []string{"ages are generated at least 60 s away from every cutoff so that the oracle never reads the clock", "ref.Apply for $set/$unset (DESIGN.md 8.3)"},
		Batches:     func(tier string) int { return 16 },
		Require: func(tier string) map[string]int64 {
			return map[string]int64{"calls": 5000, "events_seen": 5000, "replay_pairs": 20000, "update_events_applied": 1000, "zero_event_calls": 1000, "aborted_txn": 30, "committed_txn": 30, "drop_events": 50,
				"retention_cases": 100000, "retention_removed_some": 10000, "retention_engine_commits": 200,
				"engine_txn_steps": 200, "directed_txn_aborted": 30, "directed_txn_committed": 50, "late_failures_in_txn": 60, "txn_outside_checks": 300}
		},
		Exhaustive: false,
		Run:        runC08,
	})
}

type contents map[string]map[string]string

func contentsOf(cat *lungo.Catalog) contents {
	out := contents{}
	for h, ns := range cat.Namespaces {
		if h[0] == lungo.Local {
			continue
		}
		if len(ns.Documents.List) == 0 {
			continue
		}
		m := map[string]string{}
		for _, d := range ns.Documents.List {
			id := ref.GetPath(*d, "_id")
			m[string(gen.ValueBytes(id))] = string(gen.Bytes(*d))
		}
		out[h.String()] = m
	}
	return out
}

func (c contents) clone() contents {
	out := contents{}
	for k, m := range c {
		n := make(map[string]string, len(m))
		for a, b := range m {
			n[a] = b
		}
		out[k] = n
	}
	return out
}

func (c contents) diff(o contents) string {
	keys := map[string]bool{}
	for k := range c {
		keys[k] = true
	}
	for k := range o {
		keys[k] = true
	}
	ks := []string{}
	for k := range keys {
		ks = append(ks, k)
	}
	sort.Strings(ks)
	for _, k := range ks {
		a, b := c[k], o[k]
		if len(a) == 0 && len(b) == 0 {
			continue
		}
		for id, d := range a {
			if e, ok := b[id]; !ok {
				return fmt.Sprintf("%s: document %s only in the first", k, decodeDoc(d))
			} else if e != d {
				return fmt.Sprintf("%s: document differs: %s vs %s", k, decodeDoc(d), decodeDoc(e))
			}
		}
		for id, d := range b {
			if _, ok := a[id]; !ok {
				return fmt.Sprintf("%s: document %s only in the second", k, decodeDoc(d))
			}
		}
	}
	return ""
}

// changed counts the (namespace, _id) pairs whose document differs.
func (c contents) changed(o contents) int {
	n := 0
	for k, a := range c {
		b := o[k]
		for id, d := range a {
			if e, ok := b[id]; !ok || e != d {
				n++
			}
		}
	}
	for k, b := range o {
		a := c[k]
		for id := range b {
			if _, ok := a[id]; !ok {
				n++
			}
		}
	}
	return n
}

func decodeDoc(s string) string {
	var d bson.D
	if bson.Unmarshal([]byte(s), &d) != nil {
		return "<undecodable>"
	}
	return gen.JSON(d)
}

// applyEvent replays one change event onto contents.
func applyEvent(st contents, ev bson.D) error {
	db, _ := ref.GetPath(ev, "ns.db").(string)
	coll, _ := ref.GetPath(ev, "ns.coll").(string)
	typ, _ := ref.GetPath(ev, "operationType").(string)
	ns := db + "." + coll
	switch typ {
	case "insert", "replace", "update":
		full, ok := ref.GetPath(ev, "fullDocument").(bson.D)
		if !ok {
			return fmt.Errorf("%s event without fullDocument", typ)
		}
		key := ref.GetPath(ev, "documentKey._id")
		if string(gen.ValueBytes(key)) != string(gen.ValueBytes(ref.GetPath(full, "_id"))) {
			return fmt.Errorf("%s event whose documentKey %s is not the _id of its fullDocument", typ, gen.JSON(key))
		}
		if st[ns] == nil {
			st[ns] = map[string]string{}
		}
		k := string(gen.ValueBytes(key))
		_, exists := st[ns][k]
		if typ == "insert" && exists {
			return fmt.Errorf("insert event for a document that already exists: %s", gen.JSON(key))
		}
		if typ != "insert" && !exists {
			return fmt.Errorf("%s event for a document that does not exist: %s", typ, gen.JSON(key))
		}
		st[ns][k] = string(gen.Bytes(full))
	case "delete":
		key := ref.GetPath(ev, "documentKey._id")
		k := string(gen.ValueBytes(key))
		if _, ok := st[ns][k]; !ok {
			return fmt.Errorf("delete event for a document that does not exist: %s", gen.JSON(key))
		}
		delete(st[ns], k)
	case "drop":
		delete(st, ns)
	case "dropDatabase":
		for k := range st {
			if len(k) > len(db) && k[:len(db)+1] == db+"." {
				delete(st, k)
			}
		}
	default:
		return fmt.Errorf("unknown operationType %q", typ)
	}
	return nil
}

func oplogEvents(cat *lungo.Catalog) []bson.D {
	ns := cat.Namespaces[lungo.Oplog]
	if ns == nil {
		return nil
	}
	out := make([]bson.D, len(ns.Documents.List))
	for i, d := range ns.Documents.List {
		out[i] = *d
	}
	return out
}

func eventID(ev bson.D) string { return string(gen.ValueBytes(ref.GetPath(ev, "_id"))) }

func runC08(c *fw.Ctx) {
	c08Retention(c)
	c08RetentionEngine(c)
	c08Transactions(c)
	nhist := c.N(480, 10000) / c.NBatches
	for q := 0; q < nhist; q++ {
		idx := c.Batch*nhist + q
		if c.Skip(idx) {
			continue
		}
		r := c.Rand(idx)
		var w *world
		describe := func() interface{} {
			if w == nil {
				return nil
			}
			return map[string]interface{}{"history": w.history()}
		}
		c.Case(idx, describe, nil, func() {
			c.Eval(1)
			var err error
			w, err = openWorld("")
			if w != nil {
				w.solo = true
			}
			if err != nil {
				c.Inconclusive("open engine: " + err.Error())
				return
			}
			defer w.close()
			c08History(c, w, r, c.N(70, 90))
		})
	}
}

type c08Obs struct {
	st    contents
	oplen int
}

func c08History(c *fw.Ctx, w *world, r *fw.Rand, steps int) {
	g := &drv.HistGen{R: r, O: drv.HistOpts{Profile: "mixed", DBs: []string{"d", "e"}, Colls: []string{"c1", "c2"}, RichDocs: true, Pool: gen.Core, TTL: true},
		Peek: w.peek, IndexNames: w.indexNames}
	witness := func(extra map[string]interface{}) interface{} {
		m := map[string]interface{}{"history": w.history()}
		for k, v := range extra {
			m[k] = v
		}
		return m
	}
	var callSig []byte
	obs := []c08Obs{{st: contents{}, oplen: 0}}
	running := contents{} // all events replayed from the start
	var seenIDs []string  // ids of the events observed so far (append-only check)
	sawUpdate, sawZero, sawMulti := false, false, false
	txnStartLen := 0
	observe := func(after string) bool {
		cat := w.engine.Catalog()
		evs := oplogEvents(cat)
		// append-only: the events seen before are still there, in place
		if len(evs) < len(seenIDs) {
			c.Violate("oplog:shrunk", fmt.Sprintf("after %s the change log has %d events, before it had %d (retention is configured far away)", after, len(evs), len(seenIDs)), witness(nil))
			return false
		}
		for i, id := range seenIDs {
			if eventID(evs[i]) != id {
				c.Violate("oplog:rewritten", fmt.Sprintf("after %s event %d of the change log is no longer the event recorded earlier", after, i), witness(nil))
				return false
			}
		}
		for _, p := range mon.CheckCatalog(cat, nil) {
			if p.NS == "local.oplog" {
				c.Violate("oplog:"+p.Kind, "after "+after+": "+p.String(), witness(nil))
				return false
			}
		}
		// replay the new events onto the running state, checking update descriptions
		for i := len(seenIDs); i < len(evs); i++ {
			ev := evs[i]
			c.Count("events_seen", 1)
			typ, _ := ref.GetPath(ev, "operationType").(string)
			c.Count("event:"+typ, 1)
			if typ == "drop" || typ == "dropDatabase" {
				c.Count("drop_events", 1)
			}
			if typ == "update" {
				sawUpdate = true
				if !c08UpdateDescription(c, running, ev, witness) {
					return false
				}
			}
			if err := applyEvent(running, ev); err != nil {
				c.Violate("oplog:unreplayable-event", fmt.Sprintf("after %s: %v (event %s)", after, err, gen.JSON(ev)), witness(nil))
				return false
			}
			seenIDs = append(seenIDs, eventID(ev))
		}
		now := contentsOf(cat)
		c.Count("replay_pairs", 1)
		if d := running.diff(now); d != "" {
			c.Violate("oplog:replay-from-start", "after "+after+": replaying the whole change log does not reproduce the contents: "+d, witness(nil))
			return false
		}
		// pairs (i, j): j is this observation
		j := len(obs)
		check := func(i int) bool {
			st := obs[i].st.clone()
			for k := obs[i].oplen; k < len(evs); k++ {
				if err := applyEvent(st, evs[k]); err != nil {
					c.Violate("oplog:unreplayable-event", fmt.Sprintf("replaying from observation %d to %d: %v", i, j, err), witness(nil))
					return false
				}
			}
			c.Count("replay_pairs", 1)
			if d := st.diff(now); d != "" {
				c.Violate("oplog:replay-pair", fmt.Sprintf("replaying the events appended between observation points %d and %d onto the contents at %d does not give the contents at %d: %s", i, j, i, j, d), witness(nil))
				return false
			}
			return true
		}
		for i := j - 1; i >= 0 && i >= j-8; i-- {
			if !check(i) {
				return false
			}
		}
		if j > 9 && r.Chance(1, 3) {
			if !check(r.Intn(j - 8)) {
				return false
			}
		}
		obs = append(obs, c08Obs{st: now, oplen: len(evs)})
		return true
	}

	for step := 0; step < steps; step++ {
		if !w.inTxn {
			if r.Chance(1, 15) {
				txnStartLen = mon.OplogLen(w.engine.Catalog())
				if err := w.begin(); err != nil {
					c.Violate("txn:begin", "StartTransaction failed: "+err.Error(), witness(nil))
					return
				}
				continue
			}
		} else if r.Chance(1, 6) {
			txnEvents := oplogEvents(w.cat())
			if r.Bool() {
				if err := w.commit(); err != nil {
					c.Violate("txn:commit", "CommitTransaction failed: "+err.Error(), witness(nil))
					return
				}
				c.Count("committed_txn", 1)
				// the committed log is exactly the transaction's log
				evs := oplogEvents(w.engine.Catalog())
				same := len(evs) == len(txnEvents)
				for i := 0; same && i < len(evs); i++ {
					same = eventID(evs[i]) == eventID(txnEvents[i])
				}
				if !same {
					c.Violate("oplog:commit-differs-from-transaction", fmt.Sprintf("after commit the change log has %d events, the transaction had recorded %d (or other ids)", len(evs), len(txnEvents)), witness(nil))
					return
				}
				if len(evs)-txnStartLen > 1 {
					sawMulti = true
				}
			} else {
				w.abort()
				c.Count("aborted_txn", 1)
				if n := mon.OplogLen(w.engine.Catalog()); n != txnStartLen {
					c.Violate("oplog:aborted-transaction-logged", fmt.Sprintf("an aborted transaction left %d events in the change log", n-txnStartLen), witness(nil))
					return
				}
				c.Count("zero_event_calls", 1)
			}
			if !observe("transaction end") {
				return
			}
			continue
		}
		if !w.inTxn && r.Chance(1, 25) {
			// an expiry pass (what the background goroutine does): every removed
			// document must be logged, the replay below notices a missing event
			t, err := w.engine.Begin(context.Background(), true)
			if err == nil {
				len0 := mon.OplogLen(t.Catalog())
				before := contentsOf(t.Catalog())
				if err := t.Expire(); err != nil {
					w.engine.Abort(t)
					c.Violate("oplog:expire-error", "the expiry pass failed: "+err.Error(), witness(nil))
					return
				}
				removed := before.changed(contentsOf(t.Catalog()))
				delta := mon.OplogLen(t.Catalog()) - len0
				w.engine.Commit(t)
				w.engine.Abort(t)
				w.note(fmt.Sprintf("-- expiry pass removed %d documents, logged %d events", removed, delta))
				c.Count("expiry_passes", 1)
				if removed != delta {
					c.Violate("oplog:event-count", fmt.Sprintf("an expiry pass removed %d documents but appended %d events", removed, delta), witness(nil))
					return
				}
				if !observe("expiry pass") {
					return
				}
			}
			continue
		}
		op := g.Next()
		if w.inTxn && (drv.IsIndexOp(op.Kind) || op.Kind == drv.CreateCollection || op.Kind == drv.DropCollection || op.Kind == drv.DropDatabase) {
			continue
		}
		cat0 := w.cat()
		before := contentsOf(cat0)
		len0 := mon.OplogLen(cat0)
		nsExisted := cat0.Namespaces[lungo.Handle{op.DB, op.Coll}] != nil
		dbNS := 0
		for h := range cat0.Namespaces {
			if h[0] == op.DB {
				dbNS++
			}
		}
		res := w.exec(&op)
		if res.Panic != "" {
			return
		}
		c.Count("calls", 1)
		callSig = append(callSig, []byte(op.String())...)
		cat1 := w.cat()
		after := contentsOf(cat1)
		evs := oplogEvents(cat1)
		delta := len(evs) - len0
		changed := before.changed(after)
		want, exact := -1, true
		switch op.Kind {
		case drv.DropCollection:
			want = 0
			if nsExisted && res.Err == "" {
				want = 1
			}
		case drv.DropDatabase:
			want = 0
			if dbNS > 0 && res.Err == "" {
				want = dbNS + 1
			}
		case drv.BulkWrite:
			want = int(res.Inserted + res.Modified + res.Upserted + res.Deleted)
			if changed > want {
				c.Violate("oplog:fewer-events-than-changes", fmt.Sprintf("BulkWrite changed %d documents but reports only %d effective operations", changed, want), witness(map[string]interface{}{"op": op.String()}))
				return
			}
		default:
			if drv.IsWrite(op.Kind) && !drv.IsIndexOp(op.Kind) && op.Kind != drv.CreateCollection {
				want = changed
			} else {
				want = 0
			}
		}
		if res.Err != "" && op.Kind != drv.InsertMany && op.Kind != drv.BulkWrite && op.Kind != drv.CreateIndexes && !res.NoDocs {
			want = 0
			if changed != 0 {
				// C02 reports this; the log check below still applies
				want = -1
			}
		}
		if want == 0 {
			c.Count("zero_event_calls", 1)
			sawZero = true
		}
		if want > 1 {
			sawMulti = true
		}
		if want >= 0 && exact && delta != want {
			c.Violate("oplog:event-count", fmt.Sprintf("%s (err=%q) changed %d documents and must append %d events, the change log grew by %d", op.Kind, res.Err, changed, want, delta),
				witness(map[string]interface{}{"op": op.String(), "result": res.String()}))
			return
		}
		// event types
		for k := len0; k < len(evs) && k >= 0; k++ {
			typ, _ := ref.GetPath(evs[k], "operationType").(string)
			ok := true
			switch op.Kind {
			case drv.InsertOne, drv.InsertMany:
				ok = typ == "insert"
			case drv.UpdateOne, drv.UpdateMany, drv.UpdateByID, drv.FindOneAndUpdate:
				ok = typ == "update" || (typ == "insert" && op.Upsert)
			case drv.ReplaceOne, drv.FindOneAndReplace:
				ok = typ == "replace" || (typ == "insert" && op.Upsert)
			case drv.DeleteOne, drv.DeleteMany, drv.FindOneAndDelete:
				ok = typ == "delete"
			case drv.DropCollection:
				ok = typ == "drop"
			case drv.DropDatabase:
				ok = typ == "drop" || typ == "dropDatabase"
			}
			if !ok {
				c.Violate("oplog:event-type", fmt.Sprintf("%s appended an event of type %q", op.Kind, typ), witness(map[string]interface{}{"op": op.String(), "event": gen.JSON(evs[k])}))
				return
			}
		}
		if !w.inTxn {
			if !observe(op.Kind) {
				return
			}
		}
	}
	if w.inTxn {
		w.abort()
	}
	if sawUpdate && sawZero && sawMulti {
		c.Count("nontrivial_histories", 1)
		c.Nontrivial(fw.Hash64(callSig))
		if c.WantSample() {
			hs := w.history()
			if len(hs) > 20 {
				hs = hs[:20]
			}
			c.Sample(map[string]interface{}{"first_calls": hs, "events": len(seenIDs)})
		}
	}
}

// c08UpdateDescription applies updatedFields / removedFields to the previous
// version of the document and compares with fullDocument up to field order.
func c08UpdateDescription(c *fw.Ctx, running contents, ev bson.D, witness func(map[string]interface{}) interface{}) bool {
	db, _ := ref.GetPath(ev, "ns.db").(string)
	coll, _ := ref.GetPath(ev, "ns.coll").(string)
	key := ref.GetPath(ev, "documentKey._id")
	prevBytes, ok := running[db+"."+coll][string(gen.ValueBytes(key))]
	if !ok {
		return true // reported by applyEvent
	}
	var prev bson.D
	if bson.Unmarshal([]byte(prevBytes), &prev) != nil {
		return true
	}
	full, _ := ref.GetPath(ev, "fullDocument").(bson.D)
	ud, ok := ref.GetPath(ev, "updateDescription").(bson.D)
	if !ok {
		c.Violate("oplog:update-without-description", "update event without updateDescription: "+gen.JSON(ev), witness(nil))
		return false
	}
	upd := bson.D{}
	if uf, ok := ref.GetPath(ud, "updatedFields").(bson.D); ok && len(uf) > 0 {
		upd = append(upd, bson.E{Key: "$set", Value: uf})
	}
	if rf, ok := ref.GetPath(ud, "removedFields").(bson.A); ok && len(rf) > 0 {
		un := bson.D{}
		for _, p := range rf {
			if s, ok := p.(string); ok {
				un = append(un, bson.E{Key: s, Value: ""})
			}
		}
		upd = append(upd, bson.E{Key: "$unset", Value: un})
	}
	if len(upd) == 0 {
		c.Violate("oplog:empty-update-description", "update event that records neither updated nor removed fields although the document changed: "+gen.JSON(ev), witness(nil))
		return false
	}
	info := &ref.ApplyInfo{}
	got, err := ref.Apply(prev, upd, nil, false, info)
	if err != nil {
		c.Count("update_description_not_applicable", 1)
		return true
	}
	c.Count("update_events_applied", 1)
	if !ref.SameFieldSet(got, full) {
		c.Violate("oplog:update-description-wrong", "applying the recorded updatedFields/removedFields to the previous version does not give the new version",
			witness(map[string]interface{}{"previous": gen.JSON(prev), "event": gen.JSON(ev), "applied": gen.JSON(got)}))
		return false
	}
	return true
}

// ---------------------------------------------------------------------------
// retention

const (
	ageOld   = 2 * time.Hour    // beyond a 1 h maximum age
	ageMid   = 30 * time.Minute // between the 5 min minimum and the 1 h maximum
	ageYoung = 2 * time.Minute  // younger than the 5 min minimum age
)

func craftedOplog(ages []time.Duration) *lungo.Catalog {
	cat := lungo.NewCatalog()
	now := bsonkit.Now()
	for i, a := range ages {
		ts := primitive.Timestamp{T: now.T - uint32(a/time.Second), I: uint32(i + 1)}
		ev := bson.D{
			{Key: "_id", Value: bson.D{{Key: "ts", Value: ts}}},
			{Key: "clusterTime", Value: ts},
			{Key: "operationType", Value: "insert"},
			{Key: "ns", Value: bson.D{{Key: "db", Value: "d"}, {Key: "coll", Value: "c"}}},
			{Key: "documentKey", Value: bson.D{{Key: "_id", Value: int32(i)}}},
			{Key: "fullDocument", Value: bson.D{{Key: "_id", Value: int32(i)}}},
		}
		cat.Namespaces[lungo.Oplog].Documents.Add(&ev)
	}
	return cat
}

// expectedRemoval: how many oldest events retention must remove.
func expectedRemoval(ages []time.Duration, minSize, maxSize int, minAge, maxAge time.Duration) int {
	n := len(ages)
	removed := 0
	for i, a := range ages {
		protected := i >= n-minSize || (minAge > 0 && a < minAge)
		forced := i < n-maxSize || a > maxAge
		if forced && !protected {
			removed++
		} else {
			break
		}
	}
	return removed
}

func c08Retention(c *fw.Ctx) {
	caseNo := 0
	maxLen := 12
	for L := 0; L <= maxLen; L++ {
		for nOld := 0; nOld <= L; nOld++ {
			for nMid := 0; nOld+nMid <= L; nMid++ {
				caseNo++
				if caseNo%c.NBatches != c.Batch {
					continue
				}
				ages := make([]time.Duration, L)
				for i := range ages {
					switch {
					case i < nOld:
						ages[i] = ageOld
					case i < nOld+nMid:
						ages[i] = ageMid
					default:
						ages[i] = ageYoung
					}
				}
				idx := 2000000 + caseNo
				if c.Skip(idx) {
					continue
				}
				c.Case(idx, func() interface{} { return map[string]interface{}{"ages": fmt.Sprint(ages)} }, nil, func() {
					for minSize := 0; minSize <= 12; minSize++ {
						for maxSize := 0; maxSize <= 12; maxSize++ {
							for _, minAge := range []time.Duration{0, 5 * time.Minute} {
								for _, maxAge := range []time.Duration{time.Hour, 3 * time.Hour} {
									c.Eval(1)
									c.Count("retention_cases", 1)
									cat := craftedOplog(ages)
									beforeIDs := []string{}
									for _, e := range oplogEvents(cat) {
										beforeIDs = append(beforeIDs, eventID(e))
									}
									txn := lungo.NewTransaction(cat)
									txn.Clean(minSize, maxSize, minAge, maxAge)
									after := oplogEvents(txn.Catalog())
									want := expectedRemoval(ages, minSize, maxSize, minAge, maxAge)
									w := map[string]interface{}{"ages_oldest_first": fmt.Sprint(ages), "minSize": minSize, "maxSize": maxSize, "minAge": minAge.String(), "maxAge": maxAge.String(), "events_before": L, "events_after": len(after), "expected_removed": want}
									// suffix check
									okSuffix := len(after) <= L
									for i := 0; okSuffix && i < len(after); i++ {
										okSuffix = eventID(after[i]) == beforeIDs[L-len(after)+i]
									}
									if !okSuffix {
										c.Violate("retention:not-a-prefix", "retention removed something other than a prefix of the oldest events", w)
										return
									}
									removed := L - len(after)
									if removed > 0 {
										c.Count("retention_removed_some", 1)
										if !txn.Dirty() {
											c.Violate("retention:not-dirty", "retention removed events without marking the transaction dirty", w)
											return
										}
									}
									if removed > want {
										c.Violate("retention:removed-protected", fmt.Sprintf("retention removed %d events but only %d are neither among the newest minSize nor younger than minAge and beyond maxSize/maxAge", removed, want), w)
										return
									}
									if removed < want {
										c.Violate("retention:kept-beyond-max", fmt.Sprintf("retention removed %d events although %d are beyond the maximum size or age and not protected", removed, want), w)
										return
									}
									if L > 0 && minSize+maxSize > 0 && removed > 0 && removed < L {
										c.Nontrivial(fw.Hash64([]byte(fmt.Sprint(ages, minSize, maxSize, minAge, maxAge))))
									}
									// the original catalog must be untouched (copy on write)
									if mon.OplogLen(cat) != L {
										c.Violate("retention:mutated-source", "retention changed the catalog the transaction was created from", w)
										return
									}
								}
							}
						}
					}
				})
			}
		}
	}
}

// preloadedStore hands a crafted catalog to the engine.
type preloadedStore struct{ cat *lungo.Catalog }

func (s *preloadedStore) Load() (*lungo.Catalog, error) { return s.cat, nil }
func (s *preloadedStore) Store(c *lungo.Catalog) error  { s.cat = c; return nil }

func c08RetentionEngine(c *fw.Ctx) {
	n := c.N(64, 640) / c.NBatches
	for q := 0; q < n; q++ {
		idx := 3000000 + c.Batch*n + q
		if c.Skip(idx) {
			continue
		}
		r := c.Rand(idx)
		L := r.Intn(10)
		nOld := r.Intn(L + 1)
		nMid := r.Intn(L - nOld + 1)
		ages := make([]time.Duration, L)
		for i := range ages {
			switch {
			case i < nOld:
				ages[i] = ageOld
			case i < nOld+nMid:
				ages[i] = ageMid
			default:
				ages[i] = ageYoung
			}
		}
		minSize, maxSize := r.Range(1, 6), r.Range(1, 8)
		minAge := 5 * time.Minute // (a sub-second minimum age would make the protection of fresh events clock dependent)
		maxAge := fw.Pick(r, []time.Duration{time.Hour, 3 * time.Hour})
		desc := map[string]interface{}{"ages_oldest_first": fmt.Sprint(ages), "minSize": minSize, "maxSize": maxSize, "minAge": minAge.String(), "maxAge": maxAge.String()}
		c.Case(idx, func() interface{} { return desc }, nil, func() {
			c.Eval(1)
			store := &preloadedStore{cat: craftedOplog(ages)}
			client, engine, err := lungo.Open(nil, lungo.Options{Store: store, ExpireInterval: 1 << 40, MinOplogSize: minSize, MaxOplogSize: maxSize, MinOplogAge: minAge, MaxOplogAge: maxAge})
			if err != nil {
				c.Inconclusive("open: " + err.Error())
				return
			}
			defer engine.Close()
			cur := append([]time.Duration{}, ages...)
			curIDs := []string{}
			for _, e := range oplogEvents(engine.Catalog()) {
				curIDs = append(curIDs, eventID(e))
			}
			for k := 0; k < 8; k++ {
				op := drv.Op{Kind: drv.InsertOne, DB: "d", Coll: "c", Docs: []bson.D{{{Key: "_id", Value: int32(1000 + k)}}}}
				res := drv.Exec(nil, client, &op)
				if res.Err != "" {
					c.Violate("retention:engine-write-failed", "insert failed: "+res.Err, desc)
					return
				}
				c.Count("retention_engine_commits", 1)
				// the log before cleaning = current + 1 brand-new event
				total := append(append([]time.Duration{}, cur...), 0)
				want := expectedRemoval(total, minSize, maxSize, minAge, maxAge)
				evs := oplogEvents(engine.Catalog())
				gotLen := len(evs)
				if gotLen != len(total)-want {
					d := map[string]interface{}{"commit": k, "log_before_cleaning_oldest_first": fmt.Sprint(total), "expected_removed": want, "events_after": gotLen}
					for kk, v := range desc {
						d[kk] = v
					}
					c.Violate("retention:engine", fmt.Sprintf("after a commit the change log holds %d events, retention should have left %d", gotLen, len(total)-want), d)
					return
				}
				// kept events are the newest ones, in place
				for i := 0; i < gotLen-1; i++ {
					if eventID(evs[i]) != curIDs[len(curIDs)-(gotLen-1)+i] {
						c.Violate("retention:not-a-prefix", "after a commit the kept events are not the newest events of the previous log", desc)
						return
					}
				}
				cur = total[want:]
				curIDs = curIDs[:0]
				for _, e := range evs {
					curIDs = append(curIDs, eventID(e))
				}
			}
		})
	}
}
