package checks

import (
	"bytes"
	"context"
	"fmt"
	"sort"
	"strings"
	"sync"

	"github.com/256dpi/lungo"
	"github.com/256dpi/lungo/bsonkit"
	"github.com/256dpi/lungo/mongokit"
	"go.mongodb.org/mongo-driver/bson"
	"go.mongodb.org/mongo-driver/bson/primitive"
	"go.mongodb.org/mongo-driver/mongo"
	"go.mongodb.org/mongo-driver/mongo/options"

	"verifharness/fw"
	"verifharness/gen"
	"verifharness/mon"
)

// C17 — caller-owned values and database state never alias each other.

func init() {
	fw.Register(&fw.Check{
		ID:   "C17",
		Race: true,
		Rule: "seeded calls of every collection / index-view / database method (and the engine-level Transaction.Insert/Replace/Update/Bulk) with arguments shaped as bson.D, bson.M, bson.A and structs holding nested slices, maps and []byte binaries, with ObjectID, scalar, document and binary _id; " +
			"after each call (a) the alias walker intersects the mutable memory reachable from every argument and every returned value (decoded documents in bson.D/bson.M/struct form, raw bytes, InsertedID(s), UpsertedID(s), Distinct values, index specifications) with the memory reachable from the engine's catalog (documents, change log, index definitions and trees): any overlap is a violation even if no byte changes; " +
			"(b) argument bytes are compared before/after the call; (c) every nested position of arguments and results is overwritten and the exact dump and a later read must not change; (d) the run is under the race detector while one goroutine keeps overwriting arguments/results and another reads the collection; " +
			"non-trivial = the call stored or returned a value with a nested container or binary; distinct = hash of the call and its arguments",
		Assumptions: []string{"engine-level read results (Transaction.Find) are documented to return the stored documents and are not judged", "strings are immutable and ignored by the alias walker"},
		Batches:     func(tier string) int { return 8 },
		Require: func(tier string) map[string]int64 {
			return map[string]int64{"calls": 1200, "alias_checks": 1200, "read_only_calls_checked": 100, "repeated_calls_after_scribble": 40, "regions_caller": 5000, "regions_engine": 50000, "scribbled_values": 2000, "results_with_containers": 300, "id_results_checked": 200, "concurrent_scribbles": 300}
		},
		Run: runC17,
	})
}

type c17Struct struct {
	ID   interface{}            `bson:"_id"`
	Tags []string               `bson:"tags"`
	Meta map[string]interface{} `bson:"meta"`
	Blob []byte                 `bson:"blob"`
	Sub  *c17Sub                `bson:"sub,omitempty"`
	List []interface{}          `bson:"list"`
	A    int32                  `bson:"a"`
}

type c17Sub struct {
	X []int32 `bson:"x"`
	B []byte  `bson:"b"`
}

func c17ID(r *fw.Rand, n int) interface{} {
	switch r.Intn(5) {
	case 0:
		return primitive.NewObjectID()
	case 1:
		return int32(1000 + n)
	case 2:
		return bson.D{{Key: "k", Value: int32(n)}, {Key: "s", Value: bson.A{int32(1), bson.D{{Key: "z", Value: "q"}}}}}
	case 3:
		return primitive.Binary{Subtype: 4, Data: []byte{byte(n), byte(n >> 8), 3, 4, 5, 6, 7, 8}}
	default:
		return fmt.Sprintf("id-%d", n)
	}
}

func c17Doc(r *fw.Rand, n int, shape int) interface{} {
	id := c17ID(r, n)
	switch shape % 4 {
	case 0:
		return bson.D{{Key: "_id", Value: id}, {Key: "a", Value: int32(n % 5)}, {Key: "arr", Value: bson.A{int32(1), bson.D{{Key: "x", Value: bson.A{"p", "q"}}}, primitive.Binary{Subtype: 0, Data: []byte{1, 2, 3}}}},
			{Key: "sub", Value: bson.D{{Key: "deep", Value: bson.D{{Key: "list", Value: bson.A{int32(7), int32(8)}}}}}}, {Key: "bin", Value: primitive.Binary{Subtype: 0, Data: []byte{9, 9, 9, byte(n)}}}, {Key: "g", Value: "grp"},
			// arrays directly inside arrays (a clone has to descend into them too)
			{Key: "grid", Value: bson.A{bson.A{int32(1), int32(2)}, bson.A{bson.A{int32(3)}, bson.D{{Key: "c", Value: bson.A{int32(4)}}}}}}}
	case 1:
		return bson.M{"_id": id, "a": int32(n % 5), "grid": bson.A{bson.A{"p", bson.A{"q"}}, []interface{}{[]interface{}{int32(1)}}}, "arr": bson.A{bson.M{"x": []interface{}{"p", "q"}}, []byte{4, 5, 6}}, "sub": bson.M{"deep": bson.D{{Key: "list", Value: []interface{}{int32(1)}}}}, "g": "grp"}
	case 2:
		return &c17Struct{ID: id, Tags: []string{"t1", "t2"}, Meta: map[string]interface{}{"m": bson.A{int32(1), int32(2)}, "n": map[string]interface{}{"o": []byte{1}}}, Blob: []byte{8, 7, 6, byte(n)}, Sub: &c17Sub{X: []int32{1, 2}, B: []byte{5}}, List: []interface{}{bson.D{{Key: "q", Value: int32(1)}}}, A: int32(n % 5)}
	default:
		d := append(bson.D{{Key: "_id", Value: id}}, gen.Doc(r, gen.DefaultOpts(gen.Core), false)...)
		return append(d, bson.E{Key: "g", Value: "grp"}, bson.E{Key: "a", Value: int32(n % 5)})
	}
}

func marshalAny(v interface{}) []byte {
	switch x := v.(type) {
	case nil:
		return nil
	case []interface{}:
		var out []byte
		for _, e := range x {
			out = append(out, marshalAny(e)...)
		}
		return out
	}
	b, err := bson.Marshal(bson.M{"v": v})
	if err != nil {
		return []byte("!" + err.Error())
	}
	// canonical form: maps marshal in random key order, so sort keys
	var d bson.D
	if bson.Unmarshal(b, &d) != nil {
		return b
	}
	return []byte(gen.JSON(sortKeys(d)))
}

func sortKeys(v interface{}) interface{} {
	switch x := v.(type) {
	case bson.D:
		out := make(bson.D, len(x))
		for i, e := range x {
			out[i] = bson.E{Key: e.Key, Value: sortKeys(e.Value)}
		}
		sort.SliceStable(out, func(i, j int) bool { return out[i].Key < out[j].Key })
		return out
	case bson.A:
		out := make(bson.A, len(x))
		for i, e := range x {
			out[i] = sortKeys(e)
		}
		return out
	}
	return v
}

type c17Case struct {
	c       *fw.Ctx
	r       *fw.Rand
	ctx     context.Context
	client  lungo.IClient
	engine  *lungo.Engine
	coll    lungo.ICollection
	name    string
	args    []interface{}
	argDesc string
	results []interface{}
	// engineLevel marks calls made on lungo.Transaction directly
	engineLevel bool
	// state before the call: exact dump, a full read and a cursor opened (but
	// not consumed) before the call
	pre     mon.CatDump
	preRead string
	early   lungo.ICursor
	// reobserve repeats calls whose results were handed out already (e.g. the
	// resume token of a stream that has not advanced): overwriting the values
	// handed out earlier must not change what they return
	reobserve func() string
	cleanup   func()
}

// c17ReadOnly lists the calls that must leave the database bit-identical.
var c17ReadOnly = map[string]bool{"Find": true, "FindOne": true, "Distinct": true, "ListCollections": true, "CountDocuments": true}

func (k *c17Case) witness(extra map[string]interface{}) interface{} {
	m := map[string]interface{}{"call": k.name, "arguments": k.argDesc}
	for a, b := range extra {
		m[a] = b
	}
	return m
}

// judge runs the monitors after the call.
func (k *c17Case) judge(before [][]byte) {
	c := k.c
	c.Count("calls", 1)
	// (b) arguments unchanged
	for i, a := range k.args {
		if !bytes.Equal(before[i], marshalAny(a)) {
			c.Violate("alias:argument-modified", fmt.Sprintf("%s modified its argument %d", k.name, i), k.witness(map[string]interface{}{"argument_after": fmt.Sprintf("%v", a)}))
			return
		}
	}
	// (e) a read hands out values without touching what it read: the exact
	// dump is unchanged and a cursor opened before the call still yields the
	// documents as they were
	if c17ReadOnly[k.name] && k.early != nil {
		c.Count("read_only_calls_checked", 1)
		if d := k.pre.Diff(exactDump(k.engine.Catalog())); d != "" {
			c.Violate("alias:read-changed-state:"+k.name, fmt.Sprintf("the read-only call %s changed the stored documents: %s", k.name, d), k.witness(nil))
			return
		}
		var docs []bson.D
		k.early.All(k.ctx, &docs)
		if got := strings.Join(jsonList(docs), "\n"); got != k.preRead {
			c.Violate("alias:read-changed-result:"+k.name, fmt.Sprintf("the read-only call %s changed the result of a cursor that was opened before it", k.name), k.witness(map[string]interface{}{"before": k.preRead, "after": got}))
			return
		}
	}
	// (a) alias walker
	cat := k.engine.Catalog()
	eng := mon.EngineReach(cat)
	var caller []mon.Region
	for i, a := range k.args {
		for _, reg := range mon.Reach(a, fmt.Sprintf("argument %d", i)) {
			// engine-level calls take bsonkit documents and clone them with
			// bsonkit.Clone, which documents that binary payloads stay shared
			if k.engineLevel && strings.HasSuffix(reg.What, ".Data[]") {
				continue
			}
			caller = append(caller, reg)
		}
	}
	containers := false
	for i, res := range k.results {
		rr := mon.Reach(res, fmt.Sprintf("result %d (%T)", i, res))
		if len(rr) > 0 {
			containers = true
		}
		caller = append(caller, rr...)
	}
	c.Count("alias_checks", 1)
	c.Count("regions_caller", int64(len(caller)))
	c.Count("regions_engine", int64(len(eng)))
	if containers {
		c.Count("results_with_containers", 1)
	}
	if o := mon.Overlap(caller, eng); o != "" {
		c.Violate("alias:shared-memory:"+k.name, fmt.Sprintf("after %s a caller-owned value shares mutable memory with the database: %s", k.name, o), k.witness(nil))
		return
	}
	// (c) scribble and re-observe
	dump0 := exactDump(cat)
	read0 := dumpColl(k.ctx, k.coll)
	again0 := ""
	if k.reobserve != nil {
		again0 = k.reobserve()
	}
	if k.cleanup != nil {
		defer k.cleanup()
	}
	var wg sync.WaitGroup
	// (d) concurrent scribbler and reader under the race detector
	wg.Add(2)
	go func() {
		defer wg.Done()
		for _, a := range k.args {
			if k.engineLevel {
				mon.ScribbleKeepBytes(a) // bsonkit.Clone documents that binary payloads stay shared
			} else {
				mon.Scribble(a)
			}
			c.Count("scribbled_values", 1)
		}
		for _, res := range k.results {
			mon.Scribble(res)
			c.Count("scribbled_values", 1)
		}
		c.Count("concurrent_scribbles", 1)
	}()
	go func() {
		defer wg.Done()
		for i := 0; i < 3; i++ {
			dumpColl(k.ctx, k.coll)
			exactDump(k.engine.Catalog())
		}
	}()
	wg.Wait()
	if d := dump0.Diff(exactDump(k.engine.Catalog())); d != "" {
		c.Violate("alias:scribble-changed-state:"+k.name, fmt.Sprintf("overwriting the arguments and results of %s changed the database: %s", k.name, d), k.witness(nil))
		return
	}
	if k.reobserve != nil {
		c.Count("repeated_calls_after_scribble", 1)
		if again1 := k.reobserve(); again0 != again1 {
			c.Violate("alias:scribble-changed-repeated-call:"+k.name, fmt.Sprintf("overwriting the values handed back by %s changed what the same call returns when repeated", k.name), k.witness(map[string]interface{}{"before": again0, "after": again1}))
			return
		}
	}
	if read1 := dumpColl(k.ctx, k.coll); read0 != read1 {
		c.Violate("alias:scribble-changed-read:"+k.name, fmt.Sprintf("overwriting the arguments and results of %s changed the result of a later read", k.name), k.witness(map[string]interface{}{"before": read0, "after": read1}))
		return
	}
	for _, p := range mon.CheckCatalog(k.engine.Catalog(), nil) {
		c.Violate("alias:inv:"+p.Kind, "after overwriting arguments and results: "+p.String(), k.witness(nil))
		return
	}
	if containers || len(caller) > 0 {
		c.Nontrivial(fw.Hash64([]byte(k.name + k.argDesc)))
		if c.WantSample() {
			c.Sample(map[string]interface{}{"call": k.name, "arguments": k.argDesc, "caller_regions": len(caller), "engine_regions": len(eng)})
		}
	}
}

func runC17(c *fw.Ctx) {
	n := c.N(1600, 48000) / c.NBatches
	ctx := context.Background()
	for q := 0; q < n; q++ {
		idx := c.Batch*n + q
		if c.Skip(idx) {
			continue
		}
		r := c.Rand(idx)
		c.Case(idx, nil, nil, func() {
			c.Eval(1)
			client, engine, err := openMemEngine()
			if err != nil {
				c.Inconclusive("open engine: " + err.Error())
				return
			}
			defer engine.Close()
			coll := client.Database("d").Collection("c")
			// seed documents of all shapes and id kinds
			for i := 0; i < 6; i++ {
				if _, err := coll.InsertOne(ctx, c17Doc(r, i, i)); err != nil {
					c.Inconclusive("seed insert: " + err.Error())
					return
				}
			}
			coll.Indexes().CreateOne(ctx, mongo.IndexModel{Keys: bson.D{{Key: "a", Value: int32(1)}}, Options: options.Index().SetPartialFilterExpression(bson.D{{Key: "a", Value: bson.D{{Key: "$gte", Value: int32(0)}}}})})
			k := &c17Case{c: c, r: r, ctx: ctx, client: client, engine: engine, coll: coll}
			c17Call(k, idx)
		})
	}
}

func c17Call(k *c17Case, idx int) {
	r, ctx, coll := k.r, k.ctx, k.coll
	which := idx % 23
	filterShapes := func() interface{} {
		switch r.Intn(3) {
		case 0:
			return bson.D{{Key: "g", Value: "grp"}, {Key: "a", Value: bson.D{{Key: "$in", Value: bson.A{int32(0), int32(1), int32(2), int32(3), int32(4)}}}}}
		case 1:
			return bson.M{"g": "grp", "arr": bson.M{"$exists": true}}
		default:
			return bson.D{{Key: "$or", Value: bson.A{bson.D{{Key: "a", Value: int32(1)}}, bson.D{{Key: "g", Value: "grp"}}}}}
		}
	}
	update := func() interface{} {
		switch r.Intn(3) {
		case 0:
			return bson.D{{Key: "$set", Value: bson.D{{Key: "nested", Value: bson.D{{Key: "l", Value: bson.A{int32(1), bson.D{{Key: "b", Value: primitive.Binary{Data: []byte{1, 2}}}}}}}}, {Key: "arr2", Value: bson.A{"x", bson.A{"y"}}}}}}
		case 1:
			return bson.M{"$push": bson.M{"plist": bson.M{"$each": bson.A{bson.D{{Key: "e", Value: bson.A{int32(1)}}}, []byte{7, 7}}}}, "$set": bson.M{"blob2": []byte{1, 2, 3}}}
		default:
			return bson.D{{Key: "$addToSet", Value: bson.D{{Key: "set", Value: bson.D{{Key: "s", Value: bson.A{int32(5)}}}}}}, {Key: "$setOnInsert", Value: bson.D{{Key: "soi", Value: bson.A{bson.D{{Key: "z", Value: int32(1)}}}}}}}
		}
	}
	decodeShapes := func(res lungo.ISingleResult) {
		var d bson.D
		var m bson.M
		var s c17Struct
		if res.Decode(&d) == nil {
			k.results = append(k.results, d)
		}
		if res.Decode(&m) == nil {
			k.results = append(k.results, m)
		}
		if res.Decode(&s) == nil {
			k.results = append(k.results, &s)
		}
		if raw, err := res.Raw(); err == nil {
			k.results = append(k.results, []byte(raw))
		}
	}
	newDoc := c17Doc(r, 100+idx%50, r.Intn(4))
	set := func(name string, args ...interface{}) [][]byte {
		k.name = name
		k.args = args
		k.argDesc = ""
		var before [][]byte
		for _, a := range args {
			b := marshalAny(a)
			before = append(before, b)
			s := string(b)
			if len(s) > 700 {
				s = s[:700] + "…"
			}
			k.argDesc += s + " "

		}
		if c17ReadOnly[name] {
			k.pre = exactDump(k.engine.Catalog())
			k.preRead = dumpColl(ctx, coll)
			k.early, _ = coll.Find(ctx, bson.D{})
		}
		return before
	}
	// projections: plain, operator overlays, and overlays on a path inside an
	// included parent (the overlay is computed from the stored sub-document)
	projShapes := func() interface{} {
		switch r.Intn(8) {
		case 0:
			return bson.D{{Key: "arr", Value: bson.D{{Key: "$slice", Value: int32(2)}}}}
		case 1:
			return bson.D{{Key: "sub", Value: int32(1)}, {Key: "sub.deep.list", Value: bson.D{{Key: "$slice", Value: int32(1)}}}}
		case 2:
			return bson.M{"sub.deep": true, "sub.deep.list": bson.M{"$slice": bson.A{int32(1), int32(1)}}}
		case 3:
			return bson.D{{Key: "sub.deep.list", Value: bson.D{{Key: "$elemMatch", Value: bson.D{{Key: "$gte", Value: int32(8)}}}}}, {Key: "sub", Value: int32(1)}}
		case 4:
			return bson.D{{Key: "arr", Value: bson.D{{Key: "$elemMatch", Value: bson.D{{Key: "x", Value: "p"}}}}}, {Key: "g", Value: int32(1)}}
		case 5:
			return bson.D{{Key: "sub", Value: int32(0)}, {Key: "bin", Value: false}}
		case 6:
			return bson.D{{Key: "sub", Value: int32(1)}, {Key: "sub.deep.list", Value: bson.D{{Key: "$slice", Value: int32(0)}}}, {Key: "arr", Value: int32(1)}, {Key: "arr.x", Value: bson.D{{Key: "$slice", Value: int32(-1)}}}}
		default:
			return bson.D{{Key: "meta", Value: int32(1)}, {Key: "meta.m", Value: bson.D{{Key: "$slice", Value: int32(1)}}}, {Key: "tags", Value: bson.D{{Key: "$slice", Value: int32(-1)}}}}
		}
	}
	var before [][]byte
	switch which {
	case 0:
		before = set("InsertOne", newDoc)
		res, err := coll.InsertOne(ctx, newDoc)
		if err == nil {
			k.results = append(k.results, res.InsertedID)
			k.c.Count("id_results_checked", 1)
		}
	case 1:
		docs := []interface{}{newDoc, c17Doc(r, 200+idx%50, r.Intn(4)), c17Doc(r, 300+idx%50, r.Intn(4))}
		before = set("InsertMany", docs)
		res, err := coll.InsertMany(ctx, docs)
		if res != nil && err == nil {
			k.results = append(k.results, res.InsertedIDs)
			k.c.Count("id_results_checked", 1)
		}
	case 2:
		f := filterShapes()
		proj := projShapes()
		before = set("Find", f, proj)
		o := options.Find().SetSort(bson.D{{Key: "a", Value: int32(1)}})
		if r.Chance(3, 4) {
			o.SetProjection(proj)
		}
		cur, err := coll.Find(ctx, f, o)
		if err == nil {
			var ds []bson.D
			var ms []bson.M
			if r.Bool() {
				cur.All(ctx, &ds)
				k.results = append(k.results, ds)
			} else {
				for cur.Next(ctx) {
					var d bson.D
					var s c17Struct
					cur.Decode(&d)
					cur.Decode(&s)
					k.results = append(k.results, d, &s)
				}
				_ = ms
			}
		}
	case 3:
		f := filterShapes()
		proj := projShapes()
		before = set("FindOne", f, proj)
		decodeShapes(coll.FindOne(ctx, f, options.FindOne().SetSort(bson.M{"a": int32(-1)}).SetProjection(proj)))
	case 4:
		f := filterShapes()
		before = set("Distinct", f)
		for _, field := range []string{"_id", "arr", "sub", "bin", "meta", "sub.deep"} {
			vals, err := coll.Distinct(ctx, field, f)
			if err == nil {
				k.results = append(k.results, vals)
			}
		}
		k.c.Count("id_results_checked", 1)
	case 5, 6:
		f, u := filterShapes(), update()
		af := options.ArrayFilters{Filters: []interface{}{bson.D{{Key: "e", Value: bson.D{{Key: "$gte", Value: int32(0)}}}}}}
		before = set("UpdateOne/UpdateMany", f, u, af.Filters)
		var res *mongo.UpdateResult
		var err error
		if which == 5 {
			res, err = coll.UpdateOne(ctx, f, u)
		} else {
			res, err = coll.UpdateMany(ctx, f, bson.D{{Key: "$set", Value: bson.D{{Key: "arr.$[e]", Value: bson.D{{Key: "w", Value: bson.A{int32(1)}}}}}}}, options.Update().SetArrayFilters(af))
			if err != nil {
				res, err = coll.UpdateMany(ctx, f, u)
			}
		}
		_ = res
		_ = err
	case 7:
		id := c17ID(r, 7000+idx)
		f := bson.D{{Key: "_id", Value: id}, {Key: "fromfilter", Value: bson.D{{Key: "$eq", Value: bson.A{int32(1), bson.D{{Key: "x", Value: "y"}}}}}}}
		u := update()
		before = set("UpdateOne(upsert)", f, u)
		res, err := coll.UpdateOne(ctx, f, u, options.Update().SetUpsert(true))
		if err == nil && res.UpsertedID != nil {
			k.results = append(k.results, res.UpsertedID)
			k.c.Count("id_results_checked", 1)
		}
	case 8:
		var first bson.D
		coll.FindOne(ctx, bson.D{}).Decode(&first)
		id := first[0].Value
		u := update()
		before = set("UpdateByID", id, u)
		coll.UpdateByID(ctx, id, u)
	case 9:
		f := filterShapes()
		repl := c17Doc(r, 0, r.Intn(4))
		switch x := repl.(type) {
		case bson.D:
			repl = x[1:]
		case bson.M:
			delete(x, "_id")
		case *c17Struct:
			repl = bson.D{{Key: "tags", Value: x.Tags}, {Key: "meta", Value: x.Meta}, {Key: "blob", Value: x.Blob}}
		}
		before = set("ReplaceOne", f, repl)
		coll.ReplaceOne(ctx, f, repl)
	case 10:
		id := c17ID(r, 8000+idx)
		f := bson.D{{Key: "_id", Value: id}}
		repl := bson.D{{Key: "_id", Value: id}, {Key: "r", Value: bson.A{bson.D{{Key: "x", Value: []byte{1}}}}}}
		before = set("ReplaceOne(upsert)", f, repl)
		res, err := coll.ReplaceOne(ctx, f, repl, options.Replace().SetUpsert(true))
		if err == nil && res.UpsertedID != nil {
			k.results = append(k.results, res.UpsertedID)
			k.c.Count("id_results_checked", 1)
		}
	case 11:
		f := filterShapes()
		before = set("DeleteOne/DeleteMany", f)
		if r.Bool() {
			coll.DeleteOne(ctx, f)
		} else {
			coll.DeleteMany(ctx, bson.D{{Key: "a", Value: int32(1)}})
		}
	case 12:
		f, u := filterShapes(), update()
		proj := projShapes()
		before = set("FindOneAndUpdate", f, u, proj)
		o := options.FindOneAndUpdate().SetProjection(proj)
		if r.Bool() {
			o.SetReturnDocument(options.After)
		}
		decodeShapes(coll.FindOneAndUpdate(ctx, f, u, o))
	case 13:
		f := filterShapes()
		repl := bson.D{{Key: "r", Value: bson.A{bson.D{{Key: "x", Value: primitive.Binary{Data: []byte{1, 2}}}}}}, {Key: "g", Value: "grp"}}
		proj := projShapes()
		before = set("FindOneAndReplace", f, repl, proj)
		o := options.FindOneAndReplace().SetProjection(proj)
		if r.Bool() {
			o.SetReturnDocument(options.After)
		}
		decodeShapes(coll.FindOneAndReplace(ctx, f, repl, o))
	case 14:
		f := filterShapes()
		proj := projShapes()
		before = set("FindOneAndDelete", f, proj)
		decodeShapes(coll.FindOneAndDelete(ctx, f, options.FindOneAndDelete().SetProjection(proj)))
	case 15:
		ins := c17Doc(r, 9000+idx, r.Intn(4))
		uid := c17ID(r, 9500+idx)
		f, u := filterShapes(), update()
		models := []mongo.WriteModel{
			mongo.NewInsertOneModel().SetDocument(ins),
			mongo.NewUpdateManyModel().SetFilter(f).SetUpdate(u),
			mongo.NewUpdateOneModel().SetFilter(bson.D{{Key: "_id", Value: uid}}).SetUpdate(u).SetUpsert(true),
			mongo.NewReplaceOneModel().SetFilter(bson.D{{Key: "a", Value: int32(2)}}).SetReplacement(bson.D{{Key: "rr", Value: bson.A{[]byte{3}}}, {Key: "g", Value: "grp"}}),
			mongo.NewDeleteOneModel().SetFilter(bson.D{{Key: "a", Value: int32(3)}}),
		}
		before = set("BulkWrite", ins, f, u, uid)
		res, err := coll.BulkWrite(ctx, models)
		if res != nil && err == nil {
			for _, v := range res.UpsertedIDs {
				k.results = append(k.results, v)
				k.c.Count("id_results_checked", 1)
			}
		}
	case 16:
		keys := bson.D{{Key: "sub.deep.list", Value: int32(1)}, {Key: "a", Value: int32(-1)}}
		part := bson.D{{Key: "a", Value: bson.D{{Key: "$gt", Value: int32(0)}}}, {Key: "$and", Value: bson.A{bson.D{{Key: "g", Value: "grp"}}}}}
		before = set("Indexes.CreateOne", keys, part)
		coll.Indexes().CreateOne(ctx, mongo.IndexModel{Keys: keys, Options: options.Index().SetPartialFilterExpression(part).SetName("ixc17")})
		cur, err := coll.Indexes().List(ctx)
		if err == nil {
			var specs []bson.D
			var specsM []bson.M
			cur.All(ctx, &specs)
			k.results = append(k.results, specs)
			cur2, _ := coll.Indexes().List(ctx)
			cur2.All(ctx, &specsM)
			k.results = append(k.results, specsM)
		}
	case 17:
		f := bson.D{{Key: "name", Value: bson.D{{Key: "$in", Value: bson.A{"c", "x"}}}}}
		before = set("ListCollections", f)
		cur, err := k.client.Database("d").ListCollections(ctx, f)
		if err == nil {
			var specs []bson.D
			cur.All(ctx, &specs)
			k.results = append(k.results, specs)
		}
		names, _ := k.client.Database("d").ListCollectionNames(ctx, f)
		k.results = append(k.results, names)
	case 18:
		f := filterShapes()
		before = set("CountDocuments", f)
		coll.CountDocuments(ctx, f)
	case 19:
		// engine level: Transaction.Insert / Replace
		d1, _ := bsonkit.Transform(c17Doc(r, 9900+idx, 0))
		d2, _ := bsonkit.Transform(bson.D{{Key: "rx", Value: bson.A{bson.D{{Key: "q", Value: primitive.Binary{Data: []byte{1, 2, 3}}}}}}, {Key: "g", Value: "grp"}})
		q, _ := bsonkit.Transform(bson.D{{Key: "a", Value: int32(1)}})
		before = set("Transaction.Insert+Replace", *d1, *d2, *q)
		k.args = []interface{}{d1, d2, q}
		k.engineLevel = true
		txn, err := k.engine.Begin(ctx, true)
		if err == nil {
			txn.Insert(lungo.Handle{"d", "c"}, bsonkit.List{d1}, true)
			txn.Replace(lungo.Handle{"d", "c"}, q, nil, d2, false)
			k.engine.Commit(txn)
			k.engine.Abort(txn)
		}
	case 20:
		// engine level: Transaction.Update(upsert) / Bulk
		u, _ := bsonkit.Transform(update())
		q, _ := bsonkit.Transform(bson.D{{Key: "_id", Value: bson.D{{Key: "k", Value: int32(424242)}, {Key: "l", Value: bson.A{int32(1)}}}}})
		d1, _ := bsonkit.Transform(c17Doc(r, 9950+idx, 0))
		repl, _ := bsonkit.Transform(bson.D{{Key: "bulkrepl", Value: bson.A{bson.D{{Key: "q", Value: int32(1)}}}}, {Key: "g", Value: "grp"}})
		q2, _ := bsonkit.Transform(bson.D{{Key: "a", Value: int32(2)}})
		before = set("Transaction.Bulk(insert, replace)", *d1, *repl, *q2)
		k.args = []interface{}{d1, repl, q2}
		_, _ = u, q
		k.engineLevel = true
		txn, err := k.engine.Begin(ctx, true)
		if err == nil {
			// (update documents are not judged at the engine level: operands are
			// stored as given, the driver hands over private copies)
			txn.Bulk(lungo.Handle{"d", "c"}, []lungo.Operation{
				{Opcode: lungo.Insert, Document: d1},
				{Opcode: lungo.Replace, Filter: q2, Document: repl, Limit: 1},
			}, true)
			k.engine.Commit(txn)
			k.engine.Abort(txn)
		}
	case 21:
		// engine level: Transaction.CreateIndex takes an index configuration whose
		// key and partial filter stay the caller's; Index.Config hands the
		// specification back
		key := bson.D{{Key: "sub.deep.list", Value: int32(1)}, {Key: "a", Value: int32(-1)}}
		part := bson.D{{Key: "a", Value: bson.D{{Key: "$in", Value: bson.A{int32(0), int32(1), int32(2), int32(3), int32(4)}}}}}
		before = set("Transaction.CreateIndex+Index.Config", key, part)
		k.args = []interface{}{&key, &part}
		k.engineLevel = true
		txn, err := k.engine.Begin(ctx, true)
		if err == nil {
			_, cerr := txn.CreateIndex(lungo.Handle{"d", "c"}, "", mongokit.IndexConfig{Key: &key, Partial: &part})
			if cerr == nil {
				k.engine.Commit(txn)
			}
			k.engine.Abort(txn)
			if ns := k.engine.Catalog().Namespaces[lungo.Handle{"d", "c"}]; ns != nil {
				for _, ix := range ns.Indexes {
					cfg := ix.Config()
					k.results = append(k.results, cfg.Key, cfg.Partial)
				}
			}
			k.c.Count("index_specifications_checked", 1)
		}
	default:
		// change stream events
		stream, err := coll.Watch(ctx, bson.A{})
		ins := c17Doc(r, 9990+idx, 0)
		before = set("Watch+InsertOne", ins)
		if err == nil {
			coll.InsertOne(ctx, ins)
			coll.UpdateOne(ctx, bson.D{{Key: "g", Value: "grp"}}, bson.D{{Key: "$set", Value: bson.D{{Key: "w", Value: bson.A{int32(1), bson.D{{Key: "x", Value: int32(2)}}}}}}})
			for n := 0; n < 50 && stream.TryNext(ctx); n++ {
				var ev bson.D
				var evm bson.M
				stream.Decode(&ev)
				stream.Decode(&evm)
				k.results = append(k.results, ev, evm, []byte(stream.ResumeToken()))
			}
			// the stream stays open while the judge overwrites what it handed out:
			// its token, asked for again, must be unchanged and still resumable
			k.reobserve = func() string {
				tok := stream.ResumeToken()
				out := fmt.Sprintf("token=%x", []byte(tok))
				if tok != nil {
					s2, err := coll.Watch(ctx, bson.A{}, options.ChangeStream().SetResumeAfter(tok))
					out += fmt.Sprintf(" resumable=%v", err == nil)
					if err == nil {
						s2.Close(ctx)
					}
				}
				return out
			}
			k.cleanup = func() { stream.Close(ctx) }
		}
	}
	if before == nil {
		return
	}
	// the arguments as the judge sees them: for pointer arguments compare the pointees
	k.judge(before)
}
