package checks

import (
	"context"
	"fmt"
	"os"
	"path/filepath"

	"github.com/256dpi/lungo"
	"go.mongodb.org/mongo-driver/bson"

	"verifharness/c05lib"
	"verifharness/fw"
)

// c05SessionReuse: an explicit session transaction whose CommitTransaction
// fails in the store (the file store itself fails: its directory is gone, or a
// wrapper fails the call) and whose session is used further, as an application
// that handles the error would: reads through the session must show the last
// persisted state, an auto-committed write through the session must succeed
// and be in the file, the session must be able to start and commit a new
// transaction, and the file always holds exactly the last persisted state.
func c05SessionReuse(c *fw.Ctx) {
	caseNo := 0
	for _, fault := range []string{"wrapper", "directory-removed"} {
		for writes := 1; writes <= 3; writes++ {
			for prior := 0; prior <= 1; prior++ {
				for _, next := range []string{"read,write,txn", "txn,write", "write,read,txn", "retry-commit,write,txn"} {
					caseNo++
					if caseNo%c.NBatches != c.Batch {
						continue
					}
					idx := 420000 + caseNo
					if c.Skip(idx) {
						continue
					}
					fault, writes, prior, next, no := fault, writes, prior, next, caseNo
					desc := map[string]interface{}{"fault": fault, "writes_in_failed_transaction": writes, "commits_before": prior, "then": next}
					c.Case(idx, func() interface{} { return desc }, nil, func() {
						c.Eval(1)
						base := filepath.Join(c.Scratch, fmt.Sprintf("sr-%d", no))
						dir := filepath.Join(base, "data")
						os.MkdirAll(dir, 0755)
						defer os.RemoveAll(base)
						file := filepath.Join(dir, "db.bson")
						st := &countingStore{inner: lungo.NewFileStore(file, 0644), fail: map[int]bool{}}
						client, engine, err := lungo.Open(nil, lungo.Options{Store: st, ExpireInterval: 1 << 40})
						if err != nil {
							c.Inconclusive("open: " + err.Error())
							return
						}
						defer engine.Close()
						ctx := context.Background()
						coll := client.Database("d").Collection("c")
						for i := 0; i < prior; i++ {
							if _, err := coll.InsertOne(ctx, bson.D{{Key: "_id", Value: fmt.Sprintf("prior-%d", i)}}); err != nil {
								c.Inconclusive("prior write: " + err.Error())
								return
							}
						}
						persisted := c05lib.Describe(engine.Catalog())
						count := func(cx context.Context) int64 { n, _ := coll.CountDocuments(cx, bson.D{}); return n }
						persistedCount := count(ctx)
						sess, _ := client.StartSession()
						defer sess.EndSession(ctx)
						var sctx lungo.ISessionContext
						lungo.WithSession(ctx, sess, func(sc lungo.ISessionContext) error { sctx = sc; return nil })
						if err := sess.StartTransaction(); err != nil {
							c.Inconclusive("start: " + err.Error())
							return
						}
						for i := 0; i < writes; i++ {
							if _, err := coll.InsertOne(sctx, bson.D{{Key: "_id", Value: fmt.Sprintf("lost-%d", i)}}); err != nil {
								c.Inconclusive("write in transaction: " + err.Error())
								return
							}
						}
						if fault == "wrapper" {
							st.fail[st.n+1] = true
						} else {
							os.RemoveAll(dir)
						}
						cerr := sess.CommitTransaction(ctx)
						heal := func() {
							if fault != "wrapper" {
								os.MkdirAll(dir, 0755)
							}
						}
						if cerr == nil {
							c.Violate("storefault:error-swallowed", "the store failed while committing a session transaction but CommitTransaction reported success", desc)
							return
						}
						c.Count("failed_session_commits_with_reuse", 1)
						if v := c05lib.Describe(engine.Catalog()); v != persisted {
							c.Violate("storefault:visible-state-changed", "the store failed while committing a session transaction but the state visible to clients changed", desc)
							return
						}
						heal()
						fileIs := func(after string) bool {
							cat, lerr := lungo.NewFileStore(file, 0644).Load()
							if lerr != nil || c05lib.Describe(cat) != persisted {
								c.Violate("storefault:file-differs", fmt.Sprintf("after %s (following a failed session commit) the file does not hold the last persisted state (load error %v)", after, lerr), desc)
								return false
							}
							return true
						}
						if fault == "wrapper" && !fileIs("the failed commit") {
							return
						}
						k := 0
						steps := splitComma(next)
						for _, s := range steps {
							switch s {
							case "read":
								c.Count("session_reads_after_failed_commit", 1)
								if n := count(sctx); n != persistedCount {
									c.Violate("storefault:session-sees-unpersisted", fmt.Sprintf("after a session commit that failed in the store a read through the same session returns %d documents, the last persisted state has %d", n, persistedCount), desc)
									return
								}
							case "write":
								k++
								_, err := coll.InsertOne(sctx, bson.D{{Key: "_id", Value: fmt.Sprintf("after-%d", k)}})
								if err != nil {
									c.Violate("storefault:later-commit-failed", "after a session commit that failed in the store an auto-committed write through the same session fails: "+err.Error(), desc)
									return
								}
								if v := c05lib.Describe(engine.Catalog()); v == persisted {
									c.Violate("storefault:acknowledged-write-invisible", "a write through the session was acknowledged after the failed commit but other clients do not see it", desc)
									return
								}
								persisted = c05lib.Describe(engine.Catalog())
								persistedCount = count(ctx)
								if persistedCount != int64(prior+k) {
									c.Violate("storefault:failed-commit-resurfaced", fmt.Sprintf("after the failed commit and %d later writes the collection holds %d documents instead of %d: writes of the failed transaction came back", k, persistedCount, prior+k), desc)
									return
								}
								if !fileIs("an acknowledged write through the session") {
									return
								}
							case "retry-commit":
								// committing again must not resurrect the failed transaction
								sess.CommitTransaction(ctx)
								if v := c05lib.Describe(engine.Catalog()); v != persisted {
									c.Violate("storefault:visible-state-changed", "a second CommitTransaction after the failed one changed the visible state", desc)
									return
								}
							case "txn":
								if err := sess.StartTransaction(); err != nil {
									c.Violate("storefault:session-unusable", "after a session commit that failed in the store the session cannot start a new transaction: "+err.Error(), desc)
									return
								}
								k++
								_, err := coll.InsertOne(sctx, bson.D{{Key: "_id", Value: fmt.Sprintf("after-%d", k)}})
								if err == nil {
									err = sess.CommitTransaction(ctx)
								}
								if err != nil {
									c.Violate("storefault:later-commit-failed", "after a session commit that failed in the store the next transaction of the session fails: "+err.Error(), desc)
									return
								}
								persisted = c05lib.Describe(engine.Catalog())
								persistedCount = count(ctx)
								if persistedCount != int64(prior+k) {
									c.Violate("storefault:failed-commit-resurfaced", fmt.Sprintf("after the failed commit and %d later writes the collection holds %d documents instead of %d", k, persistedCount, prior+k), desc)
									return
								}
								if !fileIs("the next transaction of the session") {
									return
								}
							}
						}
						free, active, _, _ := engine.VerifState()
						if free != 1 || active {
							c.Violate("storefault:slot-not-free", fmt.Sprintf("after the session was used further the writer slot is not free (free=%d txn=%v)", free, active), desc)
							return
						}
						c.Nontrivial(fw.Hash64([]byte(fmt.Sprint(desc))))
					})
				}
			}
		}
	}
}

func splitComma(s string) []string {
	var out []string
	cur := ""
	for _, ch := range s {
		if ch == ',' {
			out = append(out, cur)
			cur = ""
		} else {
			cur += string(ch)
		}
	}
	return append(out, cur)
}
