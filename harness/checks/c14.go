package checks

import (
	"bytes"
	"context"
	"errors"
	"fmt"
	"strings"

	"github.com/256dpi/lungo"
	"github.com/256dpi/lungo/mongokit"
	"go.mongodb.org/mongo-driver/bson"
	"go.mongodb.org/mongo-driver/mongo/options"

	"verifharness/fw"
	"verifharness/gen"
	"verifharness/ref"
)

// C14 — projections: reference agreement in the domain, sub-document relation
// and "nothing unrequested" on every input, inclusion/exclusion mixing, and
// non-mutation of the stored document and later results.

func init() {
	fw.Register(&fw.Check{
		ID: "C14",
		Rule: "seeded (document, projection) pairs: 1-4 entries over the document's own dotted paths (through embedded documents; array paths and overlapping paths also generated), flags 0/1/true/false/1.0, _id handling, " +
			"$slice counts and [skip,limit] incl. negative values, $elemMatch conditions aimed at real elements; applied by mongokit.Project on the stored pointer and through Find/FindOne/FindOneAndUpdate; " +
			"non-trivial = projection accepted and result differs from the stored document; distinct = hash of document+projection",
		Assumptions: []string{"ref.Project implements DESIGN.md 8.4; inclusion results are compared as field sets", "fan-out over arrays of sub-documents, overlapping paths, numeric path segments are generated for the non-mutation oracle only"},
		Batches:     func(tier string) int { return 16 },
		Require: func(tier string) map[string]int64 {
			return map[string]int64{"ref_asserted": 1500, "nonmutation_checked": 3000, "subdoc_relation_checked": 2000, "mix_rejected": 50, "mix_rejected_driver": 20, "upserted_results_projected": 200, "driver_compared": 300, "repeated_projections": 2000}
		},
		Run: runC14,
	})
}

func genProjection(r *fw.Rand, d bson.D) bson.D { return gen.Projection(r, d, gen.ProjOpts{}) }

func hasNumericSeg(p string) bool { return gen.HasNumericSeg(p) }

func runC14(c *fw.Ctx) {
	c14Deterministic(c)
	ncases := c.N(16000, 640000) / c.NBatches
	client, engine, err := openMemEngine()
	if err != nil {
		c.Inconclusive("open engine: " + err.Error())
		return
	}
	defer engine.Close()
	ctx := context.Background()
	coll := client.Database("c14").Collection("c")
	for q := 0; q < ncases; q++ {
		idx := c.Batch*ncases + q
		if c.Skip(idx) {
			continue
		}
		r := c.Rand(idx)
		o := gen.DefaultOpts(gen.Core)
		if idx%5 == 4 {
			o = gen.Opts{Pool: gen.Boundary, Depth: 3, MaxArr: 4, MaxFields: 4, NestedArr: true}
		}
		d := append(bson.D{{Key: "_id", Value: int32(1)}}, gen.Doc(r, o, false)...)
		proj := genProjection(r, d)
		switch idx % 16 {
		case 3:
			// a document-valued _id holding an array, with an overlay inside it
			// (the _id is copied into every inclusion result)
			d[0].Value = bson.D{{Key: "k", Value: int32(1)}, {Key: "arr", Value: bson.A{int32(1), int32(2), int32(3)}}}
			proj = bson.D{{Key: "_id.arr", Value: bson.D{{Key: "$slice", Value: fw.Pick(r, []interface{}{int32(1), int32(-1), bson.A{int32(1), int32(1)}})}}}}
			if len(d) > 1 {
				proj = append(proj, bson.E{Key: d[1].Key, Value: int32(1)})
			} else {
				proj = append(proj, bson.E{Key: "zz", Value: int32(1)})
			}
			if r.Bool() {
				proj[0], proj[1] = proj[1], proj[0]
			}
		case 7, 11:
			// parent and nested paths, nested operator overlays
			d = append(d, bson.E{Key: "w", Value: bson.A{bson.D{{Key: "b", Value: bson.A{int32(1), int32(2)}}, {Key: "c", Value: int32(1)}}, bson.D{{Key: "b", Value: bson.A{int32(3)}}}}})
			proj = gen.Projection(r, d, gen.ProjOpts{Overlap: true})
		}
		describe := func() interface{} {
			return map[string]interface{}{"doc": gen.JSON(d), "projection": gen.JSON(proj)}
		}
		c.Case(idx, describe, nil, func() {
			c.Eval(1)
			c14Case(c, ctx, coll, d, proj, idx)
		})
	}
}

func c14Case(c *fw.Ctx, ctx context.Context, coll lungo.ICollection, d bson.D, proj bson.D, idx int) {
	w := map[string]interface{}{"doc": gen.JSON(d), "projection": gen.JSON(proj)}
	stored := gen.CloneDoc(d)
	pc := gen.CloneDoc(proj)
	before := gen.Bytes(stored)
	pb := gen.Bytes(pc)
	got, lerr := mongokit.Project(&stored, &pc)
	c.Count("nonmutation_checked", 1)
	if !bytes.Equal(before, gen.Bytes(stored)) {
		w["stored_after"] = gen.JSON(stored)
		c.Violate(orGeneric(c14Key(proj), "project:mutates-stored"), "projecting altered the stored document", w)
	}
	if !bytes.Equal(pb, gen.Bytes(pc)) {
		c.Violate("project:mutates-projection", "projecting altered the projection argument", w)
	}
	// (mongokit.Project may share sub-values with the stored document by design;
	// the driver decodes results into fresh values — that is C17's business.)
	if lerr == nil && got != nil {
		gotCopy := gen.CloneDoc(*got)
		got = &gotCopy
	}

	info := &ref.ProjInfo{}
	want, rerr := ref.Project(d, proj, info)

	// mixing inclusion and exclusion must be rejected
	if rerr != nil && strings.Contains(rerr.Error(), "mix of inclusion and exclusion") && !info.OutOfDomain {
		c.Count("mix_rejected", 1)
		if lerr == nil {
			w["result"] = gen.JSON(*got)
			c.Violate("project:mix-accepted", "a projection mixing inclusion and exclusion was accepted", w)
		}
		// driver level: the mix is an error of the call, also when the filter
		// matches nothing or the collection does not exist (nothing is projected)
		if idx%2 == 0 {
			c.Count("mix_rejected_driver", 1)
			none := bson.D{{Key: "_id", Value: "no such document"}}
			for _, cl := range []lungo.ICollection{coll, coll.Database().Collection("c14-missing")} {
				if cur, err := cl.Find(ctx, none, options.Find().SetProjection(proj)); err == nil {
					cur.Close(ctx)
					c.Violate("project:mix-accepted-driver", "Find accepted a projection mixing inclusion and exclusion (no document matched)", w)
					break
				}
				if err := cl.FindOne(ctx, none, options.FindOne().SetProjection(proj)).Err(); err == nil || errors.Is(err, lungo.ErrNoDocuments) {
					c.Violate("project:mix-accepted-driver", fmt.Sprintf("FindOne accepted a projection mixing inclusion and exclusion (no document matched): %v", err), w)
					break
				}
				if err := cl.FindOneAndDelete(ctx, none, options.FindOneAndDelete().SetProjection(proj)).Err(); err == nil || errors.Is(err, lungo.ErrNoDocuments) {
					c.Violate("project:mix-accepted-driver", fmt.Sprintf("FindOneAndDelete accepted a projection mixing inclusion and exclusion (no document matched): %v", err), w)
					break
				}
			}
		}
	}
	if !info.OutOfDomain {
		c.Count("ref_asserted", 1)
		switch {
		case rerr != nil && lerr == nil:
			w["reference_rejects"] = rerr.Error()
			c.Violate("project:accepts-invalid", "Project accepted a projection the reference rejects: "+rerr.Error(), w)
		case rerr == nil && lerr != nil:
			w["error"] = lerr.Error()
			c.Violate("project:rejects-valid", "Project rejected a valid projection: "+lerr.Error(), w)
		case rerr == nil:
			same := false
			if info.Inclusion {
				same = ref.SameFieldSet(*got, want)
			} else {
				same = ref.SameValue(*got, want)
			}
			if !same {
				w["result"] = gen.JSON(*got)
				w["expected"] = gen.JSON(want)
				c.Violate(orGeneric(c14Key(proj), "project:vs-ref"), "projected document differs from the reference", w)
			}
		}
	} else {
		c.Count("ref_out_of_domain", 1)
	}
	if lerr != nil {
		return
	}
	if !bytes.Equal(gen.Bytes(*got), before) {
		c.Nontrivial(fw.Hash64([]byte(gen.JSON(d) + gen.JSON(proj))))
		if c.WantSample() {
			c.Sample(map[string]interface{}{"doc": gen.JSON(d), "projection": gen.JSON(proj), "result": gen.JSON(*got)})
		}
	}

	// reference-free: every value in the result equals the stored value at that path
	special := map[string]bool{}
	for _, e := range proj {
		if od, ok := e.Value.(bson.D); ok && len(od) > 0 && strings.HasPrefix(od[0].Key, "$") {
			special[e.Key] = true
		}
	}
	// (array indexes in projection paths are not a MongoDB feature: lungo nulls an
	// excluded element in place; such projections are outside this relation)
	numericSeg := false
	for _, e := range proj {
		if hasNumericSeg(e.Key) {
			numericSeg = true
		}
	}
	if numericSeg {
		c.Count("subdoc_relation_skipped_numeric_segment", 1)
	} else {
		c.Count("subdoc_relation_checked", 1)
	}
	if bad := subdocRelation(*got, d, "", special); bad != "" && !numericSeg {
		w["result"] = gen.JSON(*got)
		c.Violate("project:value-differs", "projected result holds a value that differs from the stored value at "+bad, w)
	}
	// reference-free: an inclusion projection returns nothing unrequested
	incl := false
	req := map[string]bool{"_id": true}
	for _, e := range proj {
		if f, ok := e.Value.(bson.D); ok && len(f) > 0 && f[0].Key == "$elemMatch" {
			incl = true
		}
		if b, ok := projTruth(e.Value); ok && b {
			incl = true
		}
		req[strings.SplitN(e.Key, ".", 2)[0]] = true
	}
	if incl {
		for _, e := range *got {
			if !req[e.Key] {
				w["result"] = gen.JSON(*got)
				c.Violate("project:unrequested", fmt.Sprintf("inclusion projection returned the unrequested field %q", e.Key), w)
			}
		}
	}

	// driver level: Find / FindOne / FindOneAndUpdate with the projection; exact
	// dump of the collection and a later unprojected Find must not change
	if idx%4 == 0 {
		coll.DeleteMany(ctx, bson.D{})
		other := bson.D{{Key: "_id", Value: int32(2)}, {Key: "a", Value: bson.D{{Key: "arr", Value: bson.A{int32(1), int32(2)}}}}}
		coll.InsertMany(ctx, []interface{}{d, other})
		dump0 := dumpColl(ctx, coll)
		c.Count("driver_compared", 1)
		cur, err := coll.Find(ctx, bson.D{{Key: "_id", Value: int32(1)}}, options.Find().SetProjection(proj))
		if err != nil {
			c.Violate("project:driver-error", "Find with projection failed although Project succeeded: "+err.Error(), w)
			return
		}
		var docs []bson.D
		cur.All(ctx, &docs)
		// (field order among several operator overlays is not deterministic in
		// lungo and not part of the property: compare as field sets; overlapping
		// paths are applied in an unspecified order and are not compared)
		overlapping := info.Overlap || strings.Contains(info.Why, "collide")
		sameAs := func(x bson.D) bool { return overlapping || ref.SameFieldSet(x, *got) }
		if len(docs) != 1 || !sameAs(docs[0]) {
			w["find_result"] = jsonList(docs)
			w["project_result"] = gen.JSON(*got)
			c.Violate("project:driver-differs", "Find with projection returned another document than Project", w)
		}
		var one bson.D
		coll.FindOne(ctx, bson.D{{Key: "_id", Value: int32(1)}}, options.FindOne().SetProjection(proj)).Decode(&one)
		if !sameAs(one) {
			c.Violate("project:driver-differs", "FindOne with projection returned another document than Project", w)
		}
		var fau bson.D
		coll.FindOneAndUpdate(ctx, bson.D{{Key: "_id", Value: int32(1)}}, bson.D{{Key: "$set", Value: bson.D{{Key: "zz9", Value: int32(1)}}}}, options.FindOneAndUpdate().SetProjection(proj)).Decode(&fau)
		if !sameAs(fau) {
			w["result"] = gen.JSON(fau)
			c.Violate("project:driver-differs", "FindOneAndUpdate (return before) with projection returned another document than Project", w)
		}
		coll.UpdateOne(ctx, bson.D{{Key: "_id", Value: int32(1)}}, bson.D{{Key: "$unset", Value: bson.D{{Key: "zz9", Value: ""}}}})
		// a document created by the call itself (upsert, return the new document)
		// is projected like any other
		if len(d) > 1 {
			var up, raw bson.D
			uerr := coll.FindOneAndUpdate(ctx, bson.D{{Key: "_id", Value: int32(77)}}, bson.D{{Key: "$set", Value: d[1:]}},
				options.FindOneAndUpdate().SetUpsert(true).SetReturnDocument(options.After).SetProjection(proj)).Decode(&up)
			coll.FindOne(ctx, bson.D{{Key: "_id", Value: int32(77)}}).Decode(&raw)
			coll.DeleteOne(ctx, bson.D{{Key: "_id", Value: int32(77)}})
			if uerr == nil && raw != nil {
				c.Count("upserted_results_projected", 1)
				rc, pc3 := gen.CloneDoc(raw), gen.CloneDoc(proj)
				if alone, aerr := mongokit.Project(&rc, &pc3); aerr == nil && !overlapping && !ref.SameFieldSet(up, gen.CloneDoc(*alone)) {
					w["upserted_result"] = gen.JSON(up)
					w["projected_alone"] = gen.JSON(*alone)
					c.Violate("project:driver-differs", "FindOneAndUpdate (upsert, return after) returned the new document without applying the projection to it", w)
				}
			}
		}
		// several documents through one Find: each result must be what projecting
		// that document alone gives (no state may leak from one document to the next)
		if !overlapping {
			mr := fw.NewRand(uint64(idx)*7919 + 17)
			variants := []bson.D{c14Variant(mr, d, 3), append(bson.D{{Key: "_id", Value: int32(4)}}, gen.Doc(mr, gen.DefaultOpts(gen.Core), false)...), c14Variant(mr, d, 5)}
			ins := []interface{}{}
			for _, v := range variants {
				ins = append(ins, v)
			}
			coll.InsertMany(ctx, ins)
			all := append([]bson.D{d, other}, variants...)
			cur, err := coll.Find(ctx, bson.D{}, options.Find().SetProjection(proj))
			var many []bson.D
			if err == nil {
				err = cur.All(ctx, &many)
			}
			c.Count("driver_multi_compared", 1)
			if err != nil || len(many) != len(all) {
				w["find_result"] = jsonList(many)
				c.Violate("project:driver-multi", fmt.Sprintf("Find over %d documents with a projection returned %d documents (err=%v)", len(all), len(many), err), w)
			} else {
				for i := range all {
					sd, pc2 := gen.CloneDoc(all[i]), gen.CloneDoc(proj)
					alone, aerr := mongokit.Project(&sd, &pc2)
					if aerr != nil || !ref.SameFieldSet(many[i], *alone) {
						w["documents"] = jsonList(all)
						w["find_result"] = jsonList(many)
						if aerr == nil {
							w["projected_alone"] = gen.JSON(*alone)
						}
						c.Violate("project:driver-multi", fmt.Sprintf("result %d of a Find over several documents differs from projecting that document alone", i), w)
						break
					}
				}
			}
			coll.DeleteMany(ctx, bson.D{{Key: "_id", Value: bson.D{{Key: "$gte", Value: int32(3)}}}})
		}
		dump1 := dumpColl(ctx, coll)
		if dump0 != dump1 {
			w["before"] = dump0
			w["after"] = dump1
			c.Violate(orGeneric(c14Key(proj), "project:driver-mutates"), "the stored collection / a later unprojected Find changed after projecting", w)
		}
	}
}

// c14Variant copies d with a new _id and some arrays emptied or replaced by
// scalars (so that operator projections apply to one document but not the next).
func c14Variant(r *fw.Rand, d bson.D, id int32) bson.D {
	var walk func(v interface{}) interface{}
	walk = func(v interface{}) interface{} {
		switch x := v.(type) {
		case bson.D:
			out := make(bson.D, 0, len(x))
			for _, e := range x {
				out = append(out, bson.E{Key: e.Key, Value: walk(e.Value)})
			}
			return out
		case bson.A:
			switch r.Intn(4) {
			case 0:
				return bson.A{}
			case 1:
				return int32(7)
			case 2:
				if len(x) > 1 {
					return bson.A{walk(x[0])}
				}
			}
			out := make(bson.A, 0, len(x))
			for _, e := range x {
				out = append(out, walk(e))
			}
			return out
		}
		return v
	}
	out := walk(gen.CloneDoc(d)).(bson.D)
	out[0].Value = id
	return out
}

// c14Key: input signatures for known findings.
func c14Key(proj bson.D) string { return "" }

func projTruth(v interface{}) (bool, bool) {
	switch b := v.(type) {
	case bool:
		return b, true
	case int32:
		return b != 0, true
	case int64:
		return b != 0, true
	case float64:
		return b != 0, true
	}
	return false, false
}

func dumpColl(ctx context.Context, coll lungo.ICollection) string {
	cur, err := coll.Find(ctx, bson.D{})
	if err != nil {
		return "error: " + err.Error()
	}
	var docs []bson.D
	cur.All(ctx, &docs)
	return strings.Join(jsonList(docs), "\n")
}

// scribble overwrites every nested container position of a value in place.
func scribble(v interface{}) {
	switch x := v.(type) {
	case bson.D:
		for i := range x {
			scribble(x[i].Value)
			x[i].Value = "scribbled"
			x[i].Key = "k" + x[i].Key
		}
	case bson.A:
		for i := range x {
			scribble(x[i])
			x[i] = "scribbled"
		}
	}
}

// subdocRelation checks that every leaf of the result equals the stored value
// at the same path. Containers may be thinned out (exclusions), arrays at paths
// rewritten by $slice/$elemMatch must be a sub-sequence of the stored array,
// and a result document with numeric keys may stand for stored array indexes.
func subdocRelation(res bson.D, stored bson.D, prefix string, special map[string]bool) string {
	return relValue(res, stored, "", special)
}

func relValue(rv, sv interface{}, path string, special map[string]bool) string {
	switch r := rv.(type) {
	case bson.D:
		for _, e := range r {
			p := e.Key
			if path != "" {
				p = path + "." + e.Key
			}
			var child interface{} = ref.Missing
			switch s := sv.(type) {
			case bson.D:
				for _, f := range s {
					if f.Key == e.Key {
						child = f.Value
					}
				}
			case bson.A:
				var idx int
				if _, err := fmt.Sscanf(e.Key, "%d", &idx); err == nil && idx >= 0 && idx < len(s) {
					child = s[idx]
				}
			}
			if child == ref.Missing {
				return p
			}
			if bad := relValue(e.Value, child, p, special); bad != "" {
				return bad
			}
		}
		return ""
	case bson.A:
		s, ok := sv.(bson.A)
		if !ok {
			return path
		}
		if special[path] {
			j := 0
			for _, el := range r {
				found := false
				for j < len(s) {
					if ref.SameValue(el, s[j]) {
						found = true
						j++
						break
					}
					j++
				}
				if !found {
					return path
				}
			}
			return ""
		}
		if len(r) != len(s) {
			return path
		}
		for i := range r {
			if bad := relValue(r[i], s[i], fmt.Sprintf("%s.%d", path, i), special); bad != "" {
				return bad
			}
		}
		return ""
	}
	if !ref.SameValue(rv, sv) {
		return path
	}
	return ""
}
