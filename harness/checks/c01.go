package checks

import (
	"fmt"
	"sort"
	"strings"

	"github.com/256dpi/lungo"
	"go.mongodb.org/mongo-driver/bson"
	"go.mongodb.org/mongo-driver/bson/primitive"

	"verifharness/drv"
	"verifharness/fw"
	"verifharness/gen"
	"verifharness/model"
	"verifharness/ref"
)

// C01 — CRUD through the driver API matches a sequential reference model.

func init() {
	fw.Register(&fw.Check{
		ID: "C01",
		Rule: "seeded histories of 60-120 driver calls (insert one/many, find with sort/skip/limit, find-one, count, estimated count, distinct, update one/many/by-id with upsert and array filters, replace with upsert, delete one/many, find-one-and-update/replace/delete with sort and return-document, ordered and unordered bulk writes of all six models, index create/create-many/drop/drop-by-key/drop-all/list, create and drop collection, drop database, list collections and databases) over 2 databases x 2 collections with collision-rich and nested documents, in five profiles (mixed, crud, index-churn, failure-rich, bulk/findAndModify-heavy); " +
			"every call is executed by lungo and by an independent sequential model (documents in insertion order + the reference operator semantics of DESIGN.md section 8): error-or-success, counts, ids, returned documents and values, names and failing bulk indexes are compared after every call, then the contents of every collection (documents in natural order, index definitions, existing namespaces); " +
			"fields newly created by one update are compared order-tolerantly and the model adopts lungo's order afterwards; a history stops when a generated input leaves the reference domain; non-trivial = the history contained a failing call followed by a succeeding write, a multi-document write and an upsert; distinct = hash of the call list",
		Assumptions: []string{"the model (packages model and ref) is the trusted statement of MongoDB semantics; no MongoDB server is available", "error classes other than error-or-success are not asserted (uniqueness class: C07)", "CreateCollection on an existing collection and update validation on zero matching documents are not asserted"},
		Batches:     func(tier string) int { return 16 },
		Require: func(tier string) map[string]int64 {
			return map[string]int64{"calls_compared": 10000, "state_comparisons": 10000, "failed_calls_agreed": 1500, "upserts": 300, "multi_document_writes": 500, "bulk_writes": 300, "find_and_modify": 500, "index_calls": 800, "docs_compared": 50000, "projected_results_asserted": 500}
		},
		Run: runC01,
	})
}

func runC01(c *fw.Ctx) {
	nhist := c.N(2400, 48000) / c.NBatches
	profiles := []string{"mixed", "crud", "index", "failure", "mixed"}
	for q := 0; q < nhist; q++ {
		idx := c.Batch*nhist + q
		if c.Skip(idx) {
			continue
		}
		r := c.Rand(idx)
		var w *world
		describe := func() interface{} {
			if w == nil {
				return nil
			}
			return map[string]interface{}{"history": w.history()}
		}
		c.Case(idx, describe, nil, func() {
			c.Eval(1)
			var err error
			w, err = openWorld("")
			if w != nil {
				w.solo = true
			}
			if err != nil {
				c.Inconclusive("open engine: " + err.Error())
				return
			}
			defer w.close()
			c01History(c, w, r, profiles[idx%len(profiles)], c.N(70, 120))
		})
	}
}

func stripV(docs []bson.D) []bson.D {
	out := make([]bson.D, len(docs))
	for i, d := range docs {
		for _, e := range d {
			if e.Key != "v" {
				out[i] = append(out[i], e)
			}
		}
	}
	return out
}

// decimalArithmetic tells whether the call (or a bulk item) uses $inc/$mul with
// a decimal128 operand.
func decimalArithmetic(op drv.Op) bool {
	for _, m := range op.Models {
		if decimalArithmetic(m) {
			return true
		}
	}
	for _, e := range op.Update {
		if e.Key == "$inc" || e.Key == "$mul" {
			if args, ok := e.Value.(bson.D); ok {
				for _, a := range args {
					if _, isDec := a.Value.(primitive.Decimal128); isDec {
						return true
					}
				}
			}
		}
	}
	return false
}

func hasRename(u bson.D) bool {
	for _, e := range u {
		if e.Key == "$rename" {
			return true
		}
	}
	return false
}

func c01History(c *fw.Ctx, w *world, r *fw.Rand, profile string, steps int) {
	m := model.New()
	g := &drv.HistGen{R: r, O: drv.HistOpts{Profile: profile, DBs: []string{"d", "e"}, Colls: []string{"c1", "c2"}, ExplicitIDs: true, Deterministic: true, RichDocs: true, Pool: gen.Core, TTL: true},
		Peek: w.peek, IndexNames: w.indexNames}
	witness := func(extra map[string]interface{}) interface{} {
		mm := map[string]interface{}{"history": w.history()}
		for k, v := range extra {
			mm[k] = v
		}
		return mm
	}
	var callSig []byte
	sawFailThenWrite, failedBefore, sawMulti, sawUpsert := false, false, false, false
	for step := 0; step < steps; step++ {
		op := g.Next()
		if op.Kind == drv.InsertOne && r.Chance(1, 10) {
			op.Docs[0] = stripID(op.Docs[0]) // a generated ObjectID, adopted by the model
		}
		mop := op.Clone()
		res := w.exec(&op)
		if res.Panic != "" {
			return
		}
		if op.Kind == drv.InsertOne && len(res.IDs) == 1 {
			m.AdoptIDs(res.IDs)
		}
		want := m.Exec(&mop)
		if m.OOD != "" {
			c.Count("histories_stopped_out_of_domain", 1)
			c.Count("ood:"+strings.SplitN(m.OOD, ":", 2)[0], 1)
			break
		}
		callSig = append(callSig, []byte(op.String())...)
		c.Count("calls_compared", 1)
		c.Count("op:"+op.Kind, 1)
		switch op.Kind {
		case drv.BulkWrite:
			c.Count("bulk_writes", 1)
		case drv.FindOneAndUpdate, drv.FindOneAndReplace, drv.FindOneAndDelete:
			c.Count("find_and_modify", 1)
		}
		if drv.IsIndexOp(op.Kind) || op.Kind == drv.ListIndexes {
			c.Count("index_calls", 1)
		}
		if res.Upserted > 0 {
			c.Count("upserts", 1)
			sawUpsert = true
		}
		if res.Modified > 1 || res.Inserted > 1 || (op.Kind == drv.DeleteMany && res.Matched > 1) {
			c.Count("multi_document_writes", 1)
			sawMulti = true
		}
		if res.Err != "" && !res.NoDocs {
			failedBefore = true
		} else if failedBefore && drv.IsWrite(op.Kind) {
			sawFailThenWrite = true
		}
		// --- results
		if m.SkipResult {
			c.Count("results_not_asserted", 1)
		}
		if op.Kind != drv.CreateCollection && !m.SkipResult {
			got := res
			if op.Kind == drv.ListIndexes {
				got.Docs = stripV(got.Docs)
			}
			exp := want
			// uniqueness class is C07's assertion; here error-or-success
			got.Unique, exp.Unique = false, false
			retDocs := op.Kind == drv.FindOneAndUpdate || op.Kind == drv.FindOneAndReplace
			if retDocs && got.Err == "" && exp.Err == "" && len(got.Docs) == 1 && len(exp.Docs) == 1 {
				// a returned post-image: compare order-tolerantly against the pre-image
				id := ref.GetPath(exp.Docs[0], "_id")
				pre := m.Touched[string(gen.ValueBytes(id))]
				if ok, why := ref.EqualModNew(pre, got.Docs[0], exp.Docs[0], hasRename(op.Update)); !ok {
					c.Violate("crud:returned-document", fmt.Sprintf("%s returned a document that differs from the model's: %s", op.Kind, why),
						witness(map[string]interface{}{"op": op.String(), "got": gen.JSON(got.Docs[0]), "expected": gen.JSON(exp.Docs[0])}))
					return
				}
				got.Docs, exp.Docs = nil, nil
			}
			// the modified count may differ where only a decimal128 exponent changed
			if got.Modified != exp.Modified && got.Modified >= exp.Modified && got.Modified <= m.ModifiedMax {
				exp.Modified = got.Modified
			}
			// arithmetic with a decimal128 operand: the exponent (and with it the bytes)
			// of the result is not part of the asserted semantics (DESIGN.md 8.3)
			if got.Modified != exp.Modified && decimalArithmetic(op) {
				exp.Modified = got.Modified
			}
			// distinct values: equal numbers of different types are one value; which
			// representative is returned is not specified
			if op.Kind == drv.Distinct && len(got.Values) == len(exp.Values) {
				same := true
				for i := range got.Values {
					if ref.Compare(got.Values[i], exp.Values[i]) != 0 {
						same = false
					}
				}
				if same {
					exp.Values = got.Values
				}
			}
			// projected results: outside the reference's projection domain only the
			// number of documents is asserted; inclusion results are field sets
			if len(got.Docs) == len(exp.Docs) && got.Err == "" && exp.Err == "" && op.Projection != nil {
				switch {
				case m.SkipDocs:
					c.Count("projected_results_unasserted", 1)
					exp.Docs = got.Docs
				case m.LooseDocs:
					same := true
					for i := range got.Docs {
						if !ref.SameFieldSet(got.Docs[i], exp.Docs[i]) {
							same = false
						}
					}
					if same {
						exp.Docs = got.Docs
					}
					c.Count("projected_results_asserted", 1)
				default:
					c.Count("projected_results_asserted", 1)
				}
			}
			if (got.Err == "") == (exp.Err == "") && got.Err != "" {
				c.Count("failed_calls_agreed", 1)
				got.Err, exp.Err = "e", "e"
			}
			if d := got.Diff(exp); d != "" {
				c.Violate("crud:result:"+op.Kind, fmt.Sprintf("%s: lungo's result differs from the sequential model's: %s", op.Kind, d),
					witness(map[string]interface{}{"op": op.String(), "lungo": res.String(), "model": want.String()}))
				return
			}
		}
		// --- contents
		c.Count("state_comparisons", 1)
		cat := w.engine.Catalog()
		real := map[string]bool{}
		for h, ns := range cat.Namespaces {
			if h[0] == lungo.Local {
				continue
			}
			real[h.String()] = true
			mc := m.Colls[h.String()]
			if mc == nil {
				c.Violate("crud:namespace", fmt.Sprintf("after %s collection %s exists in lungo but not in the model", op.Kind, h.String()), witness(map[string]interface{}{"op": op.String()}))
				return
			}
			if len(ns.Documents.List) != len(mc.Docs) {
				c.Violate("crud:contents", fmt.Sprintf("after %s collection %s holds %d documents, the model %d", op.Kind, h.String(), len(ns.Documents.List), len(mc.Docs)),
					witness(map[string]interface{}{"op": op.String(), "model_docs": jsonList(mc.Docs)}))
				return
			}
			for i, dp := range ns.Documents.List {
				c.Count("docs_compared", 1)
				gd, md := *dp, mc.Docs[i]
				if string(gen.Bytes(gd)) == string(gen.Bytes(md)) {
					continue
				}
				id := ref.GetPath(md, "_id")
				pre, touched := m.Touched[string(gen.ValueBytes(id))]
				if !touched && ref.SameValue(gd, md) {
					// equal up to the exponent of a decimal128 (not asserted): adopt
					mc.Docs[i] = gen.CloneDoc(gd)
					continue
				}
				if !touched {
					c.Violate("crud:contents", fmt.Sprintf("after %s document %d of %s differs from the model's although the call did not touch it: %s vs %s", op.Kind, i, h.String(), gen.JSON(gd), gen.JSON(md)),
						witness(map[string]interface{}{"op": op.String()}))
					return
				}
				if ok, why := ref.EqualModNew(pre, gd, md, hasRename(op.Update) || op.Kind == drv.BulkWrite); !ok {
					c.Violate("crud:contents", fmt.Sprintf("after %s document %d of %s differs from the model's: %s (lungo %s, model %s)", op.Kind, i, h.String(), why, gen.JSON(gd), gen.JSON(md)),
						witness(map[string]interface{}{"op": op.String()}))
					return
				}
				// adopt lungo's field order so that a tolerated difference cannot snowball
				mc.Docs[i] = gen.CloneDoc(gd)
			}
			// index definitions
			var gi, mi []string
			for n, ix := range ns.Indexes {
				cfg := ix.Config()
				part := ""
				if cfg.Partial != nil {
					part = gen.JSON(*cfg.Partial)
				}
				gi = append(gi, fmt.Sprintf("%s key=%s unique=%v partial=%s expiry=%d", n, gen.JSON(*cfg.Key), cfg.Unique, part, int64(cfg.Expiry)))
			}
			for n, s := range mc.Indexes {
				part := ""
				if s.Partial != nil {
					part = gen.JSON(s.Partial)
				}
				exp := int64(0)
				if s.Expire != nil {
					exp = int64(*s.Expire) * 1e9
					if exp == 0 {
						exp = 1
					}
				}
				mi = append(mi, fmt.Sprintf("%s key=%s unique=%v partial=%s expiry=%d", n, gen.JSON(s.Keys), s.Unique, part, exp))
			}
			sort.Strings(gi)
			sort.Strings(mi)
			if fmt.Sprint(gi) != fmt.Sprint(mi) {
				c.Violate("crud:indexes", fmt.Sprintf("after %s the indexes of %s are %v, the model's %v", op.Kind, h.String(), gi, mi), witness(map[string]interface{}{"op": op.String()}))
				return
			}
		}
		for k := range m.Colls {
			if !real[k] {
				c.Violate("crud:namespace", fmt.Sprintf("after %s collection %s exists in the model but not in lungo", op.Kind, k), witness(map[string]interface{}{"op": op.String()}))
				return
			}
		}
	}
	if sawFailThenWrite && sawMulti && sawUpsert {
		c.Count("nontrivial_histories", 1)
		c.Nontrivial(fw.Hash64(callSig))
		if c.WantSample() {
			hs := w.history()
			if len(hs) > 20 {
				hs = hs[:20]
			}
			c.Sample(map[string]interface{}{"profile": profile, "first_calls": hs})
		}
	}
}
