package checks

import (
	"bytes"
	"context"
	"errors"
	"fmt"
	"os"
	"os/exec"
	"path/filepath"
	"regexp"
	"sort"
	"strconv"
	"strings"
	"time"

	"github.com/256dpi/lungo"
	"go.mongodb.org/mongo-driver/bson"

	"verifharness/c05lib"
	"verifharness/fw"
)

// C05 — committed data survives crashes: the store file is always old or new.

func init() {
	fw.Register(&fw.Check{
		ID:    "C05",
		Level: "fault_enumeration",
		Rule: "a victim process (built from the working tree, main goroutine pinned to the traced thread) performs 5 (quick) / 8 (thorough, incl. a 1 MiB image) commits on a file store, printing BEGIN/ACK markers; its file-system calls are recorded with strace; " +
			"(1) kill sweep: for every commit and every file-system call of its window the victim is re-run and killed (strace SIGKILL injection lands before that call); the injected run's own trace must end at the intended call; the file must load (real FileStore.Load) as exactly the state after the last acknowledged commit or the commit in flight, and an engine reopened on the directory (stale temporary file present) must commit and reload; " +
			"(2) power-loss enumeration from the recorded trace under a POSIX-style persistence model (file data is durable only after fsync of the file, directory entries only after fsync of the directory): at every point between calls every subset of the pending directory operations x for every file with unsynced data the images {nothing, 1 byte, 4 KiB, half, all but 4 KiB, full, full with the unsynced tail zeroed} is materialised and judged the same way; acknowledged commits must never be lost; " +
			"(3) fault sweep: every file-system call of every window fails once with ENOSPC/EIO/EACCES (strace error injection): the write must report an error, the visible state must stay at the last persisted one, the retry must succeed and the final file must equal the visible state; plus an in-process Store wrapper failing every subset of up to 3 of the first 8 store calls; " +
			"non-trivial = a kill point, crash state or fault that strikes inside a commit window after the temporary file was created; distinct = (commit, call, variant)",
		Assumptions: []string{"power loss is simulated from the recorded system-call trace under the stated model; real power loss cannot be produced in the sandbox", "tearing inside one write call is modelled by the listed prefixes, not produced", "strace's when= counts calls of one name by the traced (main) thread; every injected run is validated against its own trace"},
		Batches:     func(tier string) int { return 16 },
		Require: func(tier string) map[string]int64 {
			return map[string]int64{"kill_points": 40, "kill_points_validated": 40, "crash_states": 80, "crash_points": 40, "states_after_ack_checked": 8, "syscall_faults": 20, "store_fault_subsets": 90, "failed_commits_over_the_log_limit": 12, "failed_session_commits_with_reuse": 40, "session_reads_after_failed_commit": 20, "reopen_after_crash": 100}
		},
		WorkerTimeoutSec: func(tier string) int { return 2400 },
		Run:              runC05,
	})
}

const c05Trace = "openat,write,pwrite64,writev,fsync,fdatasync,close,renameat,renameat2,rename,unlinkat,unlink,ftruncate,truncate,linkat,sync_file_range,copy_file_range"

type c05Call struct {
	Line    string
	Name    string
	Args    string
	Ret     string
	Ordinal int // n-th call of this name by the thread
	Step    int // commit window (0 = outside)
	InStore bool
}

var c05LineRe = regexp.MustCompile(`^(\w+)\((.*)\)\s+= (.*)$`)
var c05DataRe = regexp.MustCompile(`"(?:[^"\\]|\\.)*"(\.\.\.)?`)

func c05Child() string { return os.Getenv("VERIF_C05CHILD") }

// c05RunTraced runs the victim under strace and returns stdout and the parsed
// calls of the main thread.
func c05RunTraced(dir, profile, inject string, snap bool) (stdout string, calls []c05Call, killed bool, err error) {
	tracePath := filepath.Join(dir, "..", filepath.Base(dir)+".trace")
	os.Remove(tracePath)
	args := []string{"-y", "-s", "64", "-o", tracePath, "-e", "trace=" + c05Trace}
	if inject != "" {
		args = append(args, "-e", "inject="+inject)
	}
	args = append(args, c05Child(), dir, profile)
	if snap {
		args = append(args, "snap")
	}
	cmd := exec.Command("strace", args...)
	var out bytes.Buffer
	cmd.Stdout = &out
	cmd.Stderr = &out
	done := make(chan error, 1)
	if err := cmd.Start(); err != nil {
		return "", nil, false, err
	}
	go func() { done <- cmd.Wait() }()
	select {
	case werr := <-done:
		_ = werr
	case <-time.After(120 * time.Second):
		cmd.Process.Kill()
		<-done
		return out.String(), nil, false, errors.New("victim watchdog (120 s)")
	}
	b, rerr := os.ReadFile(tracePath)
	if rerr != nil {
		return out.String(), nil, false, rerr
	}
	os.Remove(tracePath)
	step := 0
	ord := map[string]int{}
	for _, l := range strings.Split(string(b), "\n") {
		if strings.Contains(l, "+++ killed by SIGKILL") {
			killed = true
		}
		m := c05LineRe.FindStringSubmatch(l)
		if m == nil {
			continue
		}
		c := c05Call{Line: l, Name: m[1], Args: m[2], Ret: strings.TrimSpace(m[3])}
		ord[c.Name]++
		c.Ordinal = ord[c.Name]
		if c.Name == "write" && strings.HasPrefix(c.Args, "1<") {
			if i := strings.Index(c.Args, `"BEGIN `); i >= 0 {
				n, _ := strconv.Atoi(strings.TrimRight(strings.SplitN(c.Args[i+7:], `\n`, 2)[0], `"`))
				step = n
			} else if strings.Contains(c.Args, `"ACK `) || strings.Contains(c.Args, `"ERR `) {
				calls = append(calls, c)
				step = 0
				continue
			}
		}
		c.Step = step
		c.InStore = strings.Contains(c.Args, dir)
		calls = append(calls, c)
	}
	return out.String(), calls, killed, nil
}

func c05LastAck(stdout string) (lastAck int, inFlight bool) {
	begun := 0
	for _, l := range strings.Split(stdout, "\n") {
		var n int
		if _, err := fmt.Sscanf(l, "ACK %d", &n); err == nil {
			lastAck = n
		}
		if _, err := fmt.Sscanf(l, "BEGIN %d", &n); err == nil {
			begun = n
		}
	}
	return lastAck, begun > lastAck
}

// c05Judge loads the store directory with the real code and decides whether it
// holds an allowed state; it then reopens an engine, commits once more and
// reloads.
func c05Judge(dir string, expected []string, lastAck int, inFlight bool) (string, bool) {
	file := filepath.Join(dir, "db.bson")
	cat, err := lungo.NewFileStore(file, 0644).Load()
	if err != nil {
		return fmt.Sprintf("the store file does not load: %v", err), false
	}
	got := c05lib.Describe(cat)
	ok := got == expected[lastAck] || (inFlight && lastAck+1 < len(expected) && got == expected[lastAck+1])
	if !ok {
		which := "neither the last acknowledged state nor the state being committed"
		for i, e := range expected {
			if e == got {
				which = fmt.Sprintf("the state after commit %d", i)
			}
		}
		return fmt.Sprintf("after the crash the file loads as %s, but commit %d was acknowledged (in flight: %v)", which, lastAck, inFlight), false
	}
	// reopen (a stale temporary file may be present), commit once more, reload
	client, engine, err := lungo.Open(nil, lungo.Options{Store: lungo.NewFileStore(file, 0644), ExpireInterval: 1 << 40})
	if err != nil {
		return "an engine cannot be opened on the directory after the crash: " + err.Error(), false
	}
	_, err = client.Database("after").Collection("crash").InsertOne(context.Background(), bson.D{{Key: "_id", Value: "post"}})
	want := c05lib.Describe(engine.Catalog())
	engine.Close()
	if err != nil {
		return "the first commit after the crash fails: " + err.Error(), false
	}
	cat2, err := lungo.NewFileStore(file, 0644).Load()
	if err != nil || c05lib.Describe(cat2) != want {
		return fmt.Sprintf("after the crash and one more commit the file does not hold the visible state (load error: %v)", err), false
	}
	return "", true
}

func runC05(c *fw.Ctx) {
	if c05Child() == "" {
		c.Inconclusive("victim binary not built (VERIF_C05CHILD unset)")
		return
	}
	if _, err := exec.LookPath("strace"); err != nil {
		c.Inconclusive("strace not available")
		return
	}
	profile := "small"
	if c.Thorough() {
		profile = "big"
	}
	expected, err := c05lib.Expected(profile)
	if err != nil {
		c.Inconclusive("cannot compute the expected states: " + err.Error())
		return
	}
	// recording runs: one for the images, one traced
	recDir := filepath.Join(c.Scratch, "rec")
	os.MkdirAll(recDir, 0755)
	snapDir := filepath.Join(c.Scratch, "snap")
	os.MkdirAll(snapDir, 0755)
	if out, err := exec.Command(c05Child(), snapDir, profile, "snap").CombinedOutput(); err != nil || !strings.Contains(string(out), "DONE") {
		c.Inconclusive("snapshot run of the victim failed: " + string(out))
		return
	}
	n := c05lib.NSteps(profile)
	images := make([][]byte, n+1)
	for i := 1; i <= n; i++ {
		images[i], err = os.ReadFile(filepath.Join(snapDir, fmt.Sprintf("img-%d", i)))
		if err != nil {
			c.Inconclusive("missing image of commit " + strconv.Itoa(i))
			return
		}
	}
	stdout, rec, _, err := c05RunTraced(recDir, profile, "", false)
	if err != nil || !strings.Contains(stdout, "DONE") {
		c.Inconclusive(fmt.Sprintf("recording run failed: %v %s", err, stdout))
		return
	}
	if la, _ := c05LastAck(stdout); la != n {
		c.Violate("baseline:commit-failed", "without any fault the victim acknowledged only "+strconv.Itoa(la)+" commits: "+stdout, nil)
		return
	}
	if msg, ok := c05Judge(recDir, expected, n, false); !ok {
		c.Violate("baseline:final-state", "without any fault: "+msg, nil)
		return
	}
	var window []c05Call
	for _, cl := range rec {
		if cl.Step > 0 && !(cl.Name == "write" && strings.HasPrefix(cl.Args, "1<")) {
			window = append(window, cl)
		}
	}
	if len(window) < 8*n {
		c.Inconclusive(fmt.Sprintf("the recorded trace shows only %d file-system calls inside the commit windows", len(window)))
		return
	}
	if c.WantSample() {
		var ls []string
		for _, cl := range window {
			if cl.Step == 2 {
				ls = append(ls, cl.Line)
			}
		}
		c.Sample(map[string]interface{}{"recorded_calls_of_commit_2": ls, "commits": n})
	}

	c05KillSweep(c, profile, expected, window)
	c05PowerLoss(c, rec, recDir, images, expected)
	c05SyscallFaults(c, profile, expected, window)
	c05StoreFaults(c)
	c05StoreFaultsTrimming(c)
	c05SessionReuse(c)
}

// (1) kill sweep ------------------------------------------------------------

func c05KillSweep(c *fw.Ctx, profile string, expected []string, window []c05Call) {
	for i, cl := range window {
		if i%c.NBatches != c.Batch {
			continue
		}
		idx := 100000 + i
		if c.Skip(idx) {
			continue
		}
		desc := map[string]interface{}{"kill_before": cl.Line, "commit": cl.Step, "call_ordinal": cl.Ordinal}
		c.Case(idx, func() interface{} { return desc }, nil, func() {
			c.Eval(1)
			dir := filepath.Join(c.Scratch, fmt.Sprintf("kill-%d", i))
			os.MkdirAll(dir, 0755)
			defer os.RemoveAll(dir)
			stdout, calls, killed, err := c05RunTraced(dir, profile, fmt.Sprintf("%s:signal=SIGKILL:when=%d", cl.Name, cl.Ordinal), false)
			if err != nil {
				c.Inconclusive("kill run: " + err.Error())
				return
			}
			c.Count("kill_points", 1)
			// validate: the run was killed at the intended call
			if !killed || len(calls) == 0 {
				c.Inconclusive(fmt.Sprintf("kill run %d was not killed (stdout %q)", i, stdout))
				return
			}
			last := calls[len(calls)-1]
			// (the written bytes differ from run to run: BSON maps are marshalled in map order)
			strip := func(s string) string { return c05DataRe.ReplaceAllString(strings.ReplaceAll(s, dir, "DIR"), `""`) }
			wantArgs := c05DataRe.ReplaceAllString(strings.ReplaceAll(cl.Args, filepath.Join(c.Scratch, "rec"), "DIR"), `""`)
			if last.Name != cl.Name || last.Ordinal != cl.Ordinal || last.Step != cl.Step || strip(last.Args) != wantArgs {
				c.Count("kill_points_off_target", 1)
				c.Inconclusive(fmt.Sprintf("kill run %d hit %q instead of %q", i, last.Line, cl.Line))
				return
			}
			c.Count("kill_points_validated", 1)
			lastAck, inFlight := c05LastAck(stdout)
			desc["last_ack"], desc["in_flight"] = lastAck, inFlight
			if msg, ok := c05Judge(dir, expected, lastAck, inFlight); !ok {
				c.Violate("crash:kill", fmt.Sprintf("process killed before %q of commit %d: %s", cl.Name, cl.Step, msg), desc)
				return
			}
			c.Count("reopen_after_crash", 1)
			c.Nontrivial(fw.Hash64([]byte(fmt.Sprintf("kill/%d/%s/%d", cl.Step, cl.Name, cl.Ordinal))))
		})
	}
}

// (2) power-loss enumeration ---------------------------------------------------

type c05Inode struct {
	durable  []byte
	volatile []byte
	synced   bool
}

type c05DirOp struct {
	kind string // link, unlink, rename
	a, b string
	ino  *c05Inode
}

type c05Model struct {
	durable  map[string]*c05Inode
	volatile map[string]*c05Inode
	pending  []c05DirOp
	fds      map[string]*c05Inode // by fd path key "fd</path>"
}

var c05PathRe = regexp.MustCompile(`"([^"]+)"`)
var c05FdRe = regexp.MustCompile(`^(\d+)<([^>]+)>`)

func c05PowerLoss(c *fw.Ctx, rec []c05Call, recDir string, images [][]byte, expected []string) {
	m := &c05Model{durable: map[string]*c05Inode{}, volatile: map[string]*c05Inode{}, fds: map[string]*c05Inode{}}
	acked, inFlight := 0, false
	pointNo := 0
	curStep := 0
	written := map[*c05Inode]int{} // bytes written so far per inode in this commit
	base := func(p string) string { return filepath.Base(p) }
	for ci, cl := range rec {
		// marker calls move the acknowledgement state
		if cl.Name == "write" && strings.HasPrefix(cl.Args, "1<") {
			if strings.Contains(cl.Args, `"BEGIN `) {
				inFlight = true
				curStep = cl.Step
				if curStep == 0 {
					fmt.Sscanf(cl.Args[strings.Index(cl.Args, `"BEGIN `)+7:], "%d", &curStep)
				}
			} else if strings.Contains(cl.Args, `"ACK `) {
				acked++
				inFlight = false
			}
			continue
		}
		if !cl.InStore {
			continue
		}
		// a crash may strike before this call
		pointNo++
		if pointNo%c.NBatches == c.Batch {
			c05CrashPoint(c, m, cl, ci, acked, inFlight, expected)
		}
		failed := strings.HasPrefix(cl.Ret, "-1")
		if failed {
			continue
		}
		paths := c05PathRe.FindAllStringSubmatch(cl.Args, -1)
		switch cl.Name {
		case "openat":
			if len(paths) == 0 {
				continue
			}
			name := base(paths[0][1])
			fdm := c05FdRe.FindStringSubmatch(cl.Ret)
			if fdm == nil {
				continue
			}
			if strings.Contains(cl.Args, "O_CREAT") {
				ino := m.volatile[name]
				if ino == nil {
					ino = &c05Inode{}
					m.volatile[name] = ino
					m.pending = append(m.pending, c05DirOp{kind: "link", a: name, ino: ino})
				}
				if strings.Contains(cl.Args, "O_TRUNC") {
					ino.volatile = nil
				}
				m.fds[fdm[1]] = ino
				written[ino] = len(ino.volatile)
			} else if ino := m.volatile[name]; ino != nil {
				m.fds[fdm[1]] = ino
				if strings.Contains(cl.Args, "O_TRUNC") {
					ino.volatile = nil
				}
				written[ino] = len(ino.volatile)
			}
		case "write", "pwrite64", "writev":
			fdm := c05FdRe.FindStringSubmatch(cl.Args)
			if fdm == nil {
				continue
			}
			ino := m.fds[fdm[1]]
			if ino == nil {
				continue
			}
			nbytes, _ := strconv.Atoi(strings.Fields(cl.Ret)[0])
			img := images[curStep]
			off := written[ino]
			end := off + nbytes
			if end > len(img) {
				end = len(img)
			}
			if off < end {
				ino.volatile = append(append([]byte{}, ino.volatile[:min(off, len(ino.volatile))]...), img[off:end]...)
			}
			written[ino] = off + nbytes
		case "fsync", "fdatasync":
			fdm := c05FdRe.FindStringSubmatch(cl.Args)
			if fdm == nil {
				continue
			}
			if ino := m.fds[fdm[1]]; ino != nil {
				ino.durable = append([]byte{}, ino.volatile...)
			} else if filepath.Clean(fdm[2]) == filepath.Clean(recDir) {
				// directory fsync: pending entry operations become durable
				for _, op := range m.pending {
					c05ApplyDirOp(m.durable, op)
				}
				m.pending = nil
			}
		case "close":
			fdm := c05FdRe.FindStringSubmatch(cl.Args)
			if fdm != nil {
				delete(m.fds, fdm[1])
			}
		case "renameat", "renameat2", "rename":
			if len(paths) < 2 {
				continue
			}
			a, b := base(paths[0][1]), base(paths[1][1])
			op := c05DirOp{kind: "rename", a: a, b: b, ino: m.volatile[a]}
			m.volatile[b] = m.volatile[a]
			delete(m.volatile, a)
			m.pending = append(m.pending, op)
		case "unlinkat", "unlink":
			if len(paths) == 0 {
				continue
			}
			a := base(paths[0][1])
			delete(m.volatile, a)
			m.pending = append(m.pending, c05DirOp{kind: "unlink", a: a})
		}
	}
	// after the last call
	c05CrashPoint(c, m, c05Call{Line: "(end of run)"}, len(rec), acked, inFlight, expected)
}

func c05ApplyDirOp(dir map[string]*c05Inode, op c05DirOp) {
	switch op.kind {
	case "link":
		dir[op.a] = op.ino
	case "unlink":
		delete(dir, op.a)
	case "rename":
		if op.ino != nil {
			dir[op.b] = op.ino
		}
		delete(dir, op.a)
	}
}

func c05Contents(ino *c05Inode) [][]byte {
	if bytes.Equal(ino.durable, ino.volatile) {
		return [][]byte{ino.durable}
	}
	v := ino.volatile
	n := len(v)
	lens := map[int]bool{0: true, n: true}
	for _, l := range []int{1, 4096, n / 2, n - 4096} {
		if l > 0 && l < n {
			lens[l] = true
		}
	}
	var out [][]byte
	out = append(out, ino.durable)
	for l := range lens {
		out = append(out, append([]byte{}, v[:l]...))
	}
	// full length, unsynced tail zero-filled
	d := len(ino.durable)
	if d < n {
		z := make([]byte, n)
		copy(z, v[:d])
		out = append(out, z)
	}
	sort.Slice(out, func(i, j int) bool { return len(out[i]) < len(out[j]) })
	return out
}

func c05CrashPoint(c *fw.Ctx, m *c05Model, before c05Call, ci, acked int, inFlight bool, expected []string) {
	c.Count("crash_points", 1)
	np := len(m.pending)
	if np > 6 {
		np = 6 // the newest six pending operations are enumerated, older ones are taken as applied
	}
	fixed := m.pending[:len(m.pending)-np]
	vary := m.pending[len(m.pending)-np:]
	for mask := 0; mask < 1<<np; mask++ {
		dir := map[string]*c05Inode{}
		for k, v := range m.durable {
			dir[k] = v
		}
		for _, op := range fixed {
			c05ApplyDirOp(dir, op)
		}
		for i, op := range vary {
			if mask&(1<<i) != 0 {
				c05ApplyDirOp(dir, op)
			}
		}
		// content choices per file
		var names []string
		for n := range dir {
			names = append(names, n)
		}
		sort.Strings(names)
		choices := make([][][]byte, len(names))
		total := 1
		for i, n := range names {
			choices[i] = c05Contents(dir[n])
			total *= len(choices[i])
		}
		if total > 64 {
			total = 64
		}
		for pick := 0; pick < total; pick++ {
			idx := 200000 + ci*100000 + mask*128 + pick
			if c.Skip(idx) {
				continue
			}
			state := map[string][]byte{}
			p := pick
			var shape []string
			for i, n := range names {
				b := choices[i][p%len(choices[i])]
				p /= len(choices[i])
				state[n] = b
				shape = append(shape, fmt.Sprintf("%s:%d bytes", n, len(b)))
			}
			desc := map[string]interface{}{"crash_before_call": before.Line, "pending_directory_operations_applied": fmt.Sprintf("%0*b of %d", np, mask, np), "files": shape, "acknowledged_commits": acked, "commit_in_flight": inFlight}
			c.Case(idx, func() interface{} { return desc }, nil, func() {
				c.Eval(1)
				c.Count("crash_states", 1)
				if !inFlight {
					c.Count("states_after_ack_checked", 1)
				}
				sdir := filepath.Join(c.Scratch, "state")
				os.RemoveAll(sdir)
				os.MkdirAll(sdir, 0755)
				for n, b := range state {
					os.WriteFile(filepath.Join(sdir, n), b, 0644)
				}
				if msg, ok := c05Judge(sdir, expected, acked, inFlight); !ok {
					c.Violate("crash:power-loss", fmt.Sprintf("power loss before %q: %s", before.Line, msg), desc)
					return
				}
				c.Count("reopen_after_crash", 1)
				if len(state) > 1 || np > 0 {
					c.Nontrivial(fw.Hash64([]byte(fmt.Sprint(before.Line, mask, shape))))
				}
			})
			if c.Violations() > 5 {
				return
			}
		}
	}
}

// (3) fault sweep -----------------------------------------------------------------

func c05SyscallFaults(c *fw.Ctx, profile string, expected []string, window []c05Call) {
	errnos := []string{"ENOSPC", "EIO", "EACCES"}
	for i, cl := range window {
		if (i+5)%c.NBatches != c.Batch {
			continue
		}
		if cl.Name == "close" {
			continue // a failing close of the directory handle is not reported by AtomicWriteFile's deferred close
		}
		if cl.Name == "unlinkat" && strings.HasPrefix(cl.Ret, "-1") && cl.Ordinal%4 != 1 {
			// thin out the (many) removals of the absent temporary file
			continue
		}
		errno := errnos[i%len(errnos)]
		idx := 300000 + i
		if c.Skip(idx) {
			continue
		}
		desc := map[string]interface{}{"failing_call": cl.Line, "errno": errno, "commit": cl.Step}
		c.Case(idx, func() interface{} { return desc }, nil, func() {
			c.Eval(1)
			dir := filepath.Join(c.Scratch, fmt.Sprintf("fault-%d", i))
			os.MkdirAll(dir, 0755)
			defer os.RemoveAll(dir)
			stdout, _, _, err := c05RunTraced(dir, profile, fmt.Sprintf("%s:error=%s:when=%d", cl.Name, errno, cl.Ordinal), false)
			if err != nil {
				c.Inconclusive("fault run: " + err.Error())
				return
			}
			c.Count("syscall_faults", 1)
			desc["victim_output"] = stdout
			if !strings.Contains(stdout, "DONE") {
				c.Violate("fault:victim-died", fmt.Sprintf("with %s injected into %q of commit %d the victim did not finish", errno, cl.Name, cl.Step), desc)
				return
			}
			// parse: ERR lines, VISIBLE after error, FINAL
			lines := strings.Split(stdout, "\n")
			acks := 0
			for li, l := range lines {
				var n int
				if _, e := fmt.Sscanf(l, "ACK %d", &n); e == nil {
					acks = n
				}
				if strings.HasPrefix(l, "ERR ") {
					c.Count("syscall_faults_reported_as_error", 1)
					// the next line is the visible state: it must be the last persisted one
					if li+1 < len(lines) && strings.HasPrefix(lines[li+1], "VISIBLE ") {
						vis := strings.SplitN(lines[li+1], " ", 3)
						if len(vis) == 3 && vis[2] != expected[acks] {
							c.Violate("fault:visible-state-changed", fmt.Sprintf("commit %d reported an error (%s) but the state visible to clients is no longer the last persisted one", acks+1, l), desc)
							return
						}
					}
				}
			}
			n := c05lib.NSteps(profile)
			if acks != n {
				c.Violate("fault:later-commit-failed", fmt.Sprintf("after one injected %s only %d of %d commits were acknowledged (the retry or a later commit failed)", errno, acks, n), desc)
				return
			}
			// an injected fault inside the window must surface as an error unless the call's result is ignored by design (removal of an absent temporary file)
			sawErr := strings.Contains(stdout, "\nERR ")
			ignorable := cl.Name == "unlinkat"
			if !sawErr && !ignorable {
				c.Violate("fault:error-swallowed", fmt.Sprintf("%s injected into %q of commit %d was not reported: the commit was acknowledged", errno, cl.Name, cl.Step), desc)
				return
			}
			if msg, ok := c05Judge(dir, expected, n, false); !ok {
				c.Violate("fault:final-state", "after an injected fault and retries: "+msg, desc)
				return
			}
			var final string
			for _, l := range lines {
				if strings.HasPrefix(l, "FINAL ") {
					final = l[6:]
				}
			}
			if final != expected[n] {
				c.Violate("fault:visible-differs", "after an injected fault the final visible state differs from the expected one", desc)
				return
			}
			c.Nontrivial(fw.Hash64([]byte(fmt.Sprintf("fault/%d/%s/%d/%s", cl.Step, cl.Name, cl.Ordinal, errno))))
		})
	}
}

// countingStore fails selected Store calls.
type countingStore struct {
	inner lungo.Store
	n     int
	fail  map[int]bool
}

func (s *countingStore) Load() (*lungo.Catalog, error) { return s.inner.Load() }
func (s *countingStore) Store(c *lungo.Catalog) error {
	s.n++
	if s.fail[s.n] {
		return errors.New("injected store failure")
	}
	return s.inner.Store(c)
}

// c05StoreFaultsTrimming: the commit whose store call fails is one whose
// clean-up trims the change log (pre-loaded log over its limits), and it is a
// commit of every kind - also the kinds that write no change event themselves
// (collection and index creation, index drops), alone or inside a session
// transaction. The state visible to clients, change log included, must stay
// the last persisted one, and the next commit must succeed.
func c05StoreFaultsTrimming(c *fw.Ctx) {
	kinds := []string{"insert", "createCollection", "createIndex", "dropIndex", "update", "session:createIndex+insert", "session:createCollection", "session:insert"}
	n := 0
	for L := 3; L <= 8; L++ {
		for ki, kind := range kinds {
			n++
			if n%c.NBatches != c.Batch {
				continue
			}
			idx := 410000 + L*10 + ki
			if c.Skip(idx) {
				continue
			}
			desc := map[string]interface{}{"old_events": L, "failing_commit": kind, "minSize": 1, "maxSize": 2}
			c.Case(idx, func() interface{} { return desc }, nil, func() {
				c.Eval(1)
				ages := make([]time.Duration, L)
				for i := range ages {
					ages[i] = ageOld
				}
				store := &failStore{cat: craftedOplog(ages)}
				client, engine, err := lungo.Open(nil, lungo.Options{Store: store, ExpireInterval: 1 << 40, MinOplogSize: 1, MaxOplogSize: 2, MinOplogAge: 5 * time.Minute, MaxOplogAge: time.Hour})
				if err != nil {
					c.Inconclusive("open: " + err.Error())
					return
				}
				defer engine.Close()
				ctx := context.Background()
				coll := client.Database("d").Collection("c")
				if kind == "dropIndex" || kind == "update" {
					// (set up by commits that succeed; they trim the log already, so
					// the log is refilled through the store afterwards)
					coll.InsertOne(ctx, bson.D{{Key: "_id", Value: int32(1)}, {Key: "a", Value: int32(1)}})
					coll.Indexes().CreateOne(ctx, mongoIndexModel(bson.D{{Key: "a", Value: int32(1)}}, nil))
				}
				before := exactDump(engine.Catalog())
				beforeEvents := len(oplogEvents(engine.Catalog()))
				store.failNext()
				var werr error
				switch kind {
				case "insert":
					_, werr = coll.InsertOne(ctx, bson.D{{Key: "_id", Value: int32(99)}})
				case "createCollection":
					werr = client.Database("d").CreateCollection(ctx, "made")
				case "createIndex":
					_, werr = coll.Indexes().CreateOne(ctx, mongoIndexModel(bson.D{{Key: "z", Value: int32(1)}}, nil))
				case "dropIndex":
					_, werr = coll.Indexes().DropOne(ctx, "a_1")
				case "update":
					_, werr = coll.UpdateOne(ctx, bson.D{{Key: "_id", Value: int32(1)}}, bson.D{{Key: "$inc", Value: bson.D{{Key: "a", Value: int32(1)}}}})
				default:
					sess, _ := client.StartSession()
					_, werr = sess.WithTransaction(ctx, func(sc lungo.ISessionContext) (interface{}, error) {
						if kind == "session:createCollection" {
							return nil, client.Database("d").CreateCollection(sc, "made")
						}
						if kind == "session:insert" {
							_, e := coll.InsertOne(sc, bson.D{{Key: "_id", Value: int32(97)}})
							return nil, e
						}
						if _, e := coll.Indexes().CreateOne(sc, mongoIndexModel(bson.D{{Key: "z", Value: int32(1)}}, nil)); e != nil {
							return nil, e
						}
						_, e := coll.InsertOne(sc, bson.D{{Key: "_id", Value: int32(98)}})
						return nil, e
					})
					sess.EndSession(ctx)
				}
				store.mu.Lock()
				consumed := !store.fail
				store.fail = false
				store.mu.Unlock()
				if !consumed {
					// the call never reached the store (it failed earlier or had
					// nothing to commit): not a store failure
					c.Count("trimming_calls_without_store_call", 1)
					return
				}
				c.Count("failed_trimming_commits", 1)
				if beforeEvents > 2 {
					c.Count("failed_commits_over_the_log_limit", 1)
				}
				if werr == nil {
					c.Violate("storefault:error-swallowed", "the store failed but the call reported success", desc)
					return
				}
				if d := before.Diff(exactDump(engine.Catalog())); d != "" {
					c.Violate("storefault:visible-state-changed", "the store call of a "+kind+" commit failed but the state visible to clients changed: "+d, desc)
					return
				}
				if _, err := coll.InsertOne(ctx, bson.D{{Key: "_id", Value: int32(100)}}); err != nil {
					c.Violate("storefault:stuck", "after a failed commit the next write fails: "+err.Error(), desc)
				}
			})
		}
	}
}

func c05StoreFaults(c *fw.Ctx) {
	// every subset of up to 3 of the first 8 store calls
	var subsets [][]int
	for a := 0; a <= 8; a++ {
		for b := a; b <= 8; b++ {
			for d := b; d <= 8; d++ {
				set := map[int]bool{}
				for _, x := range []int{a, b, d} {
					if x > 0 {
						set[x] = true
					}
				}
				var s []int
				for x := range set {
					s = append(s, x)
				}
				sort.Ints(s)
				subsets = append(subsets, s)
			}
		}
	}
	seen := map[string]bool{}
	for si, s := range subsets {
		key := fmt.Sprint(s)
		if seen[key] {
			continue
		}
		seen[key] = true
		if si%c.NBatches != c.Batch {
			continue
		}
		idx := 400000 + si
		if c.Skip(idx) {
			continue
		}
		desc := map[string]interface{}{"failing_store_calls": s}
		c.Case(idx, func() interface{} { return desc }, nil, func() {
			c.Eval(1)
			c.Count("store_fault_subsets", 1)
			dir := filepath.Join(c.Scratch, fmt.Sprintf("sf-%d", si))
			os.MkdirAll(dir, 0755)
			defer os.RemoveAll(dir)
			file := filepath.Join(dir, "db.bson")
			st := &countingStore{inner: lungo.NewFileStore(file, 0644), fail: map[int]bool{}}
			for _, x := range s {
				st.fail[x] = true
			}
			client, engine, err := lungo.Open(nil, lungo.Options{Store: st, ExpireInterval: 1 << 40})
			if err != nil {
				c.Inconclusive("open: " + err.Error())
				return
			}
			defer engine.Close()
			ctx := context.Background()
			persisted := c05lib.Describe(engine.Catalog())
			for k := 1; k <= 9; k++ {
				before := st.n
				var werr error
				func() {
					defer func() {
						if p := recover(); p != nil {
							werr = fmt.Errorf("panic: %v", p)
						}
					}()
					switch k % 3 {
					case 0:
						sess, _ := client.StartSession()
						_, werr = sess.WithTransaction(ctx, func(sc lungo.ISessionContext) (interface{}, error) {
							_, e := client.Database("d").Collection("c").InsertOne(sc, bson.D{{Key: "_id", Value: int32(k)}})
							return nil, e
						})
						sess.EndSession(ctx)
					case 1:
						_, werr = client.Database("d").Collection("c").InsertOne(ctx, bson.D{{Key: "_id", Value: int32(k)}})
					default:
						sess, _ := client.StartSession()
						werr = sess.StartTransaction()
						if werr == nil {
							lungo.WithSession(ctx, sess, func(sc lungo.ISessionContext) error {
								_, werr = client.Database("d").Collection("c").InsertOne(sc, bson.D{{Key: "_id", Value: int32(k)}})
								return nil
							})
							if werr == nil {
								werr = sess.CommitTransaction(ctx)
							}
						}
						sess.EndSession(ctx)
					}
				}()
				failedCall := st.n > before && st.fail[st.n]
				visible := c05lib.Describe(engine.Catalog())
				d2 := map[string]interface{}{"failing_store_calls": s, "write": k, "store_call": st.n, "error": fmt.Sprint(werr)}
				if failedCall {
					if werr == nil {
						c.Violate("storefault:error-swallowed", fmt.Sprintf("store call %d failed but write %d reported success", st.n, k), d2)
						return
					}
					if strings.HasPrefix(werr.Error(), "panic") {
						c.Violate("storefault:panic", fmt.Sprintf("store call %d failed and write %d panicked: %v", st.n, k, werr), d2)
						return
					}
					if visible != persisted {
						c.Violate("storefault:visible-state-changed", fmt.Sprintf("store call %d failed but the state visible to clients changed", st.n), d2)
						return
					}
				} else {
					if werr != nil {
						c.Violate("storefault:later-commit-failed", fmt.Sprintf("write %d failed although its store call did not: %v (an earlier persist failure left the engine unable to commit)", k, werr), d2)
						return
					}
					persisted = visible
				}
				free, active, _, _ := engine.VerifState()
				if free != 1 || active {
					c.Violate("storefault:slot-not-free", fmt.Sprintf("after write %d the writer slot is not free (free=%d txn=%v)", k, free, active), d2)
					return
				}
				// file and visible state agree with the last persisted state
				cat, lerr := lungo.NewFileStore(file, 0644).Load()
				if lerr != nil || c05lib.Describe(cat) != persisted {
					c.Violate("storefault:file-differs", fmt.Sprintf("after write %d the file does not hold the last persisted state (load error %v)", k, lerr), d2)
					return
				}
			}
			if len(s) > 0 {
				c.Nontrivial(fw.Hash64([]byte(key)))
			}
		})
	}
}
