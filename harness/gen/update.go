package gen

import (
	"math"
	"strings"

	"go.mongodb.org/mongo-driver/bson"
	"go.mongodb.org/mongo-driver/bson/primitive"

	"verifharness/fw"
	"verifharness/ref"
)

// UpdateGen generates update documents aimed at a document.
type UpdateGen struct {
	R    *fw.Rand
	Pool Pool
	// Mismatch is the probability (in 1/16) of aiming an operator at a value of
	// the wrong shape (exercises whole-update rejection).
	Mismatch int
	// AllowID lets paths address _id.
	AllowID bool
}

// Update is one generated update with its array filters.
type Update struct {
	Doc          bson.D
	ArrayFilters []bson.D
}

func (u Update) FiltersAsInterfaces() []interface{} {
	out := make([]interface{}, len(u.ArrayFilters))
	for i, f := range u.ArrayFilters {
		out[i] = f
	}
	return out
}

func numKind(v interface{}) bool { return ref.Class(v) == ref.CNumber && v != nil }

var boundaryOperands = []interface{}{
	int32(math.MaxInt32), int32(math.MinInt32), int32(1), int32(-1), int32(2), int64(1), int64(-1), int64(math.MaxInt64), int64(math.MinInt64),
	int64(math.MaxInt32), int64(1) << 31, int64(1) << 32, int64(3037000500), 0.5, 2.0, -1.0, 1e300, D128("0.1"), D128("2"), D128("-1.5"), int32(46341), int32(65536), int32(0), int64(0),
}

func (g *UpdateGen) numOperand() interface{} {
	if g.Pool == Core || g.R.Chance(1, 2) {
		return fw.Pick(g.R, CoreNumbers)
	}
	return fw.Pick(g.R, boundaryOperands)
}

// Gen draws an update for the document.
func (g *UpdateGen) Gen(d bson.D) Update {
	r := g.R
	var paths []string
	for _, p := range PathsOf(d) {
		if !g.AllowID && (p == "_id" || strings.HasPrefix(p, "_id.")) {
			continue
		}
		paths = append(paths, p)
	}
	ops := map[string]bson.D{}
	var order []string
	var filters []bson.D
	add := func(op, path string, arg interface{}) {
		if _, ok := ops[op]; !ok {
			order = append(order, op)
		}
		ops[op] = append(ops[op], bson.E{Key: path, Value: arg})
	}
	fg := NewFilterGen(r, FilterOpts{Pool: g.Pool, MaxDepth: 2, NoSchema: true}, d)
	nops := r.Intn(3) + 1
	used := map[string]bool{}
	for i := 0; i < nops; i++ {
		p := fw.Pick(r, paths)
		// avoid trivially conflicting paths most of the time
		conflict := false
		for q := range used {
			if q == p || strings.HasPrefix(q, p+".") || strings.HasPrefix(p, q+".") {
				conflict = true
			}
		}
		if conflict && !r.Chance(1, 10) {
			continue
		}
		used[p] = true
		vals, _ := ref.Values(d, p)
		v := vals[0]
		kind := "any"
		switch {
		case v == ref.Missing:
			kind = "missing"
		case numKind(v):
			kind = "num"
		default:
			if _, ok := v.(bson.A); ok {
				kind = "arr"
			}
		}
		if r.Intn(16) < g.Mismatch {
			kind = fw.Pick(r, []string{"num", "arr", "any", "missing"})
		}
		if v == ref.Missing {
			v = Scalar(r, g.Pool) // never leak the marker into an update
		}
		switch kind {
		case "num":
			switch r.Intn(8) {
			case 0, 1:
				add("$inc", p, g.numOperand())
			case 2, 3:
				add("$mul", p, g.numOperand())
			case 4:
				add("$bit", p, bson.D{{Key: fw.Pick(r, []string{"and", "or", "xor"}), Value: fw.Pick(r, []interface{}{int32(1), int32(6), int64(5), int32(-1), int64(1) << 40})}})
			case 5:
				add("$min", p, g.numOperand())
			case 6:
				add("$max", p, g.numOperand())
			default:
				add("$set", p, fg.AnyOperand())
			}
		case "arr":
			arr, _ := v.(bson.A)
			elem := func() interface{} {
				if len(arr) > 0 && r.Chance(2, 3) {
					return CloneValue(arr[r.Intn(len(arr))])
				}
				return fg.AnyOperand()
			}
			switch r.Intn(12) {
			case 0:
				add("$push", p, elem())
			case 1, 2:
				spec := bson.D{{Key: "$each", Value: bson.A{elem(), elem()}}}
				if r.Chance(1, 4) {
					// the re-sort / trim idiom: nothing is pushed, the modifiers
					// still apply to the array
					spec = bson.D{{Key: "$each", Value: bson.A{}}}
				}
				if r.Bool() {
					spec = append(spec, bson.E{Key: "$position", Value: fw.Pick(r, []interface{}{int32(0), int32(1), int32(-1), int64(2), int32(-2), int32(100), int32(-100), 1.0})})
				}
				if r.Bool() {
					allDocs := len(arr) > 0
					for _, e := range arr {
						if _, ok := e.(bson.D); !ok {
							allDocs = false
						}
					}
					if allDocs && r.Bool() {
						k := fw.Pick(r, Keys)
						if ed, ok := arr[0].(bson.D); ok && len(ed) > 0 {
							k = ed[0].Key
						}
						spec = append(spec, bson.E{Key: "$sort", Value: bson.D{{Key: k, Value: fw.Pick(r, []interface{}{int32(1), int32(-1)})}}})
					} else {
						spec = append(spec, bson.E{Key: "$sort", Value: fw.Pick(r, []interface{}{int32(1), int32(-1), int64(1), -1.0})})
					}
				}
				if r.Bool() {
					spec = append(spec, bson.E{Key: "$slice", Value: fw.Pick(r, []interface{}{int32(0), int32(1), int32(2), int32(-1), int32(-2), int64(3), int32(100), int32(-100), 2.0})})
				}
				add("$push", p, spec)
			case 3:
				add("$pop", p, fw.Pick(r, []interface{}{int32(1), int32(-1), int64(1), -1.0}))
			case 4:
				add("$pull", p, elem())
			case 5:
				if len(arr) > 0 {
					if ed, ok := arr[r.Intn(len(arr))].(bson.D); ok && len(ed) > 0 {
						f := ed[r.Intn(len(ed))]
						add("$pull", p, bson.D{{Key: f.Key, Value: fg.aim(f.Value)}})
						break
					}
					add("$pull", p, bson.D{{Key: fw.Pick(r, []string{"$gte", "$lt", "$in", "$ne"}), Value: func() interface{} {
						x := fg.near(arr[r.Intn(len(arr))])
						return x
					}()}})
					last := ops["$pull"][len(ops["$pull"])-1]
					if od, ok := last.Value.(bson.D); ok && od[0].Key == "$in" {
						od[0].Value = bson.A{od[0].Value}
					}
				} else {
					add("$pull", p, elem())
				}
			case 6:
				add("$pullAll", p, bson.A{elem(), elem()})
			case 7:
				add("$addToSet", p, elem())
			case 8:
				add("$addToSet", p, bson.D{{Key: "$each", Value: bson.A{elem(), elem(), elem()}}})
			case 9, 10:
				// positional: all elements or filtered elements
				hasDoc := false
				var key string
				for _, e := range arr {
					if ed, ok := e.(bson.D); ok && len(ed) > 0 {
						hasDoc = true
						key = ed[r.Intn(len(ed))].Key
					}
				}
				if r.Bool() {
					if hasDoc {
						add(fw.Pick(r, []string{"$set", "$unset", "$inc"}), p+".$[]."+key, g.numOperand())
					} else {
						add(fw.Pick(r, []string{"$set", "$inc", "$mul", "$max"}), p+".$[]", g.numOperand())
					}
				} else {
					id := fw.Pick(r, []string{"e", "f"})
					for _, f := range filters {
						if strings.HasPrefix(f[0].Key, id) {
							id = id + "x"
						}
					}
					if hasDoc {
						var ev interface{} = int32(1)
						for _, e := range arr {
							if ed, ok := e.(bson.D); ok {
								for _, f := range ed {
									if f.Key == key {
										ev = f.Value
									}
								}
							}
						}
						filters = append(filters, bson.D{{Key: id + "." + key, Value: fg.aim(ev)}})
						add(fw.Pick(r, []string{"$set", "$unset", "$inc"}), p+".$["+id+"]."+fw.Pick(r, []string{key, "zz"}), g.numOperand())
					} else {
						var ev interface{} = int32(1)
						if len(arr) > 0 {
							ev = arr[r.Intn(len(arr))]
						}
						cond := fg.aim(ev)
						if _, isDoc := cond.(bson.D); !isDoc {
							cond = bson.D{{Key: fw.Pick(r, []string{"$gte", "$lte", "$eq", "$ne"}), Value: cond}}
						}
						filters = append(filters, bson.D{{Key: id, Value: cond}})
						add(fw.Pick(r, []string{"$set", "$inc", "$mul", "$min"}), p+".$["+id+"]", g.numOperand())
					}
				}
			default:
				add("$set", p, fg.AnyOperand())
			}
		case "missing":
			switch r.Intn(10) {
			case 0:
				add("$inc", p, g.numOperand())
			case 1:
				add("$mul", p, g.numOperand())
			case 2:
				if r.Chance(1, 4) {
					add("$push", p, bson.D{{Key: "$each", Value: bson.A{}}}) // creates the empty array
				} else {
					add("$push", p, fg.AnyOperand())
				}
			case 3:
				add("$addToSet", p, fg.AnyOperand())
			case 4:
				add("$unset", p, "")
			case 5:
				add("$min", p, fg.AnyOperand())
			case 6:
				add("$bit", p, bson.D{{Key: "or", Value: int32(5)}})
			case 7:
				add("$pop", p, int32(1))
			case 8:
				add("$setOnInsert", p, fg.AnyOperand())
			default:
				add("$set", p, fg.AnyOperand())
			}
		default:
			switch r.Intn(10) {
			case 0, 1:
				add("$set", p, fg.AnyOperand())
			case 2:
				add("$unset", p, fw.Pick(r, []interface{}{"", int32(1), true}))
			case 3:
				// rename within embedded documents only (no numeric segments)
				to := fw.Pick(r, Keys) + "2"
				if r.Bool() {
					to = fw.Pick(r, paths)
				}
				add("$rename", p, to)
			case 4:
				add("$min", p, fg.near(v))
			case 5:
				add("$max", p, fg.near(v))
			case 6:
				add("$currentDate", p, fw.Pick(r, []interface{}{true, bson.D{{Key: "$type", Value: "date"}}, bson.D{{Key: "$type", Value: "timestamp"}}}))
			case 7:
				add("$set", p, v) // no-op set
			case 8:
				add("$setOnInsert", p, fg.Operand())
			default:
				add("$max", p, fg.AnyOperand())
			}
		}
	}
	if len(order) == 0 {
		add("$set", fw.Pick(r, Keys), Scalar(r, g.Pool))
	}
	u := bson.D{}
	for _, op := range order {
		u = append(u, bson.E{Key: op, Value: ops[op]})
	}
	return Update{Doc: u, ArrayFilters: filters}
}

// IdempotentOps lists the operators whose second application must change nothing.
var IdempotentOps = map[string]bool{"$set": true, "$unset": true, "$min": true, "$max": true, "$addToSet": true, "$pull": true, "$pullAll": true}

// OnlyIdempotent reports whether an update uses only idempotent operators
// without positional paths.
func OnlyIdempotent(u bson.D) bool {
	for _, op := range u {
		if !IdempotentOps[op.Key] {
			return false
		}
	}
	return true
}

var _ = primitive.Null{}
