package gen

import (
	"strings"

	"go.mongodb.org/mongo-driver/bson"

	"verifharness/fw"
	"verifharness/ref"
)

// ProjOpts steers Projection.
type ProjOpts struct {
	// NoInvalid leaves out projections that must be rejected (mixes of
	// inclusion and exclusion) and flag spellings beyond 0/1/true/false.
	NoInvalid bool
	// Invalid produces only projections that must be rejected before any
	// document is looked at (mix, malformed $slice / $elemMatch arguments).
	Invalid bool
	// Overlap produces a parent path together with a path nested in it
	// (inclusion + operator overlay, two inclusions, two exclusions).
	Overlap bool
}

// HasNumericSeg reports whether a dotted path has a segment starting with a digit.
func HasNumericSeg(p string) bool {
	for _, s := range strings.Split(p, ".") {
		if s != "" && s[0] >= '0' && s[0] <= '9' {
			return true
		}
	}
	return false
}

func projSlice(r *fw.Rand) bson.D {
	if r.Intn(3) == 0 {
		return bson.D{{Key: "$slice", Value: fw.Pick(r, []interface{}{int32(1), int32(2), int32(-1), int32(-2), int64(3), int32(0), int32(100), int32(-100), 2.0})}}
	}
	return bson.D{{Key: "$slice", Value: bson.A{
		fw.Pick(r, []interface{}{int32(0), int32(1), int32(-1), int32(-2), int64(2), int32(50), int32(-50), 1.0}),
		fw.Pick(r, []interface{}{int32(1), int32(2), int64(3), int32(100), 1.0})}}}
}

// Projection generates a projection aimed at the document d.
func Projection(r *fw.Rand, d bson.D, o ProjOpts) bson.D {
	var paths []string
	for _, p := range PathsOf(d) {
		if r.Chance(1, 8) && !o.NoInvalid || !HasNumericSeg(p) {
			paths = append(paths, p)
		}
	}
	if len(paths) == 0 {
		paths = append(paths, Keys...)
	}
	flag := func(inc bool) interface{} {
		if inc {
			return fw.Pick(r, []interface{}{int32(1), true, int64(1), 1.0, int32(1)})
		}
		return fw.Pick(r, []interface{}{int32(0), false, int64(0), 0.0, int32(0)})
	}
	if o.Invalid {
		a, b := fw.Pick(r, paths), fw.Pick(r, Keys)
		if strings.SplitN(a, ".", 2)[0] == b {
			b = "zz"
		}
		// an $elemMatch whose condition names an unknown operator: the call must
		// fail, and lungo only finds out when it meets an array at that path
		if r.Chance(1, 4) {
			for _, p := range paths {
				if arr, ok := ref.GetPath(d, p).(bson.A); ok && len(arr) > 0 && !HasNumericSeg(p) {
					if ed, isDoc := arr[0].(bson.D); isDoc && len(ed) > 0 {
						return bson.D{{Key: p, Value: bson.D{{Key: "$elemMatch", Value: bson.D{{Key: ed[0].Key, Value: bson.D{{Key: "$isnot", Value: int32(1)}}}}}}}}
					}
					return bson.D{{Key: p, Value: bson.D{{Key: "$elemMatch", Value: bson.D{{Key: "$isnot", Value: int32(1)}}}}}}
				}
			}
		}
		switch r.Intn(6) {
		case 0:
			return bson.D{{Key: a, Value: flag(true)}, {Key: b, Value: flag(false)}}
		case 1:
			return bson.D{{Key: b, Value: flag(false)}, {Key: a, Value: flag(true)}}
		case 2:
			return bson.D{{Key: a, Value: bson.D{{Key: "$slice", Value: bson.A{int32(1)}}}}}
		case 3:
			return bson.D{{Key: a, Value: bson.D{{Key: "$slice", Value: "x"}}}}
		case 4:
			return bson.D{{Key: a, Value: bson.D{{Key: "$slice", Value: bson.A{int32(0), int32(-1)}}}}}
		default:
			return bson.D{{Key: a, Value: bson.D{{Key: "$elemMatch", Value: int32(5)}}}}
		}
	}
	if o.Overlap {
		var nested []string
		for _, p := range paths {
			if strings.Contains(p, ".") {
				nested = append(nested, p)
			}
		}
		// prefer arrays that really exist inside an embedded document: an
		// overlay on them is computed from (and must not write into) the
		// stored sub-document that the parent inclusion returns
		var arrs []string
		for _, p := range nested {
			if a, ok := ref.GetPath(d, p).(bson.A); ok && len(a) > 0 && !HasNumericSeg(p) {
				arrs = append(arrs, p)
			}
		}
		if len(arrs) > 0 && r.Chance(3, 4) {
			nested = arrs
		}
		// two operator overlays, the second on a path inside an element that
		// the first one hands out (the window shares its elements with the
		// stored array)
		if !o.NoInvalid && r.Chance(1, 3) {
			for _, p := range paths {
				a, ok := ref.GetPath(d, p).(bson.A)
				if !ok || len(a) == 0 || HasNumericSeg(p) {
					continue
				}
				if ed, ok := a[0].(bson.D); ok {
					for _, f := range ed {
						if fa, ok := f.Value.(bson.A); ok && len(fa) > 1 {
							first := bson.E{Key: p, Value: bson.D{{Key: "$slice", Value: int32(len(a))}}}
							if r.Bool() {
								first = bson.E{Key: p, Value: bson.D{{Key: "$elemMatch", Value: bson.D{{Key: f.Key, Value: bson.D{{Key: "$exists", Value: true}}}}}}}
							}
							second := bson.E{Key: p + ".0." + f.Key, Value: bson.D{{Key: "$slice", Value: int32(1)}}}
							if r.Bool() {
								return bson.D{first, second}
							}
							return bson.D{second, first}
						}
					}
				}
			}
		}
		if len(nested) > 0 {
			p := fw.Pick(r, nested)
			parent := p[:strings.LastIndex(p, ".")]
			if r.Bool() {
				parent = strings.SplitN(p, ".", 2)[0]
			}
			var pr bson.D
			switch r.Intn(5) {
			case 0, 1:
				pr = bson.D{{Key: parent, Value: flag(true)}, {Key: p, Value: projSlice(r)}}
			case 2:
				pr = bson.D{{Key: p, Value: projSlice(r)}, {Key: parent, Value: flag(true)}}
			case 3:
				pr = bson.D{{Key: parent, Value: flag(true)}, {Key: p, Value: flag(true)}}
			default:
				pr = bson.D{{Key: parent, Value: flag(false)}, {Key: p, Value: flag(false)}}
			}
			return pr
		}
	}
	mode := r.Intn(10) // 0-4 inclusion, 5-7 exclusion, 8 operators only, 9 mixed (must be rejected)
	if o.NoInvalid && mode == 9 {
		mode = r.Intn(9)
	}
	n := r.Intn(3) + 1
	p := bson.D{}
	used := map[string]bool{}
	for i := 0; i < n; i++ {
		path := fw.Pick(r, paths)
		if used[path] {
			continue
		}
		used[path] = true
		v := ref.GetPath(d, path)
		arr, isArr := v.(bson.A)
		if isArr && r.Chance(1, 2) || mode == 8 {
			if r.Chance(2, 3) || !isArr || len(arr) == 0 {
				p = append(p, bson.E{Key: path, Value: projSlice(r)})
			} else {
				el := arr[r.Intn(len(arr))]
				g := NewFilterGen(r, FilterOpts{Pool: Core, MaxDepth: 2, NoSchema: true}, d)
				var q bson.D
				if ed, ok := el.(bson.D); ok && len(ed) > 0 {
					f := ed[r.Intn(len(ed))]
					q = bson.D{{Key: f.Key, Value: f.Value}}
					if r.Chance(1, 3) {
						q = bson.D{{Key: f.Key, Value: bson.D{{Key: "$gte", Value: f.Value}}}}
					}
					if r.Chance(1, 6) {
						q = bson.D{{Key: f.Key, Value: nil}}
					}
				} else {
					q = bson.D{{Key: fw.Pick(r, []string{"$eq", "$gte", "$lte", "$ne"}), Value: g.Operand()}}
					if r.Bool() {
						q = bson.D{{Key: "$eq", Value: el}}
					}
					if r.Chance(1, 8) {
						q = bson.D{{Key: fw.Pick(r, Keys), Value: nil}}
					}
				}
				p = append(p, bson.E{Key: path, Value: bson.D{{Key: "$elemMatch", Value: q}}})
			}
			continue
		}
		switch {
		case mode <= 4:
			p = append(p, bson.E{Key: path, Value: flag(true)})
		case mode <= 7:
			p = append(p, bson.E{Key: path, Value: flag(false)})
		default:
			p = append(p, bson.E{Key: path, Value: flag(i%2 == 0)})
		}
	}
	if r.Chance(1, 4) {
		p = append(p, bson.E{Key: "_id", Value: flag(false)})
	} else if r.Chance(1, 10) && mode <= 4 {
		p = append(p, bson.E{Key: "_id", Value: flag(true)})
	}
	if len(p) == 0 {
		p = append(p, bson.E{Key: fw.Pick(r, Keys), Value: flag(mode <= 4)})
	}
	return p
}
