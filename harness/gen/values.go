// Package gen holds the seeded workload generators (values, documents,
// filters, updates, projections, sorts, histories).
package gen

import (
	"math"

	"go.mongodb.org/mongo-driver/bson"
	"go.mongodb.org/mongo-driver/bson/primitive"

	"verifharness/fw"
)

// Pool selects a value pool.
type Pool int

const (
	Core Pool = iota
	Boundary
	Hostile
)

func D128(s string) primitive.Decimal128 {
	d, err := primitive.ParseDecimal128(s)
	if err != nil {
		panic(err)
	}
	return d
}

// OIDs is the fixed ObjectID pool.
var OIDs = []primitive.ObjectID{
	{0x5f, 0, 0, 0, 0, 0, 0, 0, 0, 0, 0, 1},
	{0x5f, 0, 0, 0, 0, 0, 0, 0, 0, 0, 0, 2},
	{0x60, 0, 0, 0, 0, 0, 0, 0, 0, 0, 0, 1},
	{0x60, 1, 0, 0, 0, 0, 0, 0, 0, 0, 0, 0},
}

// CoreNumbers are collision-rich: the same mathematical values in all four
// numeric types.
var CoreNumbers = []interface{}{
	int32(0), int32(1), int32(2), int32(3), int32(-1), int32(5), int32(10),
	int64(0), int64(1), int64(2), int64(3), int64(-1), int64(5), int64(10),
	float64(0), float64(1), float64(2), float64(3), float64(-1), float64(5), float64(10), 1.5, 2.5, -0.5, math.Copysign(0, -1),
	D128("0"), D128("1"), D128("2"), D128("3"), D128("-1"), D128("5"), D128("10"), D128("1.5"), D128("2.5"), D128("2.0"),
}

// CoreOthers are the non-numeric core scalars.
var CoreOthers = []interface{}{
	nil, true, false,
	"", "a", "b", "ab", "abc", "x",
	OIDs[0], OIDs[1], OIDs[2], OIDs[3],
	primitive.DateTime(0), primitive.DateTime(1000), primitive.DateTime(2000),
	primitive.Timestamp{T: 1, I: 1}, primitive.Timestamp{T: 1, I: 2}, primitive.Timestamp{T: 2, I: 0},
	primitive.Binary{Subtype: 0, Data: []byte{1, 2}}, primitive.Binary{Subtype: 4, Data: []byte{1, 2}},
	primitive.Binary{Subtype: 0, Data: []byte{}}, primitive.Binary{Subtype: 0, Data: []byte{1, 3}},
}

// BoundaryNumbers stress exactness at the int/double/decimal borders.
var BoundaryNumbers = []interface{}{
	math.NaN(), math.Inf(1), math.Inf(-1),
	int32(math.MaxInt32), int32(math.MinInt32), int64(math.MaxInt32) + 1, int64(math.MinInt32) - 1,
	int64(1) << 53, int64(1)<<53 + 1, int64(1)<<53 - 1, -(int64(1) << 53), -(int64(1)<<53 + 1),
	float64(int64(1) << 53), float64(int64(1)<<53) + 2, -float64(int64(1) << 53),
	int64(1) << 62, int64(1)<<62 + 1, int64(4611686018427387950), float64(int64(1) << 62),
	int64(math.MaxInt64), int64(math.MinInt64), int64(math.MaxInt64) - 1,
	float64(math.MaxInt64), -float64(math.MaxInt64), 9223372036854775807.0 * 2,
	1e23, 1e22, 1e300, -1e300, 5e-324, 1.7976931348623157e308, 0.1, 0.3, 1.0 / 3.0,
	D128("NaN"), D128("Infinity"), D128("-Infinity"),
	D128("9007199254740992"), D128("9007199254740993"), D128("9007199254740991"),
	D128("4611686018427387904"), D128("4611686018427387950"), D128("4611686018427387905"),
	D128("9223372036854775807"), D128("9223372036854775808"), D128("-9223372036854775808"), D128("-9223372036854775809"),
	D128("1E+23"), D128("99999999999999991611392"), D128("1E+6144"), D128("1E-6176"), D128("-1E+6144"),
	D128("9999999999999999999999999999999999E+6111"), D128("1234567890123456789012345678901234"),
	D128("0.1"), D128("0.3"), D128("0.1000000000000000055511151231257827"), D128("1E+300"), D128("-0"), D128("0E+10"),
	D128("2147483647"), D128("2147483648"), D128("1.0"), D128("1.00"),
}

// BoundaryOthers add odd non-numeric scalars.
var BoundaryOthers = []interface{}{
	primitive.Regex{Pattern: "a", Options: ""}, primitive.Regex{Pattern: "a", Options: "i"}, primitive.Regex{Pattern: "b", Options: ""},
	primitive.DateTime(math.MaxInt64), primitive.DateTime(math.MinInt64), primitive.DateTime(-1),
	primitive.Timestamp{T: math.MaxUint32, I: math.MaxUint32}, primitive.Timestamp{T: 0, I: 0},
	primitive.Binary{Subtype: 0x80, Data: []byte{0xff}}, primitive.Binary{Subtype: 0, Data: []byte{0, 0, 0, 0, 0, 0, 0, 0, 1}},
	"a\x00b", "é", "abcdefghijklmnopqrstuvwxyzabcdefghijklmnopqrstuvwxyzabcdefghijklmnopqrstuvwxyz", "A", "aa",
	primitive.ObjectID{}, primitive.ObjectID{0xff, 0xff, 0xff, 0xff, 0xff, 0xff, 0xff, 0xff, 0xff, 0xff, 0xff, 0xff},
	primitive.Null{},
}

// Keys is the field-name vocabulary.
var Keys = []string{"a", "b", "c", "d", "e", "x", "y"}

// Scalar draws one scalar.
func Scalar(r *fw.Rand, p Pool) interface{} {
	switch p {
	case Core:
		if r.Chance(3, 5) {
			return fw.Pick(r, CoreNumbers)
		}
		return fw.Pick(r, CoreOthers)
	default:
		switch r.Intn(6) {
		case 0, 1:
			return fw.Pick(r, CoreNumbers)
		case 2:
			return fw.Pick(r, CoreOthers)
		case 3, 4:
			return fw.Pick(r, BoundaryNumbers)
		default:
			return fw.Pick(r, BoundaryOthers)
		}
	}
}

// Number draws one number.
func Number(r *fw.Rand, p Pool) interface{} {
	if p == Core || r.Chance(1, 2) {
		return fw.Pick(r, CoreNumbers)
	}
	return fw.Pick(r, BoundaryNumbers)
}

// Opts configures nested value generation.
type Opts struct {
	Pool        Pool
	Depth       int  // maximum nesting depth
	MaxArr      int  // maximum array length
	MaxFields   int  // maximum fields per document
	NestedArr   bool // arrays may contain arrays
	NumericKeys bool // documents may use numeric strings as keys
}

// DefaultOpts are the core-domain document options.
func DefaultOpts(p Pool) Opts {
	return Opts{Pool: p, Depth: 3, MaxArr: 4, MaxFields: 4}
}

// Value draws a scalar, array or embedded document.
func Value(r *fw.Rand, o Opts, depth int) interface{} {
	if depth >= o.Depth {
		return Scalar(r, o.Pool)
	}
	switch r.Intn(10) {
	case 0, 1:
		return Array(r, o, depth+1)
	case 2, 3:
		return SubDoc(r, o, depth+1)
	default:
		return Scalar(r, o.Pool)
	}
}

// Array draws an array of scalars and/or documents (and arrays if allowed).
func Array(r *fw.Rand, o Opts, depth int) bson.A {
	n := r.Intn(o.MaxArr + 1)
	a := make(bson.A, 0, n)
	kind := r.Intn(3) // 0 scalars, 1 documents, 2 mixed
	for i := 0; i < n; i++ {
		switch {
		case o.NestedArr && r.Chance(1, 5) && depth < o.Depth:
			a = append(a, Array(r, o, depth+1))
		case kind == 1 || (kind == 2 && r.Bool()):
			if depth < o.Depth {
				a = append(a, SubDoc(r, o, depth+1))
			} else {
				a = append(a, Scalar(r, o.Pool))
			}
		default:
			a = append(a, Scalar(r, o.Pool))
		}
	}
	return a
}

// SubDoc draws an embedded document with distinct keys.
func SubDoc(r *fw.Rand, o Opts, depth int) bson.D {
	n := r.Intn(o.MaxFields + 1)
	d := make(bson.D, 0, n)
	used := map[string]bool{}
	for i := 0; i < n; i++ {
		k := fw.Pick(r, Keys)
		if o.NumericKeys && r.Chance(1, 6) {
			k = fw.Pick(r, []string{"0", "1", "2"})
		}
		if used[k] {
			continue
		}
		used[k] = true
		d = append(d, bson.E{Key: k, Value: Value(r, o, depth)})
	}
	return d
}

// IDPool is the small pool of explicit _id values (duplicates are frequent).
var IDPool = []interface{}{
	int32(1), int32(2), int32(3), int32(4), int32(5), int32(6), int64(7), "k1", "k2", OIDs[0], OIDs[1],
}

// Doc draws a top level document; withID adds an explicit _id from IDPool.
func Doc(r *fw.Rand, o Opts, withID bool) bson.D {
	d := SubDoc(r, o, 0)
	if withID {
		d = append(bson.D{{Key: "_id", Value: fw.Pick(r, IDPool)}}, d...)
	}
	return d
}

// CloneValue deep-copies a generated value.
func CloneValue(v interface{}) interface{} {
	switch x := v.(type) {
	case bson.D:
		c := make(bson.D, len(x))
		for i, e := range x {
			c[i] = bson.E{Key: e.Key, Value: CloneValue(e.Value)}
		}
		return c
	case bson.A:
		c := make(bson.A, len(x))
		for i, e := range x {
			c[i] = CloneValue(e)
		}
		return c
	case primitive.Binary:
		return primitive.Binary{Subtype: x.Subtype, Data: append([]byte{}, x.Data...)}
	}
	return v
}

// CloneDoc deep-copies a document.
func CloneDoc(d bson.D) bson.D { return CloneValue(d).(bson.D) }

// JSON renders a value as canonical extended JSON (for witnesses and samples).
func JSON(v interface{}) string {
	b, err := bson.MarshalExtJSON(bson.D{{Key: "v", Value: v}}, true, false)
	if err != nil {
		return "<unrenderable: " + err.Error() + ">"
	}
	s := string(b)
	// strip {"v": ... }
	if len(s) > 6 {
		return s[5 : len(s)-1]
	}
	return s
}

// Bytes marshals a document (canonical comparison form); nil on error.
func Bytes(d bson.D) []byte {
	b, err := bson.Marshal(d)
	if err != nil {
		return nil
	}
	return b
}

// ValueBytes marshals an arbitrary value wrapped in a document.
func ValueBytes(v interface{}) []byte {
	return Bytes(bson.D{{Key: "v", Value: v}})
}
