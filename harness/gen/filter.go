package gen

import (
	"strconv"

	"go.mongodb.org/mongo-driver/bson"
	"go.mongodb.org/mongo-driver/bson/primitive"

	"verifharness/fw"
	"verifharness/ref"
)

// PathsOf lists paths that are meaningful for the document: existing fields,
// array indexes, fan-out paths, plus a few missing ones.
func PathsOf(d bson.D) []string {
	seen := map[string]bool{}
	var out []string
	add := func(p string) {
		if p != "" && !seen[p] {
			seen[p] = true
			out = append(out, p)
		}
	}
	var walk func(prefix string, v interface{}, depth int)
	walk = func(prefix string, v interface{}, depth int) {
		if depth > 4 {
			return
		}
		switch x := v.(type) {
		case bson.D:
			for _, e := range x {
				p := e.Key
				if prefix != "" {
					p = prefix + "." + e.Key
				}
				add(p)
				walk(p, e.Value, depth+1)
			}
			if prefix != "" {
				add(prefix + ".zz")
			}
		case bson.A:
			for i, el := range x {
				if i < 3 {
					add(prefix + "." + strconv.Itoa(i))
					walk(prefix+"."+strconv.Itoa(i), el, depth+1)
				}
				// fan-out paths: same prefix without index
				if ed, ok := el.(bson.D); ok {
					for _, e := range ed {
						add(prefix + "." + e.Key)
						walk(prefix+"."+e.Key, e.Value, depth+1)
					}
				}
			}
			add(prefix + "." + strconv.Itoa(len(x)))
		}
	}
	walk("", d, 0)
	for _, k := range Keys {
		add(k)
	}
	add("a.b")
	add("a.b.c")
	add("x.0")
	return out
}

// ValuesIn collects the scalar values occurring in a document.
func ValuesIn(v interface{}, out []interface{}) []interface{} {
	switch x := v.(type) {
	case bson.D:
		for _, e := range x {
			out = ValuesIn(e.Value, out)
		}
	case bson.A:
		for _, e := range x {
			out = ValuesIn(e, out)
		}
	default:
		out = append(out, v)
	}
	return out
}

// FilterOpts configures filter generation.
type FilterOpts struct {
	Pool     Pool
	Wild     bool // nested arrays / compound operands everywhere
	MaxDepth int
	NoSchema bool
}

// FilterGen generates filters against a vocabulary derived from documents.
type FilterGen struct {
	R      *fw.Rand
	O      FilterOpts
	Paths  []string
	Values []interface{}
	Docs   []bson.D
}

// NewFilterGen prepares a generator for the given documents.
func NewFilterGen(r *fw.Rand, o FilterOpts, docs ...bson.D) *FilterGen {
	g := &FilterGen{R: r, O: o, Docs: docs}
	seen := map[string]bool{}
	for _, d := range docs {
		for _, p := range PathsOf(d) {
			if !seen[p] {
				seen[p] = true
				g.Paths = append(g.Paths, p)
			}
		}
		g.Values = ValuesIn(d, g.Values)
	}
	if len(g.Paths) == 0 {
		g.Paths = append(g.Paths, Keys...)
	}
	if o.MaxDepth == 0 {
		g.O.MaxDepth = 3
	}
	return g
}

func (g *FilterGen) path() string { return fw.Pick(g.R, g.Paths) }

// near returns a value equal or adjacent to v (so comparisons are not vacuous).
func (g *FilterGen) near(v interface{}) interface{} {
	r := g.R
	switch n := v.(type) {
	case int32:
		return n + int32(r.Intn(3)-1)
	case int64:
		if n > -1<<62 && n < 1<<62 {
			return n + int64(r.Intn(3)-1)
		}
		return n
	case float64:
		switch r.Intn(3) {
		case 0:
			return n + 0.5
		case 1:
			return n - 1
		}
		return n
	case string:
		switch r.Intn(3) {
		case 0:
			return n + "a"
		case 1:
			if len(n) > 0 {
				return n[:len(n)-1]
			}
		}
		return n
	case primitive.DateTime:
		return n + primitive.DateTime(r.Intn(3)-1)
	}
	return v
}

// Operand draws a scalar operand.
func (g *FilterGen) Operand() interface{} {
	r := g.R
	if len(g.Values) > 0 && r.Chance(3, 5) {
		v := fw.Pick(r, g.Values)
		if r.Chance(1, 3) {
			return g.near(v)
		}
		// same mathematical value in another numeric type
		if r.Chance(1, 4) {
			switch n := v.(type) {
			case int32:
				return fw.Pick(r, []interface{}{int64(n), float64(n), D128(strconv.Itoa(int(n)))})
			case int64:
				if n > -1000 && n < 1000 {
					return fw.Pick(r, []interface{}{int32(n), float64(n), D128(strconv.Itoa(int(n)))})
				}
			}
		}
		return v
	}
	return Scalar(r, g.O.Pool)
}

// AnyOperand draws a scalar, null, array or document operand.
func (g *FilterGen) AnyOperand() interface{} {
	r := g.R
	switch r.Intn(10) {
	case 0:
		return nil
	case 1:
		o := Opts{Pool: g.O.Pool, Depth: 2, MaxArr: 3, MaxFields: 2, NestedArr: g.O.Wild}
		return Array(r, o, 1)
	case 2:
		o := Opts{Pool: g.O.Pool, Depth: 2, MaxArr: 2, MaxFields: 2, NestedArr: g.O.Wild}
		d := SubDoc(r, o, 1)
		return d
	}
	return g.Operand()
}

func (g *FilterGen) operandList(n int) bson.A {
	a := make(bson.A, 0, n)
	for i := 0; i < n; i++ {
		if g.R.Chance(1, 8) {
			a = append(a, g.AnyOperand())
		} else {
			a = append(a, g.Operand())
		}
	}
	return a
}

var typeAliasPool = []interface{}{"double", "string", "object", "array", "binData", "objectId", "bool", "date", "null", "int", "timestamp", "long", "decimal", "number", "regex",
	int32(1), int32(2), int32(16), int64(18), 10.0, int32(4), int32(3)}

// OpExpr draws one operator expression {op: arg} (returned as bson.E).
func (g *FilterGen) OpExpr(depth int) bson.E {
	r := g.R
	switch r.Intn(22) {
	case 0:
		return bson.E{Key: "$eq", Value: g.AnyOperand()}
	case 1:
		return bson.E{Key: "$ne", Value: g.AnyOperand()}
	case 2:
		return bson.E{Key: "$gt", Value: g.AnyOperand()}
	case 3:
		return bson.E{Key: "$gte", Value: g.AnyOperand()}
	case 4:
		return bson.E{Key: "$lt", Value: g.AnyOperand()}
	case 5:
		return bson.E{Key: "$lte", Value: g.AnyOperand()}
	case 6:
		return bson.E{Key: "$in", Value: g.operandList(r.Intn(4))}
	case 7:
		return bson.E{Key: "$nin", Value: g.operandList(r.Intn(4))}
	case 8:
		return bson.E{Key: "$exists", Value: fw.Pick(r, []interface{}{true, false, int32(1), int32(0), 0.0, nil, "x"})}
	case 9:
		if r.Chance(1, 4) {
			return bson.E{Key: "$type", Value: bson.A{fw.Pick(r, typeAliasPool), fw.Pick(r, typeAliasPool)}}
		}
		return bson.E{Key: "$type", Value: fw.Pick(r, typeAliasPool)}
	case 10:
		return bson.E{Key: "$size", Value: fw.Pick(r, []interface{}{int32(0), int32(1), int32(2), int64(3), 2.0, int32(4)})}
	case 11:
		return bson.E{Key: "$all", Value: g.operandList(r.Intn(3) + 1)}
	case 12:
		return bson.E{Key: "$mod", Value: bson.A{
			fw.Pick(r, []interface{}{int32(2), int32(3), int64(5), 2.5, int32(-2), int32(1), int64(10)}),
			fw.Pick(r, []interface{}{int32(0), int32(1), int64(2), 1.9, int32(-1)})}}
	case 13, 14:
		op := fw.Pick(r, []string{"$bitsAllSet", "$bitsAllClear", "$bitsAnySet", "$bitsAnyClear"})
		switch r.Intn(3) {
		case 0:
			return bson.E{Key: op, Value: fw.Pick(r, []interface{}{int32(1), int32(3), int64(5), 6.0, int32(0), int32(255), int64(1) << 40})}
		case 1:
			n := r.Intn(3) + 1
			a := bson.A{}
			for i := 0; i < n; i++ {
				a = append(a, fw.Pick(r, []interface{}{int32(0), int32(1), int32(2), int64(3), 31.0, int32(32), int32(63), int32(7)}))
			}
			return bson.E{Key: op, Value: a}
		default:
			return bson.E{Key: op, Value: primitive.Binary{Data: fw.Pick(r, [][]byte{{1}, {3}, {0, 1}, {0xff}, {}, {5, 0, 0, 0, 0, 0, 0, 0x80}})}}
		}
	case 15, 16:
		if depth >= g.O.MaxDepth {
			return bson.E{Key: "$eq", Value: g.Operand()}
		}
		// $not over 1-2 operator expressions
		n := r.Intn(2) + 1
		d := bson.D{}
		for i := 0; i < n; i++ {
			e := g.OpExpr(depth + 1)
			d = append(d, e)
		}
		return bson.E{Key: "$not", Value: d}
	case 17, 18:
		if depth >= g.O.MaxDepth {
			return bson.E{Key: "$eq", Value: g.Operand()}
		}
		// $elemMatch: operator form or field form
		if r.Bool() {
			n := r.Intn(2) + 1
			d := bson.D{}
			for i := 0; i < n; i++ {
				e := g.OpExpr(depth + 1)
				d = append(d, e)
			}
			return bson.E{Key: "$elemMatch", Value: d}
		}
		n := r.Intn(2) + 1
		d := bson.D{}
		for i := 0; i < n; i++ {
			k := fw.Pick(r, Keys)
			d = append(d, g.fieldCond(k, depth+1))
		}
		return bson.E{Key: "$elemMatch", Value: d}
	default:
		return bson.E{Key: fw.Pick(r, []string{"$eq", "$gt", "$lt", "$gte", "$lte", "$ne"}), Value: g.Operand()}
	}
}

// targeted builds a condition aimed at the value that some document really
// has at the path, so that operators are satisfiable about half of the time.
func (g *FilterGen) targeted(depth int) (bson.E, bool) {
	r := g.R
	if len(g.Docs) == 0 {
		return bson.E{}, false
	}
	d := fw.Pick(r, g.Docs)
	paths := PathsOf(d)
	if len(paths) == 0 {
		return bson.E{}, false
	}
	p := fw.Pick(r, paths)
	vals, _ := ref.Values(d, p)
	v := vals[r.Intn(len(vals))]
	if v == ref.Missing {
		return bson.E{}, false
	}
	one := func(op string, arg interface{}) (bson.E, bool) {
		return bson.E{Key: p, Value: bson.D{{Key: op, Value: arg}}}, true
	}
	switch x := v.(type) {
	case bson.A:
		switch r.Intn(6) {
		case 0:
			return one("$size", int32(len(x)+r.Intn(2)))
		case 1:
			if len(x) > 0 {
				sub := bson.A{x[r.Intn(len(x))]}
				if r.Bool() {
					sub = append(sub, x[r.Intn(len(x))])
				}
				if r.Chance(1, 4) {
					sub = append(sub, g.Operand())
				}
				return one("$all", sub)
			}
		case 2, 3:
			if len(x) > 0 && depth < g.O.MaxDepth {
				el := x[r.Intn(len(x))]
				if ed, ok := el.(bson.D); ok && len(ed) > 0 {
					f := ed[r.Intn(len(ed))]
					q := bson.D{{Key: f.Key, Value: g.aim(f.Value)}}
					if len(ed) > 1 && r.Bool() {
						f2 := ed[r.Intn(len(ed))]
						q = append(q, bson.E{Key: f2.Key, Value: bson.D{{Key: "$eq", Value: f2.Value}}})
					}
					return one("$elemMatch", q)
				}
				q := bson.D{{Key: fw.Pick(r, []string{"$eq", "$gte", "$lte"}), Value: g.near(el)}}
				if r.Bool() {
					q = append(q, bson.E{Key: fw.Pick(r, []string{"$ne", "$lt", "$gt", "$in"}), Value: g.Operand()})
					if q[1].Key == "$in" {
						q[1].Value = bson.A{el, g.Operand()}
					}
				}
				return one("$elemMatch", q)
			}
		case 4:
			if len(x) > 0 {
				return bson.E{Key: p, Value: g.aim(x[r.Intn(len(x))])}, true
			}
		}
		return bson.E{Key: p, Value: g.aim(v)}, true
	default:
		return bson.E{Key: p, Value: g.aim(v)}, true
	}
}

// aim returns a condition value (operand or operator document) aimed at v.
func (g *FilterGen) aim(v interface{}) interface{} {
	r := g.R
	opd := func(op string, arg interface{}) interface{} { return bson.D{{Key: op, Value: arg}} }
	switch n := v.(type) {
	case int32, int64, float64:
		var i int64
		switch m := n.(type) {
		case int32:
			i = int64(m)
		case int64:
			i = m
		case float64:
			if m > -1e15 && m < 1e15 {
				i = int64(m)
			}
		}
		switch r.Intn(8) {
		case 0:
			div := int64(r.Intn(4) + 2)
			rem := i % div
			if r.Chance(1, 4) {
				rem++
			}
			return opd("$mod", bson.A{div, rem})
		case 1:
			if i >= 0 && i < 1<<40 {
				return opd(fw.Pick(r, []string{"$bitsAllSet", "$bitsAnySet", "$bitsAllClear", "$bitsAnyClear"}), i&int64(r.Intn(16)|1))
			}
		case 2:
			return opd("$type", fw.Pick(r, []interface{}{ref.TypeOf(v), "number", "string"}))
		case 3:
			return opd(fw.Pick(r, []string{"$gt", "$gte", "$lt", "$lte"}), g.near(v))
		case 4:
			return opd("$in", bson.A{g.Operand(), v, g.Operand()})
		}
		return g.near(v)
	case primitive.Binary:
		if r.Bool() && len(n.Data) > 0 {
			return opd(fw.Pick(r, []string{"$bitsAllSet", "$bitsAnySet", "$bitsAllClear", "$bitsAnyClear"}), primitive.Binary{Data: []byte{n.Data[0] & byte(r.Intn(256))}})
		}
		return v
	case nil:
		return fw.Pick(r, []interface{}{nil, opd("$exists", true), opd("$type", "null"), opd("$in", bson.A{nil, int32(1)}), opd("$gte", nil)})
	case bson.D:
		if r.Bool() && !(len(n) > 0 && len(n[0].Key) > 0 && n[0].Key[0] == '$') {
			return v
		}
		return opd("$eq", v)
	}
	switch r.Intn(5) {
	case 0:
		return opd("$type", fw.Pick(r, []interface{}{ref.TypeOf(v), "string", "bool"}))
	case 1:
		return opd(fw.Pick(r, []string{"$gt", "$gte", "$lt", "$lte", "$ne"}), g.near(v))
	case 2:
		return opd("$in", bson.A{v, g.Operand()})
	}
	return g.near(v)
}

func (g *FilterGen) fieldCond(path string, depth int) bson.E {
	r := g.R
	if r.Chance(1, 2) {
		if e, ok := g.targeted(depth); ok {
			return e
		}
	}
	switch r.Intn(5) {
	case 0:
		return bson.E{Key: path, Value: g.AnyOperand()} // implicit equality
	case 1:
		return bson.E{Key: path, Value: g.Operand()}
	default:
		n := 1
		if r.Chance(1, 4) {
			n = 2
		}
		d := bson.D{}
		for i := 0; i < n; i++ {
			d = append(d, g.OpExpr(depth))
		}
		return bson.E{Key: path, Value: d}
	}
}

var schemaTypes = []string{"null", "boolean", "number", "string", "object", "array"}
var schemaBsonTypes = []string{"double", "string", "object", "array", "bool", "int", "long", "decimal", "null", "number", "date", "objectId"}

func (g *FilterGen) schema(depth int) bson.D {
	r := g.R
	s := bson.D{}
	if depth == 0 || r.Bool() {
		if r.Bool() {
			if depth == 0 {
				s = append(s, bson.E{Key: "type", Value: "object"})
			} else if r.Chance(1, 4) {
				s = append(s, bson.E{Key: "type", Value: bson.A{fw.Pick(r, schemaTypes), fw.Pick(r, schemaTypes)}})
			} else {
				s = append(s, bson.E{Key: "type", Value: fw.Pick(r, schemaTypes)})
			}
		} else {
			if depth == 0 {
				s = append(s, bson.E{Key: "bsonType", Value: "object"})
			} else {
				s = append(s, bson.E{Key: "bsonType", Value: fw.Pick(r, schemaBsonTypes)})
			}
		}
	}
	if depth == 0 {
		if r.Bool() {
			s = append(s, bson.E{Key: "required", Value: bson.A{fw.Pick(r, Keys)}})
		}
		if depth < 2 && r.Chance(3, 4) {
			props := bson.D{}
			used := map[string]bool{}
			for i := 0; i < r.Intn(2)+1; i++ {
				k := fw.Pick(r, Keys)
				if used[k] {
					continue
				}
				used[k] = true
				props = append(props, bson.E{Key: k, Value: g.schema(depth + 1)})
			}
			s = append(s, bson.E{Key: "properties", Value: props})
		}
		return s
	}
	switch r.Intn(5) {
	case 0:
		s = append(s, bson.E{Key: "minimum", Value: g.Operand2Num()})
	case 1:
		s = append(s, bson.E{Key: "maximum", Value: g.Operand2Num()})
	case 2:
		s = append(s, bson.E{Key: "enum", Value: g.operandList(r.Intn(3) + 1)})
	case 3:
		s = append(s, bson.E{Key: fw.Pick(r, []string{"minItems", "maxItems"}), Value: int32(r.Intn(4))})
	}
	return s
}

// Operand2Num draws a finite core number.
func (g *FilterGen) Operand2Num() interface{} { return fw.Pick(g.R, CoreNumbers) }

// Filter draws a filter document.
func (g *FilterGen) Filter(depth int) bson.D {
	r := g.R
	f := bson.D{}
	n := 1
	if r.Chance(1, 3) {
		n = 2
	}
	for i := 0; i < n; i++ {
		c := r.Intn(12)
		switch {
		case c < 3 && depth < g.O.MaxDepth:
			op := fw.Pick(r, []string{"$and", "$or", "$nor"})
			k := r.Intn(3) + 1
			arr := bson.A{}
			for j := 0; j < k; j++ {
				arr = append(arr, g.Filter(depth+1))
			}
			f = append(f, bson.E{Key: op, Value: arr})
		case c == 3 && !g.O.NoSchema && depth == 0:
			f = append(f, bson.E{Key: "$jsonSchema", Value: g.schema(0)})
		default:
			f = append(f, g.fieldCond(g.path(), depth))
		}
	}
	return f
}
