package gen

import (
	"math"
	"strings"

	"go.mongodb.org/mongo-driver/bson"
	"go.mongodb.org/mongo-driver/bson/primitive"

	"verifharness/fw"
)

// HostilePaths are odd but well-typed path strings.
var HostilePaths = []string{
	"", ".", "..", "a.", ".a", "a..b", "$", "$[]", "$[", "$[x", "$[x]", "a.$", "a.$[]", "a.$[].b", "a.$[x].b", "a.$[x", "a.-1", "a.0", "a.00", "a.1", "a.99999999999999999999",
	"a.9223372036854775807", "a.b.c.d.e.f.g", "_id", "_id.x", "a.$[].$[]", "$[].a", "a.b.$[e]", "a.0.b", "a.b.0", "0", "1.a", "a.$.b", "$a", "a.$set", " ", "a b", "é.ü",
}

// HostileInts are integers that break naive arithmetic.
var HostileInts = []interface{}{
	int64(math.MinInt64), int64(math.MaxInt64), int64(math.MinInt64) + 1, int64(math.MaxInt64) - 1, int32(math.MinInt32), int32(math.MaxInt32),
	int64(math.MaxInt32) + 1, int64(math.MinInt32) - 1, int64(0), int32(0), int32(-1), int64(-1), int32(1), int64(1) << 31, int64(1) << 32, int64(1) << 62, -(int64(1) << 62),
	float64(math.MaxInt64), -float64(math.MaxInt64), 1e308, -1e308, math.Inf(1), math.Inf(-1), math.NaN(), 0.5, -0.5, math.Copysign(0, -1), 5e-324,
	D128("NaN"), D128("Infinity"), D128("-Infinity"), D128("1E+6144"), D128("-1E+6144"), D128("1E-6176"), D128("9223372036854775808"), D128("-9223372036854775809"), D128("0.5"), D128("0"),
}

// HostileValue draws a value of any supported type, biased towards values
// that break naive code (wrong operand types, huge/non-finite numbers, empty
// and deeply nested containers, document- and binary-valued ids).
func HostileValue(r *fw.Rand, depth int) interface{} {
	switch r.Intn(14) {
	case 0, 1:
		return fw.Pick(r, HostileInts)
	case 2:
		return Scalar(r, Boundary)
	case 3:
		return fw.Pick(r, []interface{}{nil, true, false, "", "a", "$a", "$", "a.b", primitive.Regex{Pattern: "(", Options: "zz"}, primitive.Regex{Pattern: "a", Options: ""},
			primitive.Binary{Subtype: 0, Data: nil}, primitive.Binary{Subtype: 4, Data: []byte{1}}, primitive.Timestamp{}, primitive.DateTime(math.MinInt64), primitive.DateTime(math.MaxInt64),
			primitive.ObjectID{}})
		// (MinKey, MaxKey, Undefined, JavaScript, Symbol, DBPointer and
		// CodeWithScope are not among lungo's supported types and are not generated)
	case 4:
		return bson.A{}
	case 5:
		return bson.D{}
	case 6, 7:
		if depth > 3 {
			return int32(1)
		}
		n := r.Intn(4)
		a := bson.A{}
		for i := 0; i < n; i++ {
			a = append(a, HostileValue(r, depth+1))
		}
		return a
	case 8, 9:
		if depth > 3 {
			return "x"
		}
		n := r.Intn(4)
		d := bson.D{}
		for i := 0; i < n; i++ {
			k := fw.Pick(r, Keys)
			if r.Chance(1, 5) {
				k = fw.Pick(r, []string{"", "$", "$gt", "$each", "$slice", "0", "a.b", "$x", "_id"})
			}
			d = append(d, bson.E{Key: k, Value: HostileValue(r, depth+1)})
		}
		return d
	case 10:
		if depth > 0 {
			return int32(2)
		}
		// deep nesting
		var v interface{} = int32(1)
		n := r.Range(10, 64)
		for i := 0; i < n; i++ {
			if r.Bool() {
				v = bson.A{v}
			} else {
				v = bson.D{{Key: "a", Value: v}}
			}
		}
		return v
	case 11:
		if depth > 0 {
			return "w"
		}
		// wide array
		n := r.Range(100, 2000)
		a := make(bson.A, n)
		for i := range a {
			a[i] = int32(i % 7)
		}
		return a
	default:
		return Scalar(r, Core)
	}
}

// HostileDoc draws a document with odd keys and values; idKind selects the
// _id: 0 none, 1 scalar, 2 document, 3 binary, 4 array-free odd value.
func HostileDoc(r *fw.Rand, idKind int) bson.D {
	d := bson.D{}
	switch idKind {
	case 1:
		d = append(d, bson.E{Key: "_id", Value: fw.Pick(r, IDPool)})
	case 2:
		d = append(d, bson.E{Key: "_id", Value: bson.D{{Key: "k", Value: int32(r.Intn(3))}, {Key: "s", Value: bson.D{{Key: "x", Value: "y"}}}}})
	case 3:
		d = append(d, bson.E{Key: "_id", Value: primitive.Binary{Subtype: 4, Data: []byte{byte(r.Intn(3)), 2, 3}}})
	case 4:
		d = append(d, bson.E{Key: "_id", Value: fw.Pick(r, []interface{}{math.NaN(), D128("NaN"), primitive.Timestamp{T: 1}, primitive.DateTime(1), nil, "", math.Inf(1), int64(math.MinInt64), true, primitive.Regex{Pattern: "a"}, bson.D{}})})
	}
	n := r.Intn(5)
	for i := 0; i < n; i++ {
		k := fw.Pick(r, Keys)
		if r.Chance(1, 8) {
			k = fw.Pick(r, []string{"", "0", "1", "a.b", "$a", " ", "é"})
		}
		d = append(d, bson.E{Key: k, Value: HostileValue(r, 1)})
	}
	return d
}

var queryOps = []string{"$eq", "$ne", "$gt", "$gte", "$lt", "$lte", "$in", "$nin", "$exists", "$type", "$all", "$size", "$elemMatch", "$mod", "$not",
	"$bitsAllSet", "$bitsAllClear", "$bitsAnySet", "$bitsAnyClear", "$jsonSchema", "$regex", "$and", "$or", "$nor", "$where", "$expr", "$text", "$", "$unknown", ""}

var updateOps = []string{"$set", "$setOnInsert", "$unset", "$rename", "$inc", "$mul", "$min", "$max", "$currentDate", "$push", "$pop", "$pull", "$pullAll", "$addToSet", "$bit", "$", "$unknown", "", "$each"}

var pushMods = []string{"$each", "$position", "$sort", "$slice", "$unknown"}

func hostilePath(r *fw.Rand, paths []string) string {
	if len(paths) > 0 && r.Chance(1, 2) {
		p := fw.Pick(r, paths)
		switch r.Intn(6) {
		case 0:
			return p + "." + fw.Pick(r, []string{"0", "-1", "$[]", "$[e]", "$", "x", "", "99999999999"})
		case 1:
			return p + "."
		}
		return p
	}
	return fw.Pick(r, HostilePaths)
}

// HostileFilter builds a structurally odd filter document.
func HostileFilter(r *fw.Rand, paths []string, depth int) bson.D {
	n := r.Intn(3) + 1
	if r.Chance(1, 20) {
		n = 0
	}
	f := bson.D{}
	for i := 0; i < n; i++ {
		switch r.Intn(8) {
		case 0:
			op := fw.Pick(r, []string{"$and", "$or", "$nor", "$not", "$jsonSchema", "$where", "$unknown"})
			if depth < 3 && r.Chance(2, 3) {
				k := r.Intn(3)
				a := bson.A{}
				for j := 0; j < k; j++ {
					if r.Chance(4, 5) {
						a = append(a, HostileFilter(r, paths, depth+1))
					} else {
						a = append(a, HostileValue(r, 2))
					}
				}
				f = append(f, bson.E{Key: op, Value: a})
			} else {
				f = append(f, bson.E{Key: op, Value: HostileValue(r, 2)})
			}
		case 1, 2:
			f = append(f, bson.E{Key: hostilePath(r, paths), Value: HostileValue(r, 2)})
		default:
			m := r.Intn(3) + 1
			od := bson.D{}
			for j := 0; j < m; j++ {
				op := fw.Pick(r, queryOps)
				var arg interface{}
				switch r.Intn(6) {
				case 0:
					arg = fw.Pick(r, HostileInts)
				case 1:
					k := r.Intn(4)
					a := bson.A{}
					for q := 0; q < k; q++ {
						a = append(a, HostileValue(r, 2))
					}
					arg = a
				case 2:
					if depth < 3 {
						arg = HostileFilter(r, paths, depth+1)
					} else {
						arg = bson.D{}
					}
				case 3:
					arg = fw.Pick(r, []interface{}{"number", "null", "string", "array", "object", "nope", int32(1), int32(-5), int32(300), 2.5, bson.A{"int", int32(99)}})
				default:
					arg = HostileValue(r, 2)
				}
				if op == "$mod" && r.Chance(1, 2) {
					// well-shaped [divisor, remainder] pairs with odd numbers: zero,
					// fractions that truncate to zero, non-finite and huge values
					odd := []interface{}{0.5, -0.25, 1e-300, 0.0, math.Copysign(0, -1), int32(0), int64(0), math.NaN(), math.Inf(1), math.Inf(-1), 1e300, -1e300, 9.3e18, int64(math.MinInt64), int32(-1), int32(3), 2.5, D128("0"), D128("0.5"), D128("NaN")}
					arg = bson.A{fw.Pick(r, odd), fw.Pick(r, odd)}
				}
				od = append(od, bson.E{Key: op, Value: arg})
			}
			f = append(f, bson.E{Key: hostilePath(r, paths), Value: od})
		}
	}
	return f
}

// HostileUpdate builds a structurally odd update document and array filters.
func HostileUpdate(r *fw.Rand, paths []string) (bson.D, []bson.D) {
	n := r.Intn(3) + 1
	if r.Chance(1, 25) {
		n = 0
	}
	u := bson.D{}
	for i := 0; i < n; i++ {
		op := fw.Pick(r, updateOps)
		if r.Chance(1, 12) {
			u = append(u, bson.E{Key: op, Value: HostileValue(r, 1)})
			continue
		}
		m := r.Intn(3) + 1
		args := bson.D{}
		for j := 0; j < m; j++ {
			p := hostilePath(r, paths)
			var arg interface{}
			switch op {
			case "$push", "$addToSet":
				if r.Chance(2, 3) {
					md := bson.D{}
					for q := r.Intn(4); q >= 0; q-- {
						mod := fw.Pick(r, pushMods)
						var mv interface{}
						switch r.Intn(4) {
						case 0:
							mv = fw.Pick(r, HostileInts)
						case 1:
							mv = bson.A{HostileValue(r, 2), HostileValue(r, 2)}
						case 2:
							mv = bson.D{{Key: hostilePath(r, paths), Value: fw.Pick(r, []interface{}{int32(1), int32(-1), int32(0), "x", 1.5})}}
						default:
							mv = HostileValue(r, 2)
						}
						md = append(md, bson.E{Key: mod, Value: mv})
					}
					arg = md
				} else {
					arg = HostileValue(r, 2)
				}
			case "$inc", "$mul", "$pop", "$bit":
				switch r.Intn(4) {
				case 0:
					arg = bson.D{{Key: fw.Pick(r, []string{"and", "or", "xor", "nand", ""}), Value: fw.Pick(r, HostileInts)}}
				case 1:
					arg = HostileValue(r, 2)
				default:
					arg = fw.Pick(r, HostileInts)
				}
			case "$rename":
				if r.Chance(3, 4) {
					arg = hostilePath(r, paths)
				} else {
					arg = HostileValue(r, 2)
				}
			case "$currentDate":
				arg = fw.Pick(r, []interface{}{true, false, bson.D{{Key: "$type", Value: "date"}}, bson.D{{Key: "$type", Value: "timestamp"}}, bson.D{{Key: "$type", Value: int32(1)}}, bson.D{{Key: "$nope", Value: "date"}}, int32(1), "date", nil})
			default:
				arg = HostileValue(r, 2)
			}
			args = append(args, bson.E{Key: p, Value: arg})
		}
		u = append(u, bson.E{Key: op, Value: args})
	}
	var afs []bson.D
	if r.Chance(1, 3) {
		k := r.Intn(3)
		for i := 0; i <= k; i++ {
			switch r.Intn(4) {
			case 0:
				afs = append(afs, bson.D{})
			case 1:
				afs = append(afs, bson.D{{Key: fw.Pick(r, []string{"e", "x", "e.a", "", "$[e]", "e.$", "0"}), Value: HostileValue(r, 2)}})
			case 2:
				afs = append(afs, bson.D{{Key: "e", Value: int32(1)}, {Key: "x", Value: int32(2)}})
			default:
				afs = append(afs, HostileFilter(r, []string{"e", "x", "e.a"}, 2))
			}
		}
	}
	return u, afs
}

// HostileProjection builds a structurally odd projection.
func HostileProjection(r *fw.Rand, paths []string) bson.D {
	n := r.Intn(4)
	p := bson.D{}
	for i := 0; i < n; i++ {
		var v interface{}
		switch r.Intn(8) {
		case 0:
			v = bson.D{{Key: "$slice", Value: fw.Pick(r, HostileInts)}}
		case 1:
			v = bson.D{{Key: "$slice", Value: bson.A{fw.Pick(r, HostileInts), fw.Pick(r, HostileInts)}}}
		case 2:
			v = bson.D{{Key: "$slice", Value: HostileValue(r, 2)}}
		case 3:
			v = bson.D{{Key: "$elemMatch", Value: HostileFilter(r, paths, 2)}}
		case 4:
			v = bson.D{{Key: fw.Pick(r, []string{"$meta", "$", "", "$slice", "$elemMatch", "$unknown"}), Value: HostileValue(r, 2)}}
		case 5:
			v = fw.Pick(r, []interface{}{int32(1), int32(0), true, false, 1.0, 0.0, int64(1), int32(-1), int32(2), math.NaN(), D128("1"), D128("0"), D128("NaN")})
		default:
			v = HostileValue(r, 2)
		}
		p = append(p, bson.E{Key: hostilePath(r, paths), Value: v})
	}
	return p
}

// HostileSort builds a structurally odd sort document.
func HostileSort(r *fw.Rand, paths []string) bson.D {
	n := r.Intn(3)
	s := bson.D{}
	for i := 0; i < n; i++ {
		var v interface{}
		if r.Chance(2, 3) {
			v = fw.Pick(r, []interface{}{int32(1), int32(-1), int64(1), 1.0, -1.0, int32(0), int32(2), "asc", true, nil, math.NaN(), int64(math.MinInt64), D128("1"), D128("-1"), bson.D{{Key: "$meta", Value: "textScore"}}})
		} else {
			v = HostileValue(r, 2)
		}
		s = append(s, bson.E{Key: hostilePath(r, paths), Value: v})
	}
	return s
}

// HasOddKey tells whether a document tree contains an empty key (reported in
// witnesses only).
func HasOddKey(v interface{}) bool {
	switch x := v.(type) {
	case bson.D:
		for _, e := range x {
			if e.Key == "" || strings.Contains(e.Key, "\x00") || HasOddKey(e.Value) {
				return true
			}
		}
	case bson.A:
		for _, e := range x {
			if HasOddKey(e) {
				return true
			}
		}
	}
	return false
}
