// Package sched is the hook controller: it installs the verif callback of
// lungo, traces hook events on one logical time line, injects random yields and
// short sleeps at out-of-lock points and can hold one actor at a point until
// another actor passed another point (always with a timeout, so the harness
// itself never blocks anything permanently).
package sched

import (
	"hash/fnv"
	"runtime"
	"strconv"
	"sync"
	"sync/atomic"
	"time"

	"github.com/256dpi/lungo"
)

// Event is one hook event.
type Event struct {
	Seq   int64
	Actor int // -1: unknown goroutine (e.g. the expiry goroutine)
	Point string
}

// OutOfLock lists the points that are outside every lock (delays there only
// widen windows the program has anyway).
var OutOfLock = map[string]bool{
	"begin.unlocked": true, "begin.acquired": true, "begin.acquire_failed": true,
	"close.killed": true, "close.streams_closed": true, "close.done": true,
	"stream.before_wait": true, "stream.woken": true,
	"session.start.reserved": true, "session.start.begun": true,
	"expire.pass_begin": true, "expire.pass_end": true, "expire.exit": true,
}

// AllPoints lists every hook point (for directed exploration).
var AllPoints = []string{
	"begin.locked", "begin.unlocked", "begin.acquired", "begin.acquire_failed", "begin.txn_set", "token.release",
	"commit.locked", "commit.before_store", "commit.before_publish", "commit.before_broadcast", "abort.locked",
	"close.killed", "close.streams_closed", "close.done",
	"stream.before_wait", "stream.woken",
	"session.start.reserved", "session.start.begun", "session.commit.locked", "session.abort.locked", "session.end.locked",
}

// Hold describes a directed rule: the n-th arrival (1-based, 0 = every) of
// Actor at Point parks until Until.Actor has passed Until.Point (any time
// after the park began) or Timeout expired.
type Hold struct {
	Actor, UntilActor int
	Point, UntilPoint string
	Timeout           time.Duration
}

// Controller is installed with Install and removed with Remove.
type Controller struct {
	seq     *atomic.Int64
	mu      sync.Mutex
	events  []Event
	actors  map[uint64]int
	rnd     map[int]*uint64 // per-actor PRNG state
	Random  bool            // random yields/sleeps at out-of-lock points
	MaxWait time.Duration   // largest random sleep
	hold    *Hold
	waiting chan struct{}
	holdOn  atomic.Bool
	// Achieved is set when the held actor was released by the awaited event;
	// Parked when the hold was reached at all.
	Achieved, Parked atomic.Bool
	// HoldsActive counts currently parked goroutines.
	HoldsActive atomic.Int32
	// Holders is the token monitor: +1 at begin.acquired, -1 at token.release.
	Holders    atomic.Int32
	MaxHolders atomic.Int32
	MinHolders atomic.Int32
	// Seen counts events per point.
	seen map[string]int
	// OnEvent, if set, is called for every event outside the controller lock.
	OnEvent func(actor int, point string, obj interface{})
}

// New creates a controller; seq is the shared logical clock (may be nil).
func New(seq *atomic.Int64) *Controller {
	if seq == nil {
		seq = &atomic.Int64{}
	}
	return &Controller{seq: seq, actors: map[uint64]int{}, rnd: map[int]*uint64{}, seen: map[string]int{}, MaxWait: 200 * time.Microsecond}
}

func goid() uint64 {
	var buf [64]byte
	n := runtime.Stack(buf[:], false)
	// "goroutine 123 ["
	s := buf[10:n]
	for i, ch := range s {
		if ch == ' ' {
			v, _ := strconv.ParseUint(string(s[:i]), 10, 64)
			return v
		}
	}
	return 0
}

// Register binds the calling goroutine to an actor number and seeds its PRNG.
func (c *Controller) Register(actor int, seed uint64) {
	id := goid()
	c.mu.Lock()
	c.actors[id] = actor
	s := seed | 1
	c.rnd[actor] = &s
	c.mu.Unlock()
}

// Goid returns the goroutine id registered for an actor (0 if none).
func (c *Controller) Goid(actor int) uint64 {
	c.mu.Lock()
	defer c.mu.Unlock()
	for id, a := range c.actors {
		if a == actor {
			return id
		}
	}
	return 0
}

// SetHold arms one directed rule.
func (c *Controller) SetHold(h Hold) {
	c.mu.Lock()
	c.hold = &h
	c.waiting = nil
	c.mu.Unlock()
	c.holdOn.Store(true)
}

// Install makes the controller the process-wide hook.
func (c *Controller) Install() { lungo.SetVerifHook(c.hook) }

// Remove uninstalls the hook.
func Remove() { lungo.SetVerifHook(nil) }

func (c *Controller) hook(point string, obj interface{}) {
	id := goid()
	seq := c.seq.Add(1)
	c.mu.Lock()
	actor, ok := c.actors[id]
	if !ok {
		actor = -1
	}
	if len(c.events) < 20000 {
		c.events = append(c.events, Event{Seq: seq, Actor: actor, Point: point})
	}
	c.seen[point]++
	var park chan struct{}
	var timeout time.Duration
	if c.hold != nil {
		h := c.hold
		if c.waiting != nil && actor == h.UntilActor && point == h.UntilPoint {
			// the awaited event: release the parked actor
			close(c.waiting)
			c.waiting = nil
			c.hold = nil
			c.Achieved.Store(true)
		} else if c.waiting == nil && actor == h.Actor && point == h.Point && !c.Parked.Load() {
			c.waiting = make(chan struct{})
			park = c.waiting
			timeout = h.Timeout
			c.Parked.Store(true)
		}
	}
	var rs *uint64
	if c.Random && OutOfLock[point] {
		rs = c.rnd[actor]
	}
	c.mu.Unlock()

	// token monitor
	switch point {
	case "begin.acquired":
		n := c.Holders.Add(1)
		for {
			m := c.MaxHolders.Load()
			if n <= m || c.MaxHolders.CompareAndSwap(m, n) {
				break
			}
		}
	case "token.release":
		n := c.Holders.Add(-1)
		for {
			m := c.MinHolders.Load()
			if n >= m || c.MinHolders.CompareAndSwap(m, n) {
				break
			}
		}
	}
	if c.OnEvent != nil {
		c.OnEvent(actor, point, obj)
	}
	if park != nil {
		c.HoldsActive.Add(1)
		select {
		case <-park:
		case <-time.After(timeout):
			c.mu.Lock()
			if c.waiting == park {
				c.waiting = nil
				c.hold = nil
			}
			c.mu.Unlock()
		}
		c.HoldsActive.Add(-1)
		return
	}
	if rs != nil {
		// xorshift per actor (only the owning goroutine touches it)
		x := *rs
		x ^= x << 13
		x ^= x >> 7
		x ^= x << 17
		*rs = x
		switch x % 4 {
		case 0:
		case 1:
			for i := uint64(0); i < 1+x>>60; i++ {
				runtime.Gosched()
			}
		default:
			time.Sleep(time.Duration(x>>40) % c.MaxWait)
		}
	}
}

// Events returns a copy of the trace.
func (c *Controller) Events() []Event {
	c.mu.Lock()
	defer c.mu.Unlock()
	out := make([]Event, len(c.events))
	copy(out, c.events)
	return out
}

// Seen returns how often a point was hit.
func (c *Controller) Seen() map[string]int {
	c.mu.Lock()
	defer c.mu.Unlock()
	out := map[string]int{}
	for k, v := range c.seen {
		out[k] = v
	}
	return out
}

// InterleavingHash hashes the projected (actor, point) sequence.
func (c *Controller) InterleavingHash() uint64 {
	h := fnv.New64a()
	for _, e := range c.Events() {
		if e.Actor < 0 {
			continue
		}
		h.Write([]byte{byte(e.Actor)})
		h.Write([]byte(e.Point))
	}
	return h.Sum64()
}

// TraceStrings renders the trace for witnesses.
func (c *Controller) TraceStrings(max int) []string {
	ev := c.Events()
	if len(ev) > max {
		ev = ev[len(ev)-max:]
	}
	out := make([]string, len(ev))
	for i, e := range ev {
		out[i] = strconv.FormatInt(e.Seq, 10) + " actor" + strconv.Itoa(e.Actor) + " " + e.Point
	}
	return out
}
