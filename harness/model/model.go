// Package model is the plain sequential model of MongoDB semantics used by
// C01: a list of documents in insertion order per collection plus index
// definitions, with the operator semantics of package ref. It shares no code
// with lungo.
package model

import (
	"fmt"
	"sort"
	"strconv"
	"strings"

	"go.mongodb.org/mongo-driver/bson"
	"go.mongodb.org/mongo-driver/bson/primitive"

	"verifharness/drv"
	"verifharness/gen"
	"verifharness/mon"
	"verifharness/ref"
)

// Coll is one collection.
type Coll struct {
	Docs    []bson.D
	Indexes map[string]drv.IndexSpec // by name, incl. "_id_"
}

// World is the whole database server.
type World struct {
	Colls map[string]*Coll // "db.coll"
	// OOD is set (with a reason) when a call left the domain in which the
	// model predicts MongoDB's behaviour; the history must stop there.
	OOD string
	// Touched lists, for the last call, the _id keys of the documents it
	// modified with their pre-images (for order-tolerant comparison).
	Touched map[string]bson.D
	// Adopt lists generated ids the model took from the real result.
	nextAdopt []interface{}
	inBulk    bool
	// ModifiedMax counts, for the last call, the documents whose bytes changed
	// in the model (>= the modified count by value; the two differ when only
	// the exponent of a decimal128 changed, which is not asserted).
	ModifiedMax int64
	// SkipResult is set when the outcome of the last call is not asserted
	// (its effect on the contents is still modelled).
	SkipResult bool
	// SkipDocs is set when the contents of the returned documents are not
	// asserted (projection outside the reference's domain; the number of
	// documents still is); LooseDocs when they are compared as field sets
	// (inclusion projections: the field order of the result is not asserted).
	SkipDocs, LooseDocs bool
}

// New creates an empty world.
func New() *World { return &World{Colls: map[string]*Coll{}} }

func key(db, coll string) string { return db + "." + coll }

func idKey(v interface{}) string { return string(gen.ValueBytes(v)) }

func (w *World) ood(format string, a ...interface{}) {
	if w.OOD == "" {
		w.OOD = fmt.Sprintf(format, a...)
	}
}

func (w *World) coll(db, coll string, create bool) *Coll {
	c := w.Colls[key(db, coll)]
	if c == nil && create {
		c = &Coll{Indexes: map[string]drv.IndexSpec{"_id_": {Keys: bson.D{{Key: "_id", Value: int32(1)}}, Unique: true, Name: "_id_"}}}
		w.Colls[key(db, coll)] = c
	}
	return c
}

func getID(d bson.D) (interface{}, bool) {
	for _, e := range d {
		if e.Key == "_id" {
			return e.Value, true
		}
	}
	return nil, false
}

// match evaluates a filter; ok=false when out of domain or malformed
// (malformed filters are reported through err).
func (w *World) match(d bson.D, f bson.D) (bool, error) {
	info := &ref.MatchInfo{}
	m, err := ref.Match(d, f, info)
	if err != nil {
		return false, err
	}
	if info.OutOfDomain {
		w.ood("filter outside the reference domain: %s", info.Why)
	}
	return m, nil
}

func (w *World) matching(c *Coll, f bson.D) ([]int, error) {
	var out []int
	if c == nil {
		// (a malformed filter on a missing collection: lungo returns early; not asserted)
		return nil, nil
	}
	for i, d := range c.Docs {
		m, err := w.match(d, f)
		if err != nil {
			return nil, err
		}
		if m {
			out = append(out, i)
		}
	}
	return out, nil
}

func sortCols(s bson.D) []ref.SortCol {
	var cols []ref.SortCol
	for _, e := range s {
		dir := 1
		if n, ok := ref.ToNum(e.Value); ok && n.Rat != nil && n.Rat.Sign() < 0 {
			dir = -1
		}
		cols = append(cols, ref.SortCol{Path: e.Key, Dir: dir})
	}
	return cols
}

// ordered returns the matching positions in result order (sort, then natural).
func (w *World) ordered(c *Coll, f, s bson.D) ([]int, error) {
	idx, err := w.matching(c, f)
	if err != nil || len(s) == 0 || len(idx) == 0 {
		return idx, err
	}
	docs := make([]bson.D, len(idx))
	for i, p := range idx {
		docs[i] = c.Docs[p]
	}
	order, ood := ref.SortDocs(docs, sortCols(s))
	if ood {
		w.ood("sort key outside the reference domain")
	}
	out := make([]int, len(order))
	for i, o := range order {
		out[i] = idx[o]
	}
	return out, nil
}

// uniqueConflict tells whether doc d (not yet in others) conflicts under any
// unique index of c.
func (w *World) uniqueConflict(c *Coll, d bson.D, others []bson.D) bool {
	names := make([]string, 0, len(c.Indexes))
	for n := range c.Indexes {
		names = append(names, n)
	}
	sort.Strings(names)
	for _, n := range names {
		s := c.Indexes[n]
		if !s.Unique {
			continue
		}
		var part *bson.D
		if s.Partial != nil {
			p := s.Partial
			part = &p
		}
		conf, ok := mon.Conflicts(d, others, s.Keys, part)
		if !ok {
			w.ood("index key outside the reference domain (index %s)", n)
			return false
		}
		if conf {
			return true
		}
	}
	return false
}

// anyPair tells whether docs contain a uniqueness conflict under c's indexes.
func (w *World) anyPair(c *Coll, docs []bson.D) bool {
	for i := range docs {
		if w.uniqueConflict(c, docs[i], docs[i+1:]) {
			return true
		}
	}
	return false
}

// UpsertSeed extracts the equality conditions of a filter.
func (w *World) upsertSeed(f bson.D) (bson.D, error) {
	seed := bson.D{}
	var put func(path string, v interface{}) error
	put = func(path string, v interface{}) error {
		// the same path twice or a path and its prefix: MongoDB rejects such
		// upserts, the details are outside the modelled domain
		if ref.GetPath(seed, path) != ref.Missing {
			w.ood("upsert filter gives a path twice")
			return nil
		}
		out, ok := setPath(seed, strings.Split(path, "."), gen.CloneValue(v))
		if !ok {
			w.ood("upsert filter gives a path and its prefix")
			return nil
		}
		seed = out
		return nil
	}
	var walk func(f bson.D) error
	walk = func(f bson.D) error {
		seenKeys := map[string]bool{}
		for _, e := range f {
			// MongoDB's seeding rules for intricate filters (repeated keys, several
			// operators on one field, $in, numeric path segments) are outside the
			// modelled domain
			if seenKeys[e.Key] {
				w.ood("upsert with a repeated filter key")
			}
			seenKeys[e.Key] = true
			for _, seg := range strings.Split(e.Key, ".") {
				if seg != "" && seg[0] >= '0' && seg[0] <= '9' {
					w.ood("upsert with a numeric path segment in the filter")
				}
			}
			if od, ok := e.Value.(bson.D); ok && len(od) > 1 && strings.HasPrefix(od[0].Key, "$") {
				w.ood("upsert with several operators on one filter field")
			}
			switch {
			case e.Key == "$and":
				arr, _ := e.Value.(bson.A)
				for _, x := range arr {
					if sub, ok := x.(bson.D); ok {
						if err := walk(sub); err != nil {
							return err
						}
					}
				}
			case strings.HasPrefix(e.Key, "$"):
				// $or / $nor contribute nothing (single-branch $or is not generated)
				if e.Key == "$or" {
					w.ood("upsert with $or in the filter")
				}
			default:
				if od, ok := e.Value.(bson.D); ok && len(od) > 0 && strings.HasPrefix(od[0].Key, "$") {
					for _, o := range od {
						switch o.Key {
						case "$eq":
							if err := put(e.Key, o.Value); err != nil {
								return err
							}
						case "$in", "$all", "$elemMatch":
							w.ood("upsert with %s in the filter", o.Key)
						}
					}
					continue
				}
				if err := put(e.Key, e.Value); err != nil {
					return err
				}
			}
		}
		return nil
	}
	if err := walk(f); err != nil {
		return nil, err
	}
	return seed, nil
}

// setPath sets a dotted path in a document, creating embedded documents.
func setPath(d bson.D, segs []string, v interface{}) (bson.D, bool) {
	for i, e := range d {
		if e.Key == segs[0] {
			if len(segs) == 1 {
				d[i].Value = v
				return d, true
			}
			sub, ok := e.Value.(bson.D)
			if !ok {
				return d, false
			}
			ns, ok := setPath(sub, segs[1:], v)
			d[i].Value = ns
			return d, ok
		}
	}
	if len(segs) == 1 {
		return append(d, bson.E{Key: segs[0], Value: v}), true
	}
	ns, ok := setPath(bson.D{}, segs[1:], v)
	return append(d, bson.E{Key: segs[0], Value: ns}), ok
}

func clone(d bson.D) bson.D { return gen.CloneDoc(d) }

func withID(d bson.D, id interface{}) bson.D {
	return append(bson.D{{Key: "_id", Value: id}}, d...)
}

// AdoptIDs hands the model the ids the real call generated (ObjectIDs).
func (w *World) AdoptIDs(ids []interface{}) { w.nextAdopt = ids }

func (w *World) freshID() (interface{}, bool) {
	if len(w.nextAdopt) == 0 {
		return nil, false
	}
	id := w.nextAdopt[0]
	w.nextAdopt = w.nextAdopt[1:]
	if _, ok := id.(primitive.ObjectID); !ok {
		return nil, false
	}
	return id, true
}

// insert adds one document; returns the id and whether it failed. The
// collection is created only when the insert succeeds.
func (w *World) insert(db, coll string, d bson.D) (interface{}, string, bool) {
	c := w.coll(db, coll, false)
	fresh := c == nil
	if fresh {
		c = w.coll(db, coll, true)
		defer func() {
			if len(c.Docs) == 0 {
				delete(w.Colls, key(db, coll))
			}
		}()
	}
	d = clone(d)
	id, has := getID(d)
	if !has {
		nid, ok := w.freshID()
		if !ok {
			w.ood("generated _id cannot be adopted")
			return nil, "", false
		}
		id = nid
		d = withID(d, id)
	}
	if w.uniqueConflict(c, d, c.Docs) {
		return nil, "duplicate key", true
	}
	c.Docs = append(c.Docs, d)
	return id, "", false
}

func errRes(msg string, unique bool) drv.Res {
	return drv.Res{Err: msg, Unique: unique}
}

type updOutcome struct {
	matched, modified, upserted int64
	upsertedID                  interface{}
	err                         string
	unique                      bool
	before, after               bson.D // first matched document before/after (or upserted after)
	found                       bool
}

// update applies an update (or replacement when repl) to the first / all
// matching documents, all-or-nothing.
func (w *World) update(db, coll string, f, s bson.D, u bson.D, af []bson.D, many, upsert, repl bool) updOutcome {
	var out updOutcome
	c := w.coll(db, coll, false)
	if c == nil && !upsert {
		return out
	}
	idx, err := w.ordered(c, f, s)
	if err != nil {
		out.err = err.Error()
		return out
	}
	if !many && len(idx) > 1 {
		idx = idx[:1]
	}
	if repl && len(u) > 0 && strings.HasPrefix(u[0].Key, "$") {
		out.err = "replacement document cannot contain keys beginning with '$'"
		return out
	}
	if len(idx) == 0 {
		if !upsert {
			// (validity of the update is still checked by MongoDB; an invalid update on
			// no documents fails there as well - lungo only notices it when applying)
			if !repl {
				if _, err := ref.Apply(bson.D{}, u, af, false, &ref.ApplyInfo{}); err != nil {
					// nothing changes either way; only the error-or-success of this call is not asserted
					w.SkipResult = true
				}
			}
			return out
		}
		seed, err := w.upsertSeed(f)
		if err != nil {
			out.err = err.Error()
			return out
		}
		var doc bson.D
		if repl {
			doc = clone(u)
			qid, qhas := getID(seed)
			rid, rhas := getID(doc)
			switch {
			case qhas && rhas && ref.Compare(qid, rid) != 0:
				out.err = "_id of the filter and of the replacement differ"
				return out
			case !rhas && qhas:
				doc = withID(doc, qid)
			}
		} else {
			info := &ref.ApplyInfo{}
			doc, err = ref.Apply(seed, u, af, true, info)
			if err != nil {
				out.err = err.Error()
				return out
			}
			if info.OutOfDomain {
				w.ood("update outside the reference domain: %s", info.Why)
			}
			if len(info.AdoptPaths) > 0 {
				w.ood("$currentDate in the model")
			}
		}
		if _, has := getID(doc); !has {
			nid, ok := w.freshID()
			if !ok {
				w.ood("generated _id cannot be adopted")
				return out
			}
			doc = withID(doc, nid)
		}
		if c == nil {
			c = w.coll(db, coll, true)
		}
		if w.uniqueConflict(c, doc, c.Docs) {
			out.err, out.unique = "duplicate key", true
			return out
		}
		c.Docs = append(c.Docs, doc)
		id, _ := getID(doc)
		out.upserted, out.upsertedID, out.after = 1, id, doc
		w.Touched[idKey(id)] = nil
		return out
	}
	// apply to all matched documents on a copy of the collection
	newDocs := append([]bson.D{}, c.Docs...)
	for _, p := range idx {
		pre := c.Docs[p]
		var post bson.D
		if repl {
			post = clone(u)
			pid, _ := getID(pre)
			if rid, has := getID(post); has {
				if !ref.SameValue(rid, pid) {
					out.err = "_id is immutable"
					return out
				}
			} else {
				post = withID(post, pid)
			}
		} else {
			info := &ref.ApplyInfo{}
			var err error
			post, err = ref.Apply(pre, u, af, false, info)
			if err != nil {
				out.err = err.Error()
				return out
			}
			if info.OutOfDomain {
				w.ood("update outside the reference domain: %s", info.Why)
			}
			if len(info.AdoptPaths) > 0 {
				w.ood("$currentDate in the model")
			}
			pid, _ := getID(pre)
			nid, has := getID(post)
			if !has || !ref.SameValue(pid, nid) {
				out.err = "_id is immutable"
				return out
			}
		}
		newDocs[p] = post
	}
	// uniqueness of the final state
	if w.anyPair(c, newDocs) {
		out.err, out.unique = "duplicate key", true
		return out
	}
	out.matched = int64(len(idx))
	out.found = true
	out.before, out.after = c.Docs[idx[0]], newDocs[idx[0]]
	for _, p := range idx {
		// (decimal128 values are compared by value: the exponent a decimal result
		// keeps is not part of the asserted semantics)
		if string(gen.Bytes(c.Docs[p])) != string(gen.Bytes(newDocs[p])) {
			w.ModifiedMax++
		}
		if !ref.SameValue(c.Docs[p], newDocs[p]) {
			out.modified++
			id, _ := getID(c.Docs[p])
			w.Touched[idKey(id)] = c.Docs[p]
		}
	}
	c.Docs = newDocs
	return out
}

func (w *World) delete(db, coll string, f, s bson.D, many bool) (int64, bson.D, string) {
	c := w.coll(db, coll, false)
	idx, err := w.ordered(c, f, s)
	if err != nil {
		return 0, nil, err.Error()
	}
	if len(idx) == 0 {
		return 0, nil, ""
	}
	if !many {
		idx = idx[:1]
	}
	first := c.Docs[idx[0]]
	drop := map[int]bool{}
	for _, p := range idx {
		drop[p] = true
	}
	var kept []bson.D
	for i, d := range c.Docs {
		if !drop[i] {
			kept = append(kept, d)
		}
	}
	c.Docs = kept
	return int64(len(idx)), first, ""
}

func indexName(s drv.IndexSpec) string {
	if s.Name != "" {
		return s.Name
	}
	var segs []string
	for _, e := range s.Keys {
		dir := 1
		if n, ok := ref.ToNum(e.Value); ok && n.Rat != nil && n.Rat.Sign() < 0 {
			dir = -1
		}
		segs = append(segs, e.Key, strconv.Itoa(dir))
	}
	return strings.Join(segs, "_")
}

func sameSpec(a, b drv.IndexSpec) bool {
	if string(gen.Bytes(a.Keys)) != string(gen.Bytes(b.Keys)) || a.Unique != b.Unique {
		return false
	}
	if (a.Partial == nil) != (b.Partial == nil) || (a.Partial != nil && string(gen.Bytes(a.Partial)) != string(gen.Bytes(b.Partial))) {
		return false
	}
	if (a.Expire == nil) != (b.Expire == nil) || (a.Expire != nil && *a.Expire != *b.Expire) {
		return false
	}
	return true
}

func (w *World) createIndex(db, coll string, s drv.IndexSpec) (string, string, bool) {
	name := indexName(s)
	c := w.coll(db, coll, false)
	created := false
	if c == nil {
		c = w.coll(db, coll, true)
		created = true
	}
	fail := func(msg string, unique bool) (string, string, bool) {
		if created {
			delete(w.Colls, key(db, coll))
		}
		return "", msg, unique
	}
	if s.Expire != nil && len(s.Keys) > 1 {
		return fail("TTL index must be single field", false)
	}
	for n, ex := range c.Indexes {
		if n == name {
			if sameSpec(ex, s) {
				return name, "", false
			}
			return fail("index name conflict", false)
		}
		if string(gen.Bytes(ex.Keys)) == string(gen.Bytes(s.Keys)) {
			return fail("index key conflict", false)
		}
	}
	if s.Unique {
		tmp := &Coll{Indexes: map[string]drv.IndexSpec{"new": s}}
		if w.anyPair(tmp, c.Docs) {
			return fail("duplicate key", true)
		}
	}
	s.Name = name
	c.Indexes[name] = s
	return name, "", false
}

// Exec runs one call on the model.
func projected(kind string) bool {
	switch kind {
	case drv.Find, drv.FindOne, drv.FindOneAndUpdate, drv.FindOneAndReplace, drv.FindOneAndDelete:
		return true
	}
	return false
}

// Exec applies one call to the model. A projection is validated before
// anything else happens (an invalid one fails the call without effect, also
// when no document is found) and applied to the returned documents.
func (w *World) Exec(op *drv.Op) drv.Res {
	w.SkipDocs, w.LooseDocs = false, false
	if op.Projection == nil || !projected(op.Kind) {
		return w.exec(op)
	}
	info := &ref.ProjInfo{}
	if _, err := ref.Project(bson.D{{Key: "_id", Value: int32(0)}}, op.Projection, info); err != nil {
		if info.OutOfDomain {
			w.Touched = map[string]bson.D{}
			w.ood("projection: %s", info.Why)
			return drv.Res{}
		}
		w.Touched = map[string]bson.D{}
		w.SkipResult = false
		return errRes(err.Error(), false)
	}
	res := w.exec(op)
	if res.Err != "" || w.OOD != "" {
		return res
	}
	out := make([]bson.D, 0, len(res.Docs))
	for _, d := range res.Docs {
		info := &ref.ProjInfo{}
		pd, err := ref.Project(d, op.Projection, info)
		if err != nil {
			w.ood("projection fails on a document: %s", err.Error())
			return res
		}
		if info.OutOfDomain {
			w.SkipDocs = true
		}
		if info.Inclusion {
			w.LooseDocs = true
		}
		out = append(out, pd)
	}
	if res.Docs != nil {
		res.Docs = out
	}
	return res
}

func (w *World) exec(op *drv.Op) drv.Res {
	w.Touched = map[string]bson.D{}
	w.SkipResult = false
	if !w.inBulk {
		w.ModifiedMax = 0
	}
	var res drv.Res
	filter := op.Filter
	if filter == nil {
		filter = bson.D{}
	}
	switch op.Kind {
	case drv.InsertOne:
		id, msg, failed := w.insert(op.DB, op.Coll, op.Docs[0])
		if failed {
			return errRes(msg, true)
		}
		res.IDs, res.Inserted = []interface{}{id}, 1
	case drv.InsertMany:
		for _, d := range op.Docs {
			id, msg, failed := w.insert(op.DB, op.Coll, d)
			if failed {
				if res.Err == "" {
					res.Err, res.Unique = msg, true
				}
				if op.Ordered {
					break
				}
				continue
			}
			res.IDs = append(res.IDs, id)
		}
		res.Inserted = int64(len(res.IDs))
	case drv.Find, drv.FindOne, drv.Count:
		c := w.coll(op.DB, op.Coll, false)
		idx, err := w.ordered(c, filter, op.Sort)
		if err != nil {
			return errRes(err.Error(), false)
		}
		skip, limit := int(op.Skip), int(op.Limit)
		if op.Kind == drv.FindOne {
			limit = 1
		}
		if skip > len(idx) {
			skip = len(idx)
		}
		idx = idx[skip:]
		if limit > 0 && limit < len(idx) {
			idx = idx[:limit]
		}
		switch op.Kind {
		case drv.Count:
			res.Matched = int64(len(idx))
		case drv.FindOne:
			if len(idx) == 0 {
				return drv.Res{Err: "no documents", NoDocs: true}
			}
			res.Docs = []bson.D{c.Docs[idx[0]]}
		default:
			res.Docs = []bson.D{}
			for _, p := range idx {
				res.Docs = append(res.Docs, c.Docs[p])
			}
		}
	case drv.Estimated:
		if c := w.coll(op.DB, op.Coll, false); c != nil {
			res.Matched = int64(len(c.Docs))
		}
	case drv.Distinct:
		c := w.coll(op.DB, op.Coll, false)
		idx, err := w.matching(c, filter)
		if err != nil {
			return errRes(err.Error(), false)
		}
		var docs []bson.D
		for _, p := range idx {
			docs = append(docs, c.Docs[p])
		}
		vals, ood := ref.Distinct(docs, op.Field)
		if ood {
			w.ood("distinct path outside the reference domain")
		}
		res.Values = vals
	case drv.UpdateOne, drv.UpdateMany, drv.UpdateByID:
		f := filter
		if op.Kind == drv.UpdateByID {
			f = bson.D{{Key: "_id", Value: op.ID}}
		}
		o := w.update(op.DB, op.Coll, f, nil, op.Update, op.ArrayFilters, op.Kind == drv.UpdateMany, op.Upsert, false)
		if o.err != "" {
			return errRes(o.err, o.unique)
		}
		res.Matched, res.Modified, res.Upserted = o.matched, o.modified, o.upserted
		if o.upserted == 1 {
			res.IDs = []interface{}{o.upsertedID}
		}
	case drv.ReplaceOne:
		o := w.update(op.DB, op.Coll, filter, nil, op.Update, nil, false, op.Upsert, true)
		if o.err != "" {
			return errRes(o.err, o.unique)
		}
		res.Matched, res.Modified, res.Upserted = o.matched, o.modified, o.upserted
		if o.upserted == 1 {
			res.IDs = []interface{}{o.upsertedID}
		}
	case drv.DeleteOne, drv.DeleteMany:
		n, _, msg := w.delete(op.DB, op.Coll, filter, nil, op.Kind == drv.DeleteMany)
		if msg != "" {
			return errRes(msg, false)
		}
		res.Matched = n
	case drv.FindOneAndUpdate, drv.FindOneAndReplace:
		o := w.update(op.DB, op.Coll, filter, op.Sort, op.Update, op.ArrayFilters, false, op.Upsert, op.Kind == drv.FindOneAndReplace)
		if o.err != "" {
			return errRes(o.err, o.unique)
		}
		switch {
		case o.found && op.ReturnAfter:
			res.Docs = []bson.D{o.after}
		case o.found:
			res.Docs = []bson.D{o.before}
		case o.upserted == 1 && op.ReturnAfter:
			res.Docs = []bson.D{o.after}
		default:
			return drv.Res{Err: "no documents", NoDocs: true}
		}
	case drv.FindOneAndDelete:
		n, first, msg := w.delete(op.DB, op.Coll, filter, op.Sort, false)
		if msg != "" {
			return errRes(msg, false)
		}
		if n == 0 {
			return drv.Res{Err: "no documents", NoDocs: true}
		}
		res.Docs = []bson.D{first}
	case drv.BulkWrite:
		touched := map[string]bson.D{}
		skip := false
		for i := range op.Models {
			m := op.Models[i]
			m.DB, m.Coll = op.DB, op.Coll
			w.inBulk = true
			r := w.Exec(&m)
			w.inBulk = false
			if w.SkipResult {
				skip = true
			}
			for k, v := range w.Touched {
				if _, seen := touched[k]; !seen {
					touched[k] = v
				}
			}
			if r.Err != "" {
				res.WriteErrs = append(res.WriteErrs, i)
				res.Err = "write errors"
				if r.Unique {
					res.Unique = true
				}
				if op.Ordered {
					break
				}
				continue
			}
			switch m.Kind {
			case drv.InsertOne:
				res.Inserted++
			case drv.DeleteOne, drv.DeleteMany:
				res.Deleted += r.Matched
			default:
				res.Matched += r.Matched
				res.Modified += r.Modified
				res.Upserted += r.Upserted
				if r.Upserted == 1 {
					res.UpsertIdx = append(res.UpsertIdx, int64(i))
					res.IDs = append(res.IDs, r.IDs...)
				}
			}
		}
		w.Touched = touched
		w.SkipResult = skip
	case drv.CreateIndex:
		name, msg, unique := w.createIndex(op.DB, op.Coll, op.Index)
		if msg != "" {
			return errRes(msg, unique)
		}
		res.Names = []string{name}
	case drv.CreateIndexes:
		for _, s := range op.Indexes {
			name, msg, unique := w.createIndex(op.DB, op.Coll, s)
			if msg != "" {
				res.Err, res.Unique = msg, unique
				break
			}
			res.Names = append(res.Names, name)
		}
	case drv.DropIndex:
		c := w.coll(op.DB, op.Coll, false)
		if c == nil {
			return errRes("ns not found", false)
		}
		if op.Name == "_id_" {
			return errRes("cannot drop _id index", false)
		}
		if _, ok := c.Indexes[op.Name]; !ok {
			return errRes("index not found", false)
		}
		delete(c.Indexes, op.Name)
	case drv.DropIndexKey:
		c := w.coll(op.DB, op.Coll, false)
		if c == nil {
			return errRes("ns not found", false)
		}
		found := ""
		for n, s := range c.Indexes {
			if string(gen.Bytes(s.Keys)) == string(gen.Bytes(op.Index.Keys)) {
				found = n
			}
		}
		if found == "" {
			return errRes("index not found", false)
		}
		if found == "_id_" {
			return errRes("cannot drop _id index", false)
		}
		delete(c.Indexes, found)
	case drv.DropAllIndexes:
		c := w.coll(op.DB, op.Coll, false)
		if c == nil {
			return errRes("ns not found", false)
		}
		for n := range c.Indexes {
			if n != "_id_" {
				delete(c.Indexes, n)
			}
		}
	case drv.ListIndexes:
		c := w.coll(op.DB, op.Coll, false)
		res.Docs = []bson.D{}
		if c != nil {
			var names []string
			for n := range c.Indexes {
				names = append(names, n)
			}
			sort.Strings(names)
			for _, n := range names {
				s := c.Indexes[n]
				d := bson.D{{Key: "key", Value: s.Keys}, {Key: "name", Value: n}}
				if s.Unique && n != "_id_" {
					d = append(d, bson.E{Key: "unique", Value: true})
				}
				if s.Partial != nil {
					d = append(d, bson.E{Key: "partialFilterExpression", Value: s.Partial})
				}
				if s.Expire != nil {
					d = append(d, bson.E{Key: "expireAfterSeconds", Value: *s.Expire})
				}
				res.Docs = append(res.Docs, d)
			}
		}
	case drv.CreateCollection:
		w.coll(op.DB, op.Coll, true)
	case drv.DropCollection:
		delete(w.Colls, key(op.DB, op.Coll))
	case drv.DropDatabase:
		for k := range w.Colls {
			if strings.HasPrefix(k, op.DB+".") {
				delete(w.Colls, k)
			}
		}
	case drv.ListCollections:
		res.Names = []string{}
		for k := range w.Colls {
			if strings.HasPrefix(k, op.DB+".") {
				res.Names = append(res.Names, k[len(op.DB)+1:])
			}
		}
		sort.Strings(res.Names)
	case drv.ListDatabases:
		seen := map[string]bool{"local": true}
		for k := range w.Colls {
			seen[k[:strings.Index(k, ".")]] = true
		}
		res.Names = []string{}
		for k := range seen {
			res.Names = append(res.Names, k)
		}
		sort.Strings(res.Names)
	}
	return res
}
